// mirx — fact extractor for the /verif static-analysis rules.
//
// A rustc_private driver used as RUSTC_WORKSPACE_WRAPPER.  For the crate named
// in MIRX_CRATE (default "encoding_rs") it dumps, after analysis, one JSON
// document to MIRX_OUT: ADTs, trait impls, evaluated statics, and the MIR CFG
// of every fn-like body with resolved callees.  Every other crate is compiled
// unchanged.  Nothing of the analysed crate is executed.
#![feature(rustc_private)]
#![allow(clippy::all)]

extern crate rustc_abi;
extern crate rustc_data_structures;
extern crate rustc_driver;
extern crate rustc_hir;
extern crate rustc_interface;
extern crate rustc_middle;
extern crate rustc_session;
extern crate rustc_span;

use rustc_driver::Compilation;
use rustc_hir::def::DefKind;
use rustc_hir::def_id::{DefId, LOCAL_CRATE};
use rustc_interface::interface::Compiler;
use rustc_middle::mir::interpret::{AllocId, GlobalAlloc, Scalar};
use rustc_middle::mir::{
    self, AggregateKind, BasicBlock, Body, BorrowKind, Const, ConstValue, Operand, Place,
    ProjectionElem, Rvalue, StatementKind, TerminatorKind, UnwindAction,
};
use rustc_middle::ty::{self, Instance, Ty, TyCtxt, TypingEnv};
use rustc_span::Span;
use std::collections::{BTreeMap, BTreeSet};
use std::fmt::Write as _;

// ---------------------------------------------------------------- tiny JSON

#[derive(Clone)]
enum J {
    Null,
    B(bool),
    I(i128),
    S(String),
    A(Vec<J>),
    O(Vec<(String, J)>),
}

fn js(s: impl Into<String>) -> J {
    J::S(s.into())
}
fn jo(v: Vec<(&str, J)>) -> J {
    J::O(v.into_iter().map(|(k, v)| (k.to_string(), v)).collect())
}

fn esc(s: &str, out: &mut String) {
    out.push('"');
    for c in s.chars() {
        match c {
            '"' => out.push_str("\\\""),
            '\\' => out.push_str("\\\\"),
            '\n' => out.push_str("\\n"),
            '\r' => out.push_str("\\r"),
            '\t' => out.push_str("\\t"),
            c if (c as u32) < 0x20 => {
                let _ = write!(out, "\\u{:04x}", c as u32);
            }
            c => out.push(c),
        }
    }
    out.push('"');
}

impl J {
    fn write(&self, out: &mut String) {
        match self {
            J::Null => out.push_str("null"),
            J::B(b) => out.push_str(if *b { "true" } else { "false" }),
            J::I(i) => {
                let _ = write!(out, "{}", i);
            }
            J::S(s) => esc(s, out),
            J::A(v) => {
                out.push('[');
                for (i, x) in v.iter().enumerate() {
                    if i > 0 {
                        out.push(',');
                    }
                    x.write(out);
                }
                out.push(']');
            }
            J::O(v) => {
                out.push('{');
                for (i, (k, x)) in v.iter().enumerate() {
                    if i > 0 {
                        out.push(',');
                    }
                    esc(k, out);
                    out.push(':');
                    x.write(out);
                }
                out.push('}');
            }
        }
    }
}

fn hex(bytes: &[u8]) -> String {
    let mut s = String::with_capacity(bytes.len() * 2);
    for b in bytes {
        let _ = write!(s, "{:02x}", b);
    }
    s
}

// ---------------------------------------------------------------- extractor

struct Cx<'tcx> {
    tcx: TyCtxt<'tcx>,
    mems: BTreeMap<u64, J>,
    mem_queue: Vec<AllocId>,
    mem_seen: BTreeSet<u64>,
}

fn ty_str<'tcx>(ty: Ty<'tcx>) -> String {
    ty::print::with_no_trimmed_paths!(format!("{}", ty))
}

fn strip_lifetime_generics(s: &str) -> String {
    // "handles::Utf8Destination::<'a>::write" -> "handles::Utf8Destination::write"
    let mut out = String::new();
    let b = s.as_bytes();
    let mut i = 0;
    while i < b.len() {
        if b[i..].starts_with(b"::<'") {
            // find matching '>' (no nesting for pure lifetime lists)
            let mut j = i + 3;
            let mut only_lt = true;
            let mut depth = 1;
            while j < b.len() && depth > 0 {
                match b[j] {
                    b'<' => depth += 1,
                    b'>' => depth -= 1,
                    _ => {}
                }
                j += 1;
            }
            let inner = &s[i + 3..j - 1];
            for part in inner.split(',') {
                if !part.trim().starts_with('\'') {
                    only_lt = false;
                }
            }
            if only_lt {
                i = j;
                continue;
            }
        }
        out.push(b[i] as char);
        i += 1;
    }
    out
}

impl<'tcx> Cx<'tcx> {
    fn path(&self, did: DefId) -> String {
        let s = ty::print::with_no_trimmed_paths!(self.tcx.def_path_str(did));
        strip_lifetime_generics(&s)
    }

    fn span(&self, sp: Span) -> J {
        let sm = self.tcx.sess.source_map();
        let loc = |s: Span| -> J {
            if s.is_dummy() {
                return J::Null;
            }
            let p = sm.lookup_char_pos(s.lo());
            let name = format!("{}", p.file.name.prefer_local_unconditionally());
            J::A(vec![js(name), J::I(p.line as i128), J::I(p.col.0 as i128 + 1)])
        };
        let mut v = vec![("at", loc(sp))];
        if sp.from_expansion() {
            v.push(("cs", loc(sp.source_callsite())));
            let mut macs = vec![];
            for ed in sp.macro_backtrace() {
                let name = match ed.kind {
                    rustc_span::ExpnKind::Macro(_, sym) => sym.to_string(),
                    rustc_span::ExpnKind::Desugaring(d) => format!("desugar:{:?}", d),
                    rustc_span::ExpnKind::AstPass(p) => format!("astpass:{:?}", p),
                    rustc_span::ExpnKind::Root => "root".to_string(),
                };
                let local = ed.macro_def_id.map(|d| d.is_local()).unwrap_or(false);
                macs.push(J::A(vec![js(name), J::B(local)]));
            }
            v.push(("mac", J::A(macs)));
        }
        jo(v)
    }

    fn place(&self, body: &Body<'tcx>, p: &Place<'tcx>) -> J {
        let tcx = self.tcx;
        let mut proj = vec![];
        let mut pty = mir::PlaceTy::from_ty(body.local_decls[p.local].ty);
        for elem in p.projection.iter() {
            let j = match elem {
                ProjectionElem::Deref => js("deref"),
                ProjectionElem::Field(f, _) => {
                    let mut name = format!("{}", f.index());
                    if let ty::Adt(adt, _) = pty.ty.kind() {
                        let vidx = pty.variant_index.unwrap_or(rustc_abi::FIRST_VARIANT);
                        if adt.is_enum() || adt.is_struct() || adt.is_union() {
                            let v = adt.variant(vidx);
                            if f.index() < v.fields.len() {
                                name = v.fields[f].name.to_string();
                            }
                        }
                    }
                    jo(vec![("field", js(name)), ("idx", J::I(f.index() as i128))])
                }
                ProjectionElem::Index(l) => jo(vec![("index", J::I(l.index() as i128))]),
                ProjectionElem::ConstantIndex { offset, min_length, from_end } => jo(vec![
                    ("const_index", J::I(offset as i128)),
                    ("min_length", J::I(min_length as i128)),
                    ("from_end", J::B(from_end)),
                ]),
                ProjectionElem::Subslice { from, to, from_end } => jo(vec![
                    ("subslice", J::A(vec![J::I(from as i128), J::I(to as i128)])),
                    ("from_end", J::B(from_end)),
                ]),
                ProjectionElem::Downcast(_, vidx) => {
                    let mut name = format!("{}", vidx.index());
                    if let ty::Adt(adt, _) = pty.ty.kind() {
                        name = adt.variant(vidx).name.to_string();
                    }
                    jo(vec![("downcast", js(name))])
                }
                ProjectionElem::OpaqueCast(_) => js("opaque_cast"),
                ProjectionElem::UnwrapUnsafeBinder(_) => js("unwrap_binder"),
            };
            proj.push(j);
            pty = pty.projection_ty(tcx, elem);
        }
        jo(vec![("l", J::I(p.local.index() as i128)), ("p", J::A(proj))])
    }

    fn note_alloc(&mut self, id: AllocId) -> u64 {
        let n = id.0.get();
        if self.mem_seen.insert(n) {
            self.mem_queue.push(id);
        }
        n
    }

    fn alloc_target(&mut self, id: AllocId) -> J {
        match self.tcx.try_get_global_alloc(id) {
            Some(GlobalAlloc::Static(did)) => jo(vec![("static", js(self.path(did)))]),
            Some(GlobalAlloc::Memory(_)) => {
                let n = self.note_alloc(id);
                jo(vec![("mem", J::I(n as i128))])
            }
            Some(GlobalAlloc::Function { instance }) => {
                jo(vec![("fn", js(self.path(instance.def_id())))])
            }
            _ => jo(vec![("other", js("alloc"))]),
        }
    }

    fn drain_mems(&mut self) {
        while let Some(id) = self.mem_queue.pop() {
            if let Some(GlobalAlloc::Memory(a)) = self.tcx.try_get_global_alloc(id) {
                let j = self.alloc_json(a.inner());
                self.mems.insert(id.0.get(), j);
            }
        }
    }

    fn alloc_json(&mut self, a: &mir::interpret::Allocation) -> J {
        let len = a.len();
        let bytes = a.inspect_with_uninit_and_ptr_outside_interpreter(0..len);
        let mut relocs = vec![];
        let ptrs: Vec<(u64, AllocId)> =
            a.provenance().ptrs().iter().map(|(off, prov)| (off.bytes(), prov.alloc_id())).collect();
        for (off, aid) in ptrs {
            let o = off as usize;
            let mut addend: u64 = 0;
            if o + 8 <= bytes.len() {
                let mut b = [0u8; 8];
                b.copy_from_slice(&bytes[o..o + 8]);
                addend = u64::from_le_bytes(b);
            }
            let to = self.alloc_target(aid);
            relocs.push(jo(vec![
                ("at", J::I(off as i128)),
                ("to", to),
                ("off", J::I(addend as i128)),
            ]));
        }
        jo(vec![
            ("size", J::I(len as i128)),
            ("bytes", js(hex(bytes))),
            ("relocs", J::A(relocs)),
        ])
    }

    fn scalar_json(&mut self, s: Scalar, ty: Ty<'tcx>) -> J {
        match s {
            Scalar::Int(i) => {
                let size = i.size();
                let bits = i.to_bits(size);
                let mut v = vec![("ty", js(ty_str(ty))), ("int", J::I(bits as i128))];
                if let ty::Int(_) = ty.kind() {
                    // signed value as well
                    let sv = i.to_int(size);
                    v.push(("sint", J::I(sv)));
                }
                jo(v)
            }
            Scalar::Ptr(ptr, _) => {
                let (prov, off) = ptr.into_raw_parts();
                let aid = prov.alloc_id();
                let to = self.alloc_target(aid);
                jo(vec![("ty", js(ty_str(ty))), ("ptr", to), ("off", J::I(off.bytes() as i128))])
            }
        }
    }

    fn constant(&mut self, owner: DefId, c: &mir::ConstOperand<'tcx>) -> J {
        let tcx = self.tcx;
        let ty = c.const_.ty();
        // fn items
        if let ty::FnDef(did, args) = *ty.kind() {
            return self.fn_ref(owner, did, args);
        }
        let env = TypingEnv::post_analysis(tcx, owner);
        let val = match c.const_ {
            Const::Val(v, _) => Some(v),
            Const::Unevaluated(..) | Const::Ty(..) => c.const_.eval(tcx, env, c.span).ok(),
        };
        let Some(val) = val else {
            return jo(vec![("ty", js(ty_str(ty))), ("other", js(format!("{}", c.const_)))]);
        };
        match val {
            ConstValue::Scalar(s) => self.scalar_json(s, ty),
            ConstValue::ZeroSized => jo(vec![("ty", js(ty_str(ty))), ("zst", J::B(true))]),
            ConstValue::Slice { alloc_id, meta } => {
                let mut v = vec![("ty", js(ty_str(ty))), ("slice_len", J::I(meta as i128))];
                if let Some(GlobalAlloc::Memory(a)) = tcx.try_get_global_alloc(alloc_id) {
                    let a = a.inner();
                    let bytes = a.inspect_with_uninit_and_ptr_outside_interpreter(0..a.len());
                    v.push(("bytes", js(hex(bytes))));
                    if let Ok(s) = std::str::from_utf8(bytes) {
                        v.push(("str", js(s)));
                    }
                }
                jo(v)
            }
            ConstValue::Indirect { alloc_id, offset } => {
                let to = self.alloc_target(alloc_id);
                jo(vec![
                    ("ty", js(ty_str(ty))),
                    ("indirect", to),
                    ("off", J::I(offset.bytes() as i128)),
                ])
            }
        }
    }

    fn fn_ref(&mut self, owner: DefId, did: DefId, args: ty::GenericArgsRef<'tcx>) -> J {
        let tcx = self.tcx;
        let env = TypingEnv::post_analysis(tcx, owner);
        let mut resolved = did;
        let mut rargs = args;
        let mut ok = true;
        let mut kind = "item";
        match Instance::try_resolve(tcx, env, did, args) {
            Ok(Some(inst)) => {
                resolved = inst.def_id();
                rargs = inst.args;
                kind = match inst.def {
                    ty::InstanceKind::Item(_) => "item",
                    ty::InstanceKind::Intrinsic(_) => "intrinsic",
                    ty::InstanceKind::Virtual(..) => "virtual",
                    ty::InstanceKind::FnPtrShim(..) => "fnptrshim",
                    ty::InstanceKind::ClosureOnceShim { .. } => "closureonce",
                    ty::InstanceKind::DropGlue(..) => "dropglue",
                    ty::InstanceKind::CloneShim(..) => "cloneshim",
                    _ => "shim",
                };
            }
            _ => {
                // generic trait call that cannot be resolved here (T: Trait)
                ok = tcx.trait_of_assoc(did).is_none();
            }
        }
        let generic: Vec<J> = rargs
            .iter()
            .filter_map(|a| a.as_type().map(|t| js(ty_str(t))).or_else(|| a.as_const().map(|c| js(format!("{}", c)))))
            .collect();
        jo(vec![
            ("fn", js(self.path(resolved))),
            ("decl", js(self.path(did))),
            ("resolved", J::B(ok)),
            ("ikind", js(kind)),
            ("local", J::B(resolved.is_local())),
            ("generic", J::A(generic)),
        ])
    }

    fn operand(&mut self, owner: DefId, body: &Body<'tcx>, op: &Operand<'tcx>) -> J {
        match op {
            Operand::Copy(p) => jo(vec![("copy", self.place(body, p))]),
            Operand::Move(p) => jo(vec![("move", self.place(body, p))]),
            Operand::Constant(c) => jo(vec![("const", self.constant(owner, c))]),
            other => jo(vec![("const", jo(vec![("other", js(format!("{:?}", other)))]))]),
        }
    }

    fn rvalue(&mut self, owner: DefId, body: &Body<'tcx>, rv: &Rvalue<'tcx>) -> J {
        let tcx = self.tcx;
        match rv {
            Rvalue::Use(op, ..) => jo(vec![("use", self.operand(owner, body, op))]),
            Rvalue::Repeat(op, n) => jo(vec![
                ("repeat", self.operand(owner, body, op)),
                ("n", js(format!("{}", n))),
            ]),
            Rvalue::Ref(_, bk, p) => {
                let k = match bk {
                    BorrowKind::Shared => "shared",
                    BorrowKind::Fake(_) => "fake",
                    BorrowKind::Mut { .. } => "mut",
                };
                jo(vec![("ref", js(k)), ("place", self.place(body, p))])
            }
            Rvalue::RawPtr(k, p) => {
                jo(vec![("rawptr", js(format!("{:?}", k))), ("place", self.place(body, p))])
            }
            Rvalue::Cast(kind, op, ty) => jo(vec![
                ("cast", js(format!("{:?}", kind))),
                ("x", self.operand(owner, body, op)),
                ("to", js(ty_str(*ty))),
            ]),
            Rvalue::BinaryOp(op, b) => jo(vec![
                ("bin", js(format!("{:?}", op))),
                ("l", self.operand(owner, body, &b.0)),
                ("r", self.operand(owner, body, &b.1)),
            ]),
            Rvalue::UnaryOp(op, x) => {
                jo(vec![("un", js(format!("{:?}", op))), ("x", self.operand(owner, body, x))])
            }
            Rvalue::Discriminant(p) => jo(vec![("discriminant", self.place(body, p))]),
            Rvalue::Aggregate(kind, ops) => {
                let k = match &**kind {
                    AggregateKind::Array(t) => jo(vec![("array", js(ty_str(*t)))]),
                    AggregateKind::Tuple => js("tuple"),
                    AggregateKind::Adt(did, vidx, _, _, _) => {
                        let adt = tcx.adt_def(*did);
                        let v = adt.variant(*vidx);
                        let fields: Vec<J> = v.fields.iter().map(|f| js(f.name.to_string())).collect();
                        jo(vec![
                            ("adt", js(self.path(*did))),
                            ("variant", js(v.name.to_string())),
                            ("fields", J::A(fields)),
                        ])
                    }
                    AggregateKind::Closure(did, _) => jo(vec![("closure", js(self.path(*did)))]),
                    AggregateKind::RawPtr(..) => js("rawptr"),
                    _ => js("other"),
                };
                let ops: Vec<J> = ops.iter().map(|o| self.operand(owner, body, o)).collect();
                jo(vec![("aggregate", k), ("ops", J::A(ops))])
            }
            Rvalue::CopyForDeref(p) => jo(vec![("use", jo(vec![("copy", self.place(body, p))]))]),
            Rvalue::ThreadLocalRef(d) => jo(vec![("other", js(format!("tls {}", self.path(*d))))]),
            other => jo(vec![("other", js(format!("{:?}", other)))]),
        }
    }

    fn body(&mut self, did: DefId, body: &Body<'tcx>, kind: &str) -> J {
        let tcx = self.tcx;
        let mut locals = vec![];
        let mut dbg: BTreeMap<usize, String> = BTreeMap::new();
        let mut dbg_other = vec![];
        for vdi in &body.var_debug_info {
            match &vdi.value {
                mir::VarDebugInfoContents::Place(p) => {
                    if p.projection.is_empty() {
                        dbg.entry(p.local.index()).or_insert(vdi.name.to_string());
                    } else {
                        dbg_other.push(jo(vec![
                            ("name", js(vdi.name.to_string())),
                            ("place", self.place(body, p)),
                        ]));
                    }
                }
                _ => {}
            }
        }
        for (l, decl) in body.local_decls.iter_enumerated() {
            let mut v = vec![("ty", js(ty_str(decl.ty)))];
            let mut t = decl.ty;
            // peel refs / raw ptrs to find the ADT
            loop {
                match t.kind() {
                    ty::Ref(_, inner, _) => t = *inner,
                    ty::RawPtr(inner, _) => t = *inner,
                    _ => break,
                }
            }
            if let ty::Adt(adt, _) = t.kind() {
                v.push(("adt", js(self.path(adt.did()))));
            }
            if let Some(n) = dbg.get(&l.index()) {
                v.push(("name", js(n.clone())));
            }
            locals.push(jo(v));
        }
        let mut blocks = vec![];
        for (_bb, data) in body.basic_blocks.iter_enumerated() {
            let mut stmts = vec![];
            let mut last_discr: BTreeMap<usize, Place<'tcx>> = BTreeMap::new();
            for st in &data.statements {
                match &st.kind {
                    StatementKind::Assign(b) => {
                        let (p, rv) = &**b;
                        if let Rvalue::Discriminant(dp) = rv {
                            if p.projection.is_empty() {
                                last_discr.insert(p.local.index(), *dp);
                            }
                        }
                        stmts.push(jo(vec![
                            ("assign", self.place(body, p)),
                            ("rv", self.rvalue(did, body, rv)),
                            ("sp", self.span(st.source_info.span)),
                        ]));
                    }
                    StatementKind::SetDiscriminant { place, variant_index } => {
                        let pty = place.ty(&body.local_decls, tcx).ty;
                        let mut name = format!("{}", variant_index.index());
                        if let ty::Adt(adt, _) = pty.kind() {
                            name = adt.variant(*variant_index).name.to_string();
                        }
                        stmts.push(jo(vec![
                            ("set_discr", self.place(body, place)),
                            ("variant", js(name)),
                            ("sp", self.span(st.source_info.span)),
                        ]));
                    }
                    StatementKind::Intrinsic(i) => {
                        stmts.push(jo(vec![
                            ("intrinsic", js(format!("{:?}", i))),
                            ("sp", self.span(st.source_info.span)),
                        ]));
                    }
                    _ => {}
                }
            }
            let term = data.terminator();
            let tsp = self.span(term.source_info.span);
            let bbi = |b: BasicBlock| J::I(b.index() as i128);
            let unwind = |u: &UnwindAction| match u {
                UnwindAction::Continue => js("continue"),
                UnwindAction::Unreachable => js("unreachable"),
                UnwindAction::Terminate(_) => js("terminate"),
                UnwindAction::Cleanup(b) => J::I(b.index() as i128),
            };
            let t = match &term.kind {
                TerminatorKind::Goto { target } => jo(vec![("goto", bbi(*target))]),
                TerminatorKind::SwitchInt { discr, targets } => {
                    let mut tv = vec![];
                    for (v, b) in targets.iter() {
                        tv.push(J::A(vec![J::I(v as i128), bbi(b)]));
                    }
                    let mut v = vec![
                        ("switch", self.operand(did, body, discr)),
                        ("targets", J::A(tv)),
                        ("otherwise", bbi(targets.otherwise())),
                    ];
                    let dty = discr.ty(&body.local_decls, tcx);
                    v.push(("sty", js(ty_str(dty))));
                    if let Some(p) = discr.place() {
                        if p.projection.is_empty() {
                            if let Some(dp) = last_discr.get(&p.local.index()) {
                                let pty = dp.ty(&body.local_decls, tcx).ty;
                                if let ty::Adt(adt, _) = pty.kind() {
                                    if adt.is_enum() {
                                        let mut names = vec![];
                                        for (vidx, d) in adt.discriminants(tcx) {
                                            names.push((
                                                format!("{}", d.val),
                                                js(adt.variant(vidx).name.to_string()),
                                            ));
                                        }
                                        v.push(("discr_of", self.place(body, dp)));
                                        v.push(("enum", js(self.path(adt.did()))));
                                        v.push(("variants", J::O(names)));
                                    }
                                }
                            }
                        }
                    }
                    jo(v)
                }
                TerminatorKind::Return => jo(vec![("return", J::Null)]),
                TerminatorKind::Unreachable => jo(vec![("unreachable", J::Null)]),
                TerminatorKind::UnwindResume => jo(vec![("resume", J::Null)]),
                TerminatorKind::UnwindTerminate(_) => jo(vec![("terminate", J::Null)]),
                TerminatorKind::Drop { place, target, unwind: u, .. } => jo(vec![
                    ("drop", self.place(body, place)),
                    ("target", bbi(*target)),
                    ("unwind", unwind(u)),
                ]),
                TerminatorKind::Call { func, args, destination, target, unwind: u, fn_span, .. } => {
                    let f = match func {
                        Operand::Constant(c) => self.constant(did, c),
                        Operand::Copy(p) | Operand::Move(p) => {
                            jo(vec![("fn", J::Null), ("indirect", self.place(body, p))])
                        }
                        _ => jo(vec![("fn", J::Null)]),
                    };
                    let a: Vec<J> = args.iter().map(|a| self.operand(did, body, &a.node)).collect();
                    jo(vec![
                        ("call", f),
                        ("args", J::A(a)),
                        ("dest", self.place(body, destination)),
                        ("target", target.map(bbi).unwrap_or(J::Null)),
                        ("unwind", unwind(u)),
                        ("fsp", self.span(*fn_span)),
                    ])
                }
                TerminatorKind::Assert { cond, expected, msg, target, unwind: u } => jo(vec![
                    ("assert", self.operand(did, body, cond)),
                    ("expected", J::B(*expected)),
                    ("msg", js(format!("{:?}", msg).split('(').next().unwrap_or("").to_string())),
                    ("target", bbi(*target)),
                    ("unwind", unwind(u)),
                ]),
                TerminatorKind::FalseEdge { real_target, .. } => jo(vec![("goto", bbi(*real_target))]),
                TerminatorKind::FalseUnwind { real_target, .. } => {
                    jo(vec![("goto", bbi(*real_target))])
                }
                TerminatorKind::InlineAsm { targets, .. } => jo(vec![
                    ("asm", J::Null),
                    ("targets", J::A(targets.iter().map(|b| bbi(*b)).collect())),
                ]),
                other => jo(vec![("other", js(format!("{:?}", other)))]),
            };
            blocks.push(jo(vec![
                ("s", J::A(stmts)),
                ("t", t),
                ("tsp", tsp),
                ("cleanup", J::B(data.is_cleanup)),
            ]));
        }
        // signature-ish
        let mut v = vec![
            ("kind", js(kind)),
            ("span", self.span(tcx.def_span(did))),
            ("arg_count", J::I(body.arg_count as i128)),
            ("ret", js(ty_str(body.local_decls[mir::RETURN_PLACE].ty))),
            ("locals", J::A(locals)),
            ("dbg_other", J::A(dbg_other)),
            ("blocks", J::A(blocks)),
        ];
        let dk = tcx.def_kind(did);
        if matches!(dk, DefKind::Fn | DefKind::AssocFn) {
            let vis = tcx.visibility(did);
            v.push(("pub", J::B(vis.is_public())));
            if let Some(ld) = did.as_local() {
                let ev = tcx.effective_visibilities(());
                v.push(("exported", J::B(ev.is_exported(ld))));
                v.push(("reachable", J::B(ev.is_reachable(ld))));
            }
            let sig = tcx.fn_sig(did).skip_binder().skip_binder();
            v.push(("unsafe", J::B(!sig.safety().is_safe())));
            let attrs = tcx.codegen_fn_attrs(did);
            v.push(("inline", js(format!("{:?}", attrs.inline))));
            let tf: Vec<J> = attrs.target_features.iter().map(|f| js(f.name.to_string())).collect();
            v.push(("target_features", J::A(tf)));
            if let Some(imp) = tcx.impl_of_assoc(did) {
                let st = tcx.type_of(imp).instantiate_identity().skip_norm_wip();
                v.push(("impl_self", js(ty_str(st))));
                if let Some(tr) = tcx.impl_opt_trait_ref(imp) {
                    v.push(("impl_trait", js(self.path(tr.skip_binder().def_id))));
                }
            }
        }
        jo(v)
    }
}

struct Cb;

impl rustc_driver::Callbacks for Cb {
    fn after_analysis<'tcx>(&mut self, _c: &Compiler, tcx: TyCtxt<'tcx>) -> Compilation {
        let want = std::env::var("MIRX_CRATE").unwrap_or_else(|_| "encoding_rs".to_string());
        let name = tcx.crate_name(LOCAL_CRATE).to_string();
        if name != want {
            return Compilation::Continue;
        }
        // only the lib target (cargo check --lib passes --crate-type lib)
        let out = match std::env::var("MIRX_OUT") {
            Ok(o) => o,
            Err(_) => return Compilation::Continue,
        };
        let mut cx = Cx { tcx, mems: BTreeMap::new(), mem_queue: vec![], mem_seen: BTreeSet::new() };

        // ---- ADTs, statics, impls
        let mut adts = vec![];
        let mut statics = vec![];
        let mut consts = vec![];
        let mut bodies = vec![];
        let items = tcx.hir_crate_items(());
        for ld in items.definitions() {
            let did = ld.to_def_id();
            match tcx.def_kind(did) {
                DefKind::Struct | DefKind::Enum => {
                    let adt = tcx.adt_def(did);
                    let mut vars = vec![];
                    let discrs: Vec<(rustc_abi::VariantIdx, u128)> = if adt.is_enum() {
                        adt.discriminants(tcx).map(|(i, d)| (i, d.val)).collect()
                    } else {
                        vec![(rustc_abi::FIRST_VARIANT, 0)]
                    };
                    for (vidx, d) in discrs {
                        let v = adt.variant(vidx);
                        let fields: Vec<J> = v
                            .fields
                            .iter()
                            .map(|f| {
                                let fty = tcx.type_of(f.did).instantiate_identity().skip_norm_wip();
                                jo(vec![
                                    ("name", js(f.name.to_string())),
                                    ("ty", js(ty_str(fty))),
                                    ("pub", J::B(f.vis.is_public())),
                                ])
                            })
                            .collect();
                        vars.push(jo(vec![
                            ("name", js(v.name.to_string())),
                            ("discr", J::I(d as i128)),
                            ("fields", J::A(fields)),
                        ]));
                    }
                    let self_ty = tcx.type_of(did).instantiate_identity().skip_norm_wip();
                    let env = TypingEnv::post_analysis(tcx, did);
                    let generic = tcx.generics_of(did).own_params.iter().any(|p| {
                        !matches!(p.kind, ty::GenericParamDefKind::Lifetime)
                    });
                    let mut v = vec![
                        ("kind", js(if adt.is_enum() { "enum" } else { "struct" })),
                        ("pub", J::B(tcx.visibility(did).is_public())),
                        ("span", cx.span(tcx.def_span(did))),
                        ("variants", J::A(vars)),
                    ];
                    if !generic {
                        v.push(("freeze", J::B(self_ty.is_freeze(tcx, env))));
                        v.push(("copy", J::B(tcx.type_is_copy_modulo_regions(env, self_ty))));
                    }
                    adts.push((cx.path(did), jo(v)));
                }
                DefKind::Static { .. } => {
                    let mut v = vec![("span", cx.span(tcx.def_span(did)))];
                    let sty = tcx.type_of(did).instantiate_identity().skip_norm_wip();
                    v.push(("ty", js(ty_str(sty))));
                    v.push(("pub", J::B(tcx.visibility(did).is_public())));
                    if let Ok(a) = tcx.eval_static_initializer(did) {
                        let j = cx.alloc_json(a.inner());
                        v.push(("alloc", j));
                    }
                    statics.push((cx.path(did), jo(v)));
                    let b = tcx.mir_for_ctfe(did);
                    let small = b.basic_blocks.iter().map(|d| d.statements.len()).sum::<usize>() < 400
                        && b.basic_blocks.iter().all(|d| {
                            d.statements.iter().all(|s| match &s.kind {
                                StatementKind::Assign(b) => match &b.1 {
                                    Rvalue::Aggregate(_, ops) => ops.len() <= 64,
                                    _ => true,
                                },
                                _ => true,
                            })
                        });
                    if small {
                        let j = cx.body(did, b, "static");
                        bodies.push((cx.path(did), j));
                    }
                }
                DefKind::Const { .. } | DefKind::AssocConst { .. } => {
                    // scalar constants by value
                    let cty = tcx.type_of(did).instantiate_identity().skip_norm_wip();
                    if cty.is_integral() || cty.is_bool() || cty.is_char() {
                        if tcx.generics_of(did).count() == 0 {
                            if let Ok(val) = tcx.const_eval_poly(did) {
                                if let Some(s) = val.try_to_scalar() {
                                    let j = cx.scalar_json(s, cty);
                                    consts.push((cx.path(did), j));
                                }
                            }
                        }
                    }
                }
                _ => {}
            }
        }
        let mut impls = vec![];
        for (trait_did, impl_list) in tcx.all_local_trait_impls(()) {
            for imp in impl_list {
                let st = tcx.type_of(imp.to_def_id()).instantiate_identity().skip_norm_wip();
                impls.push(jo(vec![
                    ("trait", js(cx.path(*trait_did))),
                    ("self", js(ty_str(st))),
                    ("span", cx.span(tcx.def_span(imp.to_def_id()))),
                ]));
            }
        }

        // ---- bodies
        for ld in tcx.hir_body_owners() {
            let did = ld.to_def_id();
            let kind = match tcx.def_kind(did) {
                DefKind::Fn => "fn",
                DefKind::AssocFn => "assoc_fn",
                DefKind::Closure => "closure",
                _ => continue,
            };
            if kind == "closure" && tcx.is_coroutine(did) {
                continue;
            }
            let body = tcx.optimized_mir(did);
            let j = cx.body(did, body, kind);
            bodies.push((cx.path(did), j));
        }
        cx.drain_mems();
        let mems: Vec<(String, J)> =
            std::mem::take(&mut cx.mems).into_iter().map(|(k, v)| (format!("{}", k), v)).collect();

        let cfgs: Vec<J> = {
            let mut v: Vec<String> = tcx
                .sess
                .config
                .iter()
                .filter_map(|(k, val)| {
                    if k.as_str() == "feature" {
                        val.map(|x| format!("feature={}", x))
                    } else if k.as_str() == "debug_assertions" || k.as_str() == "target_arch" {
                        Some(match val {
                            Some(x) => format!("{}={}", k, x),
                            None => k.to_string(),
                        })
                    } else {
                        None
                    }
                })
                .collect();
            v.sort();
            v.into_iter().map(js).collect()
        };

        let doc = J::O(vec![
            ("crate".to_string(), js(name)),
            ("rustc".to_string(), js(option_env!("CFG_VERSION").unwrap_or("nightly").to_string())),
            ("cfg".to_string(), J::A(cfgs)),
            ("adts".to_string(), J::O(adts)),
            ("impls".to_string(), J::A(impls)),
            ("statics".to_string(), J::O(statics)),
            ("consts".to_string(), J::O(consts)),
            ("mems".to_string(), J::O(mems)),
            ("bodies".to_string(), J::O(bodies)),
        ]);
        let mut s = String::with_capacity(1 << 24);
        doc.write(&mut s);
        std::fs::write(&out, s).expect("mirx: cannot write MIRX_OUT");
        Compilation::Continue
    }
}

fn main() {
    let mut args: Vec<String> = std::env::args().collect();
    // RUSTC_WORKSPACE_WRAPPER mode: argv[1] is the path of the real rustc.
    if args.len() > 1 && (args[1].ends_with("rustc") || args[1].contains("/rustc")) {
        args.remove(1);
    }
    let mut cb = Cb;
    rustc_driver::run_compiler(&args, &mut cb);
}
