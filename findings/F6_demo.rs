use encoding_rs::*;
#[test]
fn pending_nul_after_unpaired_high_surrogate() {
    for enc in [UTF_16LE, UTF_16BE] {
        let (c1, c2): (&[u8], &[u8]) = if enc == UTF_16LE { (&[0x3D], &[0xD8, 0x00, 0x00]) } else { (&[0xD8], &[0x3D, 0x00, 0x00]) };
        let mut d = enc.new_decoder_without_bom_handling();
        let mut out = [0u16; 16];
        let (r, read, written) = d.decode_to_utf16_without_replacement(c1, &mut out, false);
        assert_eq!((r, read, written), (DecoderResult::InputEmpty, 1, 0));
        let (r, read, written) = d.decode_to_utf16_without_replacement(c2, &mut out, false);
        assert_eq!((r, read, written), (DecoderResult::Malformed(2, 2), 3, 0));
        // one more byte arrives; size the buffer as the query says
        let next: &[u8] = &[0x41];
        let needed = d.max_utf16_buffer_length(next.len()).unwrap();
        let mut buf = vec![0xFFFFu16; needed];
        let (r, read, written) = d.decode_to_utf16_without_replacement(next, &mut buf, false);
        println!("{}: needed={} -> {:?} read={} written={}", enc.name(), needed, r, read, written);
        assert_ne!(r, DecoderResult::OutputFull, "{}: OutputFull with a buffer of the queried size {}", enc.name(), needed);
        // UTF-8 sink
        let mut d = enc.new_decoder_without_bom_handling();
        let mut o8 = [0u8; 64];
        d.decode_to_utf8_without_replacement(c1, &mut o8, false);
        d.decode_to_utf8_without_replacement(c2, &mut o8, false);
        let needed = d.max_utf8_buffer_length_without_replacement(next.len()).unwrap();
        let mut buf = vec![0xFFu8; needed];
        let (r, read, written) = d.decode_to_utf8_without_replacement(next, &mut buf, false);
        println!("{} utf8: needed={} -> {:?} read={} written={}", enc.name(), needed, r, read, written);
        assert_ne!(r, DecoderResult::OutputFull);
    }
}
