// F7 (C19): demonstration of the defect repaired by the "fix:" commit in /repo (copy to tests/f7_demo.rs of a checkout).
// Fails on the tree before the fix (Some(0), Some(3)), passes after it.
use encoding_rs::*;

#[test]
fn single_byte_latin1_byte_compatible_up_to_counts_trailing_ascii() {
    let d = WINDOWS_1252.new_decoder_without_bom_handling();
    // documented: "... or the length of the input if all bytes in the input decode directly to scalar values corresponding
    // to the unsigned byte values"
    assert_eq!(d.latin1_byte_compatible_up_to(b"abc"), Some(3));
    assert_eq!(d.latin1_byte_compatible_up_to(b"ab\xE9cd"), Some(5));
    // unchanged: the first incompatible byte
    assert_eq!(d.latin1_byte_compatible_up_to(b"ab\x80cd"), Some(2));
    // the multi-byte decoders always counted the ASCII run
    assert_eq!(UTF_8.new_decoder_without_bom_handling().latin1_byte_compatible_up_to(b"abc"), Some(3));
}
