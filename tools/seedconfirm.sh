#!/bin/sh
# Confirm a seeded mutant in a scratch worktree: compiles, existing suite passes, demo fails with it and passes without.
# usage: seedconfirm.sh <id> <patch.diff> <demo.rs> [features]     -> writes /tmp/seed/confirm-<id>.txt
ID=$1; PATCH=$2; DEMO=$3; FEAT=$4
WT=/tmp/seedconfirm-$ID
OUT=/tmp/seed/confirm-$ID.txt
CARGO="cargo"; FF=""
if [ -n "$FEAT" ]; then CARGO="cargo +nightly"; FF="--features $FEAT"; fi
rm -rf $WT; git -C /repo worktree prune; git -C /repo worktree add --detach $WT HEAD >/dev/null 2>&1 || exit 2
cd $WT
export CARGO_NET_OFFLINE=true
{
echo "== $ID features=[$FEAT]"
cp $DEMO tests/seed_demo.rs
echo "-- demo on original:"; $CARGO test --offline $FF --test seed_demo 2>&1 | grep -E "^test result|error(\[|:)" | head -3
git apply $PATCH && echo "-- patch applied"
echo "-- build:"; $CARGO build --offline $FF 2>&1 | tail -1
echo "-- existing suite with mutant (default features):"; mv tests/seed_demo.rs /tmp/seed_demo_$ID.rs; cargo test --offline 2>&1 | grep -E "^test result|FAILED|error(\[|:)" | head -8
mv /tmp/seed_demo_$ID.rs tests/seed_demo.rs
echo "-- demo with mutant:"; $CARGO test --offline $FF --test seed_demo 2>&1 | grep -E "^test result|error(\[|:)" | head -3
} > $OUT 2>&1
cd /; git -C /repo worktree remove --force $WT
