#!/usr/bin/env python3
"""Run every check against a behaviour-preserving change applied to /repo (and undo it): any VIOLATION is a false alarm.
usage: eqcheck.py <patch.diff> [quick|thorough]   -> prints {prop: [rules]} (empty = silent, as required)"""
import json, subprocess, sys
patch = sys.argv[1]
tier = sys.argv[2] if len(sys.argv) > 2 else 'quick'
props = [c['property_id'] for c in json.load(open('/verif/MANIFEST.json'))['checks']]
assert subprocess.run(['git', '-C', '/repo', 'status', '--porcelain', '--untracked-files=no'], capture_output=True, text=True).stdout.strip() == '', '/repo dirty'
res = {}
detail = []
try:
    subprocess.check_call(['git', '-C', '/repo', 'apply', patch])
    for p in props:
        r = subprocess.run(['/verif/check', p, '--tier', tier], capture_output=True, text=True)
        lines = [l for l in r.stdout.splitlines() if l.startswith('VIOLATION')]
        if r.returncode != 0:
            res[p] = sorted({l.split('rule=')[1].split(' ')[0] for l in lines}) or ['exit %d: %s' % (r.returncode, (r.stderr or r.stdout)[-300:])]
            detail += [l[:500] for l in lines[:3]]
finally:
    subprocess.check_call(['git', '-C', '/repo', 'checkout', '--', '.'])
for d in detail:
    print('   ', d)
print(json.dumps(res))
