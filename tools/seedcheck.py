#!/usr/bin/env python3
"""Run every claimed check against a seeded mutant applied to /repo (and undo it).  usage: seedcheck.py <patch.diff> [quick|thorough] [props,comma] -> prints {prop: n_violations}"""
import json, subprocess, sys
patch = sys.argv[1]
tier = sys.argv[2] if len(sys.argv) > 2 else 'quick'
only = sys.argv[3].split(',') if len(sys.argv) > 3 else None
props = [c['property_id'] for c in json.load(open('/verif/MANIFEST.json'))['checks']]
assert subprocess.run(['git', '-C', '/repo', 'status', '--porcelain', '--untracked-files=no'], capture_output=True, text=True).stdout.strip() == '', '/repo dirty'
res = {}
try:
    subprocess.check_call(['git', '-C', '/repo', 'apply', patch])
    for p in props:
        if only and p not in only:
            continue
        r = subprocess.run(['/verif/check', p, '--tier', tier], capture_output=True, text=True)
        lines = [l for l in r.stdout.splitlines() if l.startswith('VIOLATION')]
        if r.returncode != 0:
            res[p] = sorted({l.split('rule=')[1].split(' ')[0] for l in lines})
finally:
    subprocess.check_call(['git', '-C', '/repo', 'checkout', '--', '.'])
print(json.dumps(res))
