#!/usr/bin/env python3
"""Run every claimed check against a seeded mutant applied to /repo (and undo it).  usage: seedcheck.py <patch.diff> -> prints {prop: n_violations}"""
import json, subprocess, sys
patch = sys.argv[1]
props = [c['property_id'] for c in json.load(open('/verif/MANIFEST.json'))['checks']]
assert subprocess.run(['git', '-C', '/repo', 'status', '--porcelain', '--untracked-files=no'], capture_output=True, text=True).stdout.strip() == '', '/repo dirty'
res = {}
try:
    subprocess.check_call(['git', '-C', '/repo', 'apply', patch])
    for p in props:
        r = subprocess.run(['/verif/check', p], capture_output=True, text=True)
        lines = [l for l in r.stdout.splitlines() if l.startswith('VIOLATION')]
        if r.returncode != 0:
            res[p] = sorted({l.split('rule=')[1].split(' ')[0] for l in lines})
finally:
    subprocess.check_call(['git', '-C', '/repo', 'checkout', '--', '.'])
print(json.dumps(res))
