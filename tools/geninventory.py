#!/usr/bin/env python3
"""Regenerate rules/fn_inventory.json: the names of all function bodies of /repo (every feature configuration) that the rules
were confirmed against.  Run by hand on a clean, confirmed tree only; never at check time."""
import json, os, sys, subprocess
sys.path.insert(0, os.path.join(os.path.dirname(os.path.abspath(__file__)), '..', 'rules'))
import factsbuild
assert subprocess.run(['git', '-C', factsbuild.REPO, 'status', '--porcelain', '--untracked-files=no'], capture_output=True, text=True).stdout.strip() == '', 'tree is dirty'
paths, th = factsbuild.ensure_facts(list(factsbuild.CONFIGS))
names = {}
for c, p in paths.items():
    for n, b in json.load(open(p))['bodies'].items():
        # api: part of (or reachable through) the public interface; a private helper may be inlined away by a refactoring
        names[n] = bool(names.get(n)) or bool(b.get('exported') or b.get('reachable') or b.get('pub'))
out = os.path.join(os.path.dirname(os.path.abspath(__file__)), '..', 'rules', 'fn_inventory.json')
json.dump({n: {'api': names[n]} for n in sorted(names)}, open(out, 'w'), indent=0)
print(len(names), 'functions;', 'repo HEAD', subprocess.check_output(['git', '-C', factsbuild.REPO, 'rev-parse', '--short', 'HEAD'], text=True).strip())
