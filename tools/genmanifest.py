#!/usr/bin/env python3
"""Regenerate /verif/MANIFEST.json from the per-property modules (rules/p_cNN.py: MANIFEST dict)
and rules/not_applicable.json.  Validates against the schema when python3-vt is available."""
import importlib, json, os, sys
V = os.path.dirname(os.path.dirname(os.path.abspath(__file__)))
sys.path.insert(0, os.path.join(V, 'rules'))
props = [json.loads(l) for l in open(os.path.join(V, 'properties.jsonl'))]
na_path = os.path.join(V, 'rules', 'not_applicable.json')
na_reasons = json.load(open(na_path)) if os.path.exists(na_path) else {}
checks, na = [], []
for p in props:
    pid = p['id']
    try:
        mod = importlib.import_module('p_' + pid.lower())
        m = mod.MANIFEST
    except (ImportError, AttributeError):
        na.append({'property_id': pid, 'reason': na_reasons.get(pid, 'check not built yet (planned static clauses: DESIGN.md section 6)')})
        continue
    c = {
        'property_id': pid,
        'quick_cmd': './check %s --tier quick' % pid,
        'thorough_cmd': './check %s --tier thorough' % pid,
        'evidence_file': '/verif/evidence/%s.json' % pid,
        'replay_cmd_template': './check %s --tier thorough  # replay file {path} names rule, config and instance' % pid,
        'engine': 'mirx+rules',
        'level_claimed': {'category': m['category'], 'text': m['text'], 'design_ref': m.get('design_ref', 'DESIGN.md section 6 ' + pid)},
        'level_note': m['note'],
        'technique': m['technique'],
    }
    checks.append(c)
man = {
    'version': 1,
    'setup_cmd': 'cd /verif/mirx && cargo +nightly build --release --offline && cd /verif && ./check facts default simd',
    'hooks': {'guard': 'hsivonen_encoding_rs_verif',
              'enable': 'no hooks: the machinery only reads /repo through a rustc_private driver (RUSTC_WORKSPACE_WRAPPER under cargo +nightly check)',
              'baseline_off_cmd': 'cd /repo && cargo test --workspace --no-fail-fast --offline',
              'source_commits': [], 'add_only': True},
    'engines': [
        {'name': 'mirx', 'path': '/verif/mirx', 'serves_properties': [c['property_id'] for c in checks],
         'kind_free_text': 'rustc_private driver: dumps type-checked MIR CFGs with resolved callees, ADTs, trait impls and const-evaluated statics of /repo for each feature configuration'},
        {'name': 'rules', 'path': '/verif/rules', 'serves_properties': [c['property_id'] for c in checks],
         'kind_free_text': 'Python rule library over the fact files: dominators, operand resolution, path enumeration, range-predicate extraction, taint, table agreement'},
    ],
    'checks': checks,
    'notes': 'Static analysis only: no encoding_rs code is executed by any check. Each claimed property is decided for the structural clauses named in its level text (DESIGN.md section 6); numerical cores are explicitly not claimed.',
    'not_applicable': na,
}
json.dump(man, open(os.path.join(V, 'MANIFEST.json'), 'w'), indent=1)
print('checks:', [c['property_id'] for c in checks], 'n/a:', len(na))
