#!/bin/sh
# Run every claimed check on the (clean) tree, validate manifest + evidence against the schemas.
cd /verif || exit 2
test -z "$(git -C /repo status --porcelain --untracked-files=no)" || { echo "/repo is dirty"; exit 2; }
TIER=${1:-quick}
python3 tools/genmanifest.py | grep -v conda
rc=0
for p in $(python3 -c "import json;print(' '.join(c['property_id'] for c in json.load(open('MANIFEST.json'))['checks']))"); do
  ./check $p --tier $TIER 2>&1 | grep -v conda | grep -E "VIOLATION|KNOWN-FINDING|obligations|Traceback|Error" | cut -c1-300
  test ${PIPESTATUS:-0} -eq 0 || rc=1
done
python3-vt - <<'PY' 2>&1 | grep -v conda
import json, jsonschema, glob
m = json.load(open('/verif/MANIFEST.json'))
jsonschema.validate(m, json.load(open('/root/.vp/MANIFEST.schema.json')))
es = json.load(open('/root/.vp/EVIDENCE.schema.json'))
for c in m['checks']:
    e = json.load(open(c['evidence_file']))
    jsonschema.validate(e, es)
    lvl = c['level_claimed']['category']
    bad = []
    if e['level'] != lvl: bad.append('level %s != claimed %s' % (e['level'], lvl))
    if e['violations'] != 0: bad.append('violations=%d' % e['violations'])
    if lvl == 'proof' and e['coverage']['obligations'] != e['coverage']['discharged']: bad.append('undischarged')
    print(c['property_id'], 'evidence ok' if not bad else 'EVIDENCE PROBLEM: ' + '; '.join(bad))
print('manifest ok; not_applicable:', [x['property_id'] for x in m.get('not_applicable', [])])
PY
