#!/usr/bin/env python3
"""Dev helper: apply a one-off textual mutation (or a patch file) to /repo, run checks, revert.
usage: trymut.py <props,comma> <file> <old> <new> [count]   |   trymut.py <props> --patch <file.diff>"""
import subprocess, sys, os
props = sys.argv[1].split(',')
assert subprocess.run(['git', '-C', '/repo', 'status', '--porcelain', '--untracked-files=no'], capture_output=True, text=True).stdout.strip() == '', '/repo dirty'
try:
    if sys.argv[2] == '--patch':
        subprocess.check_call(['git', '-C', '/repo', 'apply', sys.argv[3]])
    else:
        f, old, new = sys.argv[2:5]
        p = os.path.join('/repo', f)
        s = open(p).read()
        n = s.count(old)
        if n == 0:
            print('pattern not found'); sys.exit(2)
        idx = int(sys.argv[5]) if len(sys.argv) > 5 else 0
        parts = s.split(old)
        s2 = old.join(parts[:idx + 1]) + new + old.join(parts[idx + 1:])
        open(p, 'w').write(s2)
        print('mutated occurrence %d of %d' % (idx, n))
    for pr in props:
        r = subprocess.run(['/verif/check', pr] + (['--tier', os.environ['TIER']] if os.environ.get('TIER') else []), capture_output=True, text=True)
        out = [l for l in (r.stdout + r.stderr).splitlines() if 'conda' not in l]
        print('\n'.join(l[:400] for l in out[-12:]))
        print('exit', r.returncode)
finally:
    subprocess.check_call(['git', '-C', '/repo', 'checkout', '--', '.'])
