#!/usr/bin/env python3
"""Store confirmed seeded mutants under /verif/seeded/<id>/ (patch.diff, demo.rs, meta.json).
usage: seedstore.py [--wave N] <id> [<id> ...]   — reads /tmp/seed/<id>.diff, <id>_demo.rs, <id>_meta.json, confirm-<id>.txt, runs every
check against the mutant (thorough tier when it only manifests under a cargo feature) and records which rules fire."""
import json, os, re, shutil, subprocess, sys
args = sys.argv[1:]
wave = None
if args and args[0] == '--wave':
    wave = int(args[1])
    args = args[2:]
src = '/tmp/seed'
for mid in args:
    conf = open('%s/confirm-%s.txt' % (src, mid)).read()
    sec = {}
    cur = None
    for line in conf.splitlines():
        if line.startswith('-- '):
            cur = line[3:].split(':')[0].split(' (')[0]
            sec[cur] = []
        elif cur:
            sec[cur].append(line)
    def results(name):
        return re.findall(r'^test result: (\w+)\. (\d+) passed; (\d+) failed', '\n'.join(sec.get(name, [])), re.M)
    orig, suite, mut = results('demo on original'), results('existing suite with mutant'), results('demo with mutant')
    mut_txt = '\n'.join(sec.get('demo with mutant', []))
    ok = bool(orig) and all(r[0] == 'ok' for r in orig) and all(r[0] == 'ok' for r in suite) and sum(int(r[1]) for r in suite) >= 166 \
        and (any(r[0] == 'FAILED' for r in mut) or 'error: test failed' in mut_txt or 'seed_demo::' in mut_txt) and 'patch applied' in conf
    if not ok:
        print(mid, 'NOT CONFIRMED', orig, suite, mut)
        continue
    meta = json.load(open('%s/%s_meta.json' % (src, mid)))
    feat = (meta.get('features') or '').strip()
    tier = 'thorough' if feat else 'quick'
    out = subprocess.run(['/verif/tools/seedcheck.py', '%s/%s.diff' % (src, mid), tier], capture_output=True, text=True).stdout
    caught = json.loads([l for l in out.splitlines() if l.startswith('{')][-1])
    d = '/verif/seeded/%s' % mid
    os.makedirs(d, exist_ok=True)
    shutil.copy('%s/%s.diff' % (src, mid), d + '/patch.diff')
    shutil.copy('%s/%s_demo.rs' % (src, mid), d + '/demo.rs')
    head = subprocess.run(['git', '-C', '/repo', 'rev-parse', '--short', 'HEAD'], capture_output=True, text=True).stdout.strip()
    json.dump({
        'id': mid, 'wave': wave, 'breaks_property': meta.get('property', mid.split('_')[0]), 'summary': meta.get('summary'),
        'needs_to_manifest': meta.get('needs'), 'features': feat,
        'origin': 'independent sub-agent given only the property text and a scratch worktree',
        'confirmed_by_me': {
            'how': 'tools/seedconfirm.sh in a fresh scratch worktree of /repo HEAD (%s): demo passes on the original; patch applies; cargo build ok; full existing suite '
                   'passes with the mutant; demo fails with the mutant' % head + (' (demo built with --features %s on nightly)' % feat if feat else ''),
            'demo_on_original': '%s passed, %s failed' % (orig[0][1], orig[0][2]),
            'existing_suite_with_mutant': '%d passed, 0 failed' % sum(int(r[1]) for r in suite),
            'demo_with_mutant': ('%s passed, %s failed' % (mut[-1][1], mut[-1][2])) if mut else 'test binary failed/aborted',
        },
        'check_tier_used': tier, 'checks_that_fire_first_run': caught, 'checks_that_fire': caught, 'detected': bool(caught),
        'apply': 'git -C /repo apply /verif/seeded/%s/patch.diff ; ./check <prop>%s ; git -C /repo checkout -- .' % (mid, ' --tier thorough' if feat else ''),
    }, open(d + '/meta.json', 'w'), indent=1)
    print(mid, 'stored; caught by', caught)
