#!/usr/bin/env python3
"""Store confirmed seeded mutants under /verif/seeded/<id>/ (patch.diff, demo.rs, meta.json).
usage: seedstore.py <id> [<id> ...]   — reads /tmp/seed/<id>.diff, <id>_demo.rs, <id>_meta.json, confirm-<id>.txt, runs seedcheck
(thorough tier when the mutant only manifests under a cargo feature)."""
import json, os, re, shutil, subprocess, sys
for mid in sys.argv[1:]:
    src = '/tmp/seed'
    conf = open('%s/confirm-%s.txt' % (src, mid)).read()
    sec = {}
    cur = None
    for line in conf.splitlines():
        if line.startswith('-- '):
            cur = line[3:].split(':')[0].split(' (')[0]
            sec[cur] = []
        elif cur:
            sec[cur].append(line)
    def results(name):
        return re.findall(r'^test result: (\w+)\. (\d+) passed; (\d+) failed', '\n'.join(sec.get(name, [])), re.M)
    orig = results('demo on original')
    suite = results('existing suite with mutant')
    mut = results('demo with mutant')
    ok_orig = bool(orig) and all(r[0] == 'ok' for r in orig)
    suite_ok = all(r[0] == 'ok' for r in suite) and sum(int(r[1]) for r in suite) >= 166
    mut_txt = '\n'.join(sec.get('demo with mutant', []))
    demo_fails = any(r[0] == 'FAILED' for r in mut) or ('error: test failed' in mut_txt and not mut)
    if not (ok_orig and suite_ok and demo_fails and 'patch applied' in conf):
        print(mid, 'NOT CONFIRMED', orig, suite, mut)
        continue
    meta = json.load(open('%s/%s_meta.json' % (src, mid)))
    feat = (meta.get('features') or '').strip()
    tier = 'thorough' if feat else 'quick'
    out = subprocess.run(['/verif/tools/seedcheck.py', '%s/%s.diff' % (src, mid), tier], capture_output=True, text=True).stdout
    caught = json.loads([l for l in out.splitlines() if l.startswith('{')][-1])
    d = '/verif/seeded/%s' % mid
    os.makedirs(d, exist_ok=True)
    shutil.copy('%s/%s.diff' % (src, mid), d + '/patch.diff')
    shutil.copy('%s/%s_demo.rs' % (src, mid), d + '/demo.rs')
    json.dump({
        'id': mid,
        'breaks_property': meta.get('property', mid.split('_')[0]),
        'summary': meta.get('summary'),
        'needs_to_manifest': meta.get('needs'),
        'features': feat,
        'origin': 'independent sub-agent given only the property text and a scratch worktree',
        'confirmed_by_me': {
            'how': 'tools/seedconfirm.sh in a fresh scratch worktree of /repo HEAD: demo passes on the original; patch applies; cargo build ok; '
                   'full existing suite passes with the mutant; demo fails with the mutant' + (' (demo built with --features %s on nightly)' % feat if feat else ''),
            'demo_on_original': '%s passed, %s failed' % (orig[0][1], orig[0][2]),
            'existing_suite_with_mutant': '%d passed, 0 failed' % sum(int(r[1]) for r in suite),
            'demo_with_mutant': ('%s passed, %s failed' % (mut[-1][1], mut[-1][2])) if mut else 'test binary aborted (unsafe precondition check / out-of-bounds access)',
        },
        'check_tier_used': tier,
        'checks_that_fire': caught,
        'detected': bool(caught),
        'apply': 'git -C /repo apply /verif/seeded/%s/patch.diff ; ./check <prop>%s ; git -C /repo checkout -- .' % (mid, ' --tier thorough' if feat else ''),
    }, open(d + '/meta.json', 'w'), indent=1)
    print(mid, 'stored; caught by', caught)
