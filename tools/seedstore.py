#!/usr/bin/env python3
"""Store confirmed seeded mutants under /verif/seeded/<id>/ (patch.diff, demo.rs, meta.json).
usage: seedstore.py <id> [<id> ...]   — reads /tmp/seed/<id>.diff, <id>_demo.rs, <id>_meta.json, confirm-<id>.txt, runs seedcheck."""
import json, os, re, shutil, subprocess, sys
for mid in sys.argv[1:]:
    src = '/tmp/seed'
    conf = open('%s/confirm-%s.txt' % (src, mid)).read()
    res = re.findall(r'^test result: (\w+)\. (\d+) passed; (\d+) failed', conf, re.M)
    # order: demo on original, suite with mutant (4 lines), demo with mutant
    ok_orig = res[0][0] == 'ok'
    suite_ok = all(r[0] == 'ok' for r in res[1:-1]) and sum(int(r[1]) for r in res[1:-1]) >= 166
    demo_fails = res[-1][0] == 'FAILED'
    if not (ok_orig and suite_ok and demo_fails and 'patch applied' in conf):
        print(mid, 'NOT CONFIRMED', res)
        continue
    out = subprocess.run(['/verif/tools/seedcheck.py', '%s/%s.diff' % (src, mid)], capture_output=True, text=True).stdout
    caught = json.loads([l for l in out.splitlines() if l.startswith('{')][-1])
    meta = json.load(open('%s/%s_meta.json' % (src, mid)))
    d = '/verif/seeded/%s' % mid
    os.makedirs(d, exist_ok=True)
    shutil.copy('%s/%s.diff' % (src, mid), d + '/patch.diff')
    shutil.copy('%s/%s_demo.rs' % (src, mid), d + '/demo.rs')
    json.dump({
        'id': mid,
        'breaks_property': meta.get('property', mid.split('_')[0]),
        'summary': meta.get('summary'),
        'needs_to_manifest': meta.get('needs'),
        'origin': 'independent sub-agent given only the property text and a scratch worktree',
        'confirmed_by_me': {
            'how': 'tools/seedconfirm.sh in a fresh scratch worktree of /repo HEAD: demo passes on the original; patch applies; cargo build ok; '
                   'full existing suite passes with the mutant; demo fails with the mutant',
            'demo_on_original': '%s passed, %s failed' % (res[0][1], res[0][2]),
            'existing_suite_with_mutant': '%d passed, 0 failed' % sum(int(r[1]) for r in res[1:-1]),
            'demo_with_mutant': '%s passed, %s failed' % (res[-1][1], res[-1][2]),
        },
        'checks_that_fire': caught,
        'detected': bool(caught),
        'apply': 'git -C /repo apply /verif/seeded/%s/patch.diff ; ./check <prop> ; git -C /repo checkout -- .' % mid,
    }, open(d + '/meta.json', 'w'), indent=1)
    print(mid, 'stored; caught by', caught)
