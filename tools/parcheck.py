#!/usr/bin/env python3
"""Development helper: run the checks against many patches in parallel, each in its own scratch worktree of /repo under /tmp
(VERIF_REPO / VERIF_CACHE / VERIF_EVIDENCE point the machinery at the scratch copy; /repo and /verif/evidence are not touched).

usage: parcheck.py [--tier quick|thorough|auto] [--props all|auto|C01,C02] [-j N] <patch.diff>...
  --props auto : the property named by the patch's directory / file name prefix (Cnn_...)   (seeded mutants: must be detected)
  --props all  : every property in MANIFEST.json                                            (equivalent refactorings: must be silent)
  --tier auto  : thorough when a meta.json / <id>_meta.json next to the patch names cargo features, else quick
prints one line per patch:  <id> {prop: [rules]}
"""
import json, os, re, shutil, subprocess, sys, concurrent.futures as cf

args = sys.argv[1:]
tier, props, jobs = 'quick', 'all', 6
while args and args[0].startswith('-'):
    a = args.pop(0)
    if a == '--tier': tier = args.pop(0)
    elif a == '--props': props = args.pop(0)
    elif a == '-j': jobs = int(args.pop(0))
ALL = [c['property_id'] for c in json.load(open('/verif/MANIFEST.json'))['checks']]
ROOT = '/tmp/parcheck'
os.makedirs(ROOT, exist_ok=True)


def ident(p):
    b = os.path.basename(p)
    return os.path.basename(os.path.dirname(p)) if b == 'patch.diff' else b[:-5] if b.endswith('.diff') else b


def features(p):
    for m in (os.path.join(os.path.dirname(p), 'meta.json'), p[:-5] + '_meta.json'):
        if os.path.exists(m):
            try:
                return (json.load(open(m)).get('features') or '').strip()
            except Exception:
                return ''
    return ''


def one(p):
    i = ident(p)
    wt = os.path.join(ROOT, i)
    subprocess.run(['git', '-C', '/repo', 'worktree', 'remove', '--force', wt], capture_output=True)
    shutil.rmtree(wt, ignore_errors=True)
    subprocess.run(['git', '-C', '/repo', 'worktree', 'prune'], capture_output=True)
    r = subprocess.run(['git', '-C', '/repo', 'worktree', 'add', '--detach', wt, 'HEAD'], capture_output=True, text=True)
    if r.returncode:
        return i, {'_setup': [r.stderr[-200:]]}, []
    res, detail = {}, []
    try:
        r = subprocess.run(['git', '-C', wt, 'apply', os.path.abspath(p)], capture_output=True, text=True)
        if r.returncode:
            return i, {'_apply': [r.stderr[-200:]]}, []
        env = dict(os.environ, VERIF_REPO=wt, VERIF_CACHE=wt + '.cache', VERIF_EVIDENCE=wt + '.ev')
        t = tier if tier != 'auto' else ('thorough' if features(p) else 'quick')
        ps = ALL if props == 'all' else [re.match(r'(C\d\d)', i).group(1)] if props == 'auto' else props.split(',')
        for q in ps:
            r = subprocess.run(['/verif/check', q, '--tier', t], capture_output=True, text=True, env=env)
            lines = [l for l in r.stdout.splitlines() if l.startswith('VIOLATION')]
            if r.returncode != 0:
                res[q] = sorted({l.split('rule=')[1].split(' ')[0] for l in lines if 'rule=' in l}) or ['exit %d: %s' % (r.returncode, (r.stderr or r.stdout)[-300:])]
                detail += [l[:400] for l in lines[:2]]
    finally:
        subprocess.run(['git', '-C', '/repo', 'worktree', 'remove', '--force', wt], capture_output=True)
        for d in (wt, wt + '.cache', wt + '.ev'):
            shutil.rmtree(d, ignore_errors=True)
    return i, res, detail


with cf.ThreadPoolExecutor(jobs) as ex:
    for i, res, detail in ex.map(one, args):
        print(i, json.dumps(res), flush=True)
        for d in detail:
            print('     ', d, flush=True)
subprocess.run(['git', '-C', '/repo', 'worktree', 'prune'], capture_output=True)
