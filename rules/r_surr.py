"""R-SURR — every comparison that classifies a UTF-16 code unit (or its scalar image) inside the surrogate range denotes
exactly the high surrogates D800-DBFF, the low surrogates DC00-DFFF or all surrogates D800-DFFF (exact interval extraction).

A test is judged in its context: the set of values of the tested unit that can reach the comparison at all (R-RANGE reach sets,
restarted at every definition of the unit), so that `D800 <= u && u <= DBFF`, `matches!(u, 0xD800..=0xDBFF)`, an
`else if u < 0xDC00` under an is-surrogate test and `u.wrapping_sub(0xD800) <= 0x3FF` are the same test."""
from mirlib import *
from ranges import *

HI, LO, SUR = ISet.of((0xD800, 0xDBFF)), ISet.of((0xDC00, 0xDFFF)), ISet.of((0xD800, 0xDFFF))


def leaf_entries(b, leaf):
    """blocks at which the value denoted by `leaf` is (re)defined: there it ranges over its whole domain again"""
    if leaf[0] == 'loc':
        if leaf[1] <= b.arg_count:
            return [0]
        return sorted({bi for bi, si, k, n in b.defs.get(leaf[1], [])})
    out = set()
    r = Resolver(b)
    for l in range(b.arg_count + 1, len(b.locals)):
        sd = b.single_def(l)
        if sd is None:
            continue
        if sd[2] == 'assign' and 'use' in sd[3]['rv'] and op_place(sd[3]['rv']['use']) is not None and not op_place(sd[3]['rv']['use'])['p']:
            continue          # a plain copy of another local: not where the value comes into being
        try:
            if r.local(l) == leaf:
                out.add(sd[0])
        except RecursionError:
            continue
    return sorted(out)


def contexts(f, b, preds):
    """{id(pred): ISet of leaf values that can reach the comparison}"""
    out = {}
    by_leaf = {}
    for p in preds:
        by_leaf.setdefault((p['leaf'], p['bits'], p['N']), []).append(p)
    for (leaf, bits, N), ps in by_leaf.items():
        full = ISet.of((0, N - 1))
        ents = leaf_entries(b, leaf)
        ra = None
        if ents:
            try:
                ra = RangeAnalysis(f, b, {leaf}, bits, full, entries=ents, N=N, opaque_ok=True)
            except Exception:
                ra = None
        for p in ps:
            ctx = ra.reach_of(p['bb']) if ra is not None else full
            out[id(p)] = ctx if ctx else full
    return out


def run(rep, f, c, rule, want=lambda n: True):
    n = 0
    for name, b in sorted(f.bodies.items()):
        if not want(name) or name.startswith('mem::is_') or 'bidi' in name:
            continue
        preds = [p for p in scalar_predicates(f, b) if p['bits'] in (16, 32) and p['true_set'] is not None and
                 not (p['leaf'][0] == 'call' and 'bitand' in (p['leaf'][1] or '').lower())]      # an already-masked value is not a code unit
        if not preds:
            continue
        ctxs = contexts(f, b, preds)
        for p in preds:
            N = p['N']
            ctx = ctxs[id(p)]
            cs = p['true_set'] & ctx
            comp = ctx - p['true_set']
            if not cs or not comp:
                continue          # decided by the context: not a test
            side = cs if not (cs - SUR) else (comp if not (comp - SUR) else None)
            if side is None or not side:
                continue
            n += 1
            rep.ob(rule, '%s:%r' % (name, side), side in (HI, LO, SUR),
                   'surrogate test denotes %r; must be exactly D800-DBFF, DC00-DFFF or D800-DFFF' % side, p['at'], {'set': repr(side)}, c)
    return n
