"""R-SURR — every comparison that classifies a UTF-16 code unit (or its scalar image) inside the surrogate range denotes
exactly the high surrogates D800-DBFF, the low surrogates DC00-DFFF or all surrogates D800-DFFF (exact interval extraction)."""
from mirlib import *
from ranges import *

HI, LO, SUR = ISet.of((0xD800, 0xDBFF)), ISet.of((0xDC00, 0xDFFF)), ISet.of((0xD800, 0xDFFF))


def run(rep, f, c, rule, want=lambda n: True):
    n = 0
    for name, b in sorted(f.bodies.items()):
        if not want(name) or name.startswith('mem::is_') or 'bidi' in name:
            continue
        for p in scalar_predicates(f, b):
            if p['bits'] not in (16, 32) or p['true_set'] is None:
                continue
            if p['leaf'][0] == 'call' and 'bitand' in (p['leaf'][1] or '').lower():
                continue      # the leaf is an already-masked value, not a code unit
            cs = p['true_set']
            N = p['N']
            if len(cs) in (0, N):
                continue
            comp = cs.complement(0, N - 1)
            side = cs if not (cs - SUR) else (comp if not (comp - SUR) else None)
            if side is None or not side:
                continue
            n += 1
            rep.ob(rule, '%s:%r' % (name, side), side in (HI, LO, SUR),
                   'surrogate test denotes %r; must be exactly D800-DBFF, DC00-DFFF or D800-DFFF' % side, p['at'], {'set': repr(side)}, c)
    return n
