"""R-ENTRYCOST — a necessary condition of C07 that depends on the decoder's state term (decoders, variant level).

For every path of a decoder's decode_to_*_raw body from the entry up to a space test that fails (the call returns
OutputFull) without passing a loop back edge, the analysis extracts

    P        what the path requires of the decoder's state at call entry (conditions on fields read before they are written),
    n_min    how many input bytes the path proves present (check_available -> Available, the non-ASCII byte an ASCII bulk copy
             hands over),
    demand   units stored before the failing test (each write counted with the smallest size its handle method can store)
             plus the capacity the failing test asks for.

A caller who offers a buffer of query(state, n) units with n >= n_min bytes of input and a state satisfying P is refused
on that path if query(state, n_min) < demand (the queries are monotone in n).  The query's closed form is extracted from the
MIR of the max_*_buffer_length function and its helpers (path summaries with constant folding; crate-local helpers are
inlined; branches on state fields fork) and evaluated at n_min for every alternative whose state conditions are consistent
with P; the obligation is that the best consistent alternative covers the demand.  Nothing is executed; unknown shapes are
left undecided and counted, never reported.
"""
from mirlib import *
from paths import *
from shape import variant_name

SELF = ("deref", ("loc", 1))
SINKS = {
    'utf16': {'dest': 'handles::Utf16Destination', 'query': 'max_utf16_buffer_length',
              'size': {'write_ascii': 1, 'write_bmp': 1, 'write_bmp_excl_ascii': 1, 'write_mid_bmp': 1, 'write_upper_bmp': 1,
                       'write_astral': 2, 'write_surrogate_pair': 2, 'write_big5_combination': 2, 'write_char': 1},
              'cap': {'check_space_bmp': 1, 'check_space_astral': 2, 'check_space_big5_combination': 2}},
    'utf8': {'dest': 'handles::Utf8Destination', 'query': 'max_utf8_buffer_length_without_replacement',
             'size': {'write_ascii': 1, 'write_bmp': 1, 'write_bmp_excl_ascii': 2, 'write_mid_bmp': 2, 'write_upper_bmp': 3,
                      'write_astral': 4, 'write_surrogate_pair': 4, 'write_big5_combination': 4, 'write_char': 1},
             'cap': {'check_space_bmp': 3, 'check_space_astral': 4, 'check_space_big5_combination': 4}},
}
DECODERS = ['utf_16::Utf16Decoder', 'utf_8::Utf8Decoder', 'gb18030::Gb18030Decoder', 'big5::Big5Decoder', 'euc_jp::EucJpDecoder',
            'euc_kr::EucKrDecoder', 'shift_jis::ShiftJisDecoder', 'iso_2022_jp::Iso2022JpDecoder', 'replacement::ReplacementDecoder',
            'single_byte::SingleByteDecoder', 'x_user_defined::UserDefinedDecoder']


def short(fn):
    return (fn or '').rsplit('::', 1)[-1]


def field_of(e):
    e = strip_ref(e)
    if e[0] == 'fld' and e[1] == SELF:
        return e[2]
    return None


def pred(cond, label, b=None, bb=None):
    """condition over one state field -> (field, test, truth) or None"""
    if isinstance(cond, tuple) and cond and cond[0] == 'variant':
        f = field_of(cond[1])
        if f is None:
            return None
        if label in ('Some', 'None'):
            return (f, ('some',), label == 'Some')
        if isinstance(label, str):
            return (f, ('vin', frozenset([label])), True)
        if isinstance(label, tuple) and all(isinstance(x, str) for x in label):
            return (f, ('vin', frozenset(label)), True)
        if label is None and b is not None and bb is not None:
            # the otherwise edge of a match on the field: none of the listed variants
            listed = set()
            for lab_, tgt in switch_edges(b, bb):
                v = variant_of_edge(b, bb, lab_)
                if v is not None and lab_ != 'else':
                    listed.add(v)
            if listed and 'None' not in listed and 'Some' not in listed:
                return (f, ('vin', frozenset(listed)), False)
        return None
    if not isinstance(label, bool):
        return None
    if cond[0] == 'un' and cond[1] == 'Not':
        return pred(cond[2], not label)
    f = field_of(cond)
    if f is not None:
        return (f, ('bool',), label)
    if cond[0] == 'call' and short(cond[1]) in ('is_some', 'is_none') and len(cond[2]) == 1:
        f = field_of(cond[2][0])
        if f is not None:
            return (f, ('some',), label == (short(cond[1]) == 'is_some'))
    if cond[0] == 'bin' and cond[1] in ('Eq', 'Ne') and cond[3][0] == 'c':
        f = field_of(cond[2])
        if f is not None:
            return (f, ('eq', cond[3][1]), label == (cond[1] == 'Eq'))
    # derived PartialEq on a fieldless state enum against a promoted constant: <State as PartialEq>::eq(&self.f, &CONST)
    if cond[0] == 'call' and short(cond[1]) in ('eq', 'ne') and 'PartialEq' in (cond[1] or '') and len(cond[2]) == 2 and FACTS[0] is not None:
        f = field_of(cond[2][0])
        k = strip_ref(cond[2][1])
        if k[0] == 'cptr':
            k = ('deref', k)
        if f is not None and k[0] == 'deref' and k[1][0] == 'cptr':
            adt = cond[1].split('<', 1)[1].split(' as ', 1)[0] if cond[1].startswith('<') else field_adt(FACTS[0], b, f)
            vn = const_variant(FACTS[0], adt, k[1]) if adt else None
            if vn is not None:
                return (f, ('vin', frozenset([vn])), label == (short(cond[1]) == 'eq'))
    return None


FACTS = [None]


def field_adt(facts, b, fld):
    """ADT name of the type of field `fld` of the struct `self` points to"""
    if b is None:
        return None
    ty = b.locals[1]['ty'].replace('&mut ', '').replace('&', '').strip()
    a = facts.adts.get(ty)
    if not a:
        return None
    for fd in a['variants'][0]['fields']:
        if fd['name'] == fld:
            return fd['ty']
    return None


def const_variant(facts, adt, cptr):
    """variant name of a promoted constant of a fieldless enum"""
    import json as _json
    a = facts.adts.get(adt)
    if not a or a.get('kind') != 'enum':
        return None
    try:
        ref = _json.loads(cptr[1])
    except Exception:
        return None
    if 'mem' not in ref:
        return None
    try:
        raw = facts.mem_bytes(ref['mem'])
    except Exception:
        return None
    if not raw:
        return None
    d = int.from_bytes(raw[cptr[2]:cptr[2] + 1], 'little')
    for v in a['variants']:
        if v.get('discr') == d and not v['fields']:
            return v['name']
    return None


def consistent(P, Q):
    for (f, t), v in Q.items():
        if (f, t) in P and P[(f, t)] != v:
            return False
    # variant sets and equalities on one field
    for (f, t), v in Q.items():
        for (f2, t2), v2 in P.items():
            if f2 != f or t2 == t:
                continue
            if t[0] == 'vin' and t2[0] == 'vin':
                A, Bs = t[1], t2[1]
                if v and v2 and not (A & Bs):
                    return False
                if v and not v2 and A <= Bs:
                    return False
                if v2 and not v and Bs <= A:
                    return False
            if t[0] == 'eq' and t2[0] == 'eq' and v and v2 and t[1] != t2[1]:
                return False
    return True


class Unknown(Exception):
    pass


def merge(p1, p2):
    """union of two predicate sets, None if they contradict each other"""
    if not consistent(p1, p2) or not consistent(p2, p1):
        return None
    d = dict(p1)
    d.update(p2)
    return d


class QueryEval:
    """closed form of a query: list of (state predicates, value) with value an int or None (Option::None)"""

    def __init__(self, facts):
        self.f = facts
        self.depth = 0

    def alternatives(self, fn, args):
        b = self.f.body(fn)
        if b is None:
            raise Unknown('no body for %s' % fn)
        if self.depth > 6:
            raise Unknown('inlining depth')
        self.depth += 1
        out = []
        try:
            for p in region_paths(b, 0):
                if p.end[0] != 'return':
                    continue
                for preds, env in self.path_conds(b, p, args):
                    rv = p.env.get(0)
                    if rv is None:
                        raise Unknown('no return value')
                    for pr2, val in self.ev(rv, args, b):
                        merged = merge(preds, pr2)
                        if merged is not None:
                            out.append((merged, val))
        finally:
            self.depth -= 1
        return out

    def path_conds(self, b, p, args):
        """-> [(preds, None)] or [] if the path is infeasible for these arguments"""
        alts = [dict()]
        for e in p.events:
            if e[0] != 'cond':
                continue
            cond, lab = e[1], e[2]
            pr = pred(cond, lab, b, e[3])
            if pr is not None and self.is_self(args):
                f, t, v = pr
                new = []
                for a in alts:
                    a2 = merge(a, {(f, t): v})
                    if a2 is not None:
                        new.append(a2)
                alts = new
                continue
            # concrete condition
            if isinstance(cond, tuple) and cond and cond[0] == 'variant':
                vals = self.ev(cond[1], args, b)
                new = []
                for a in alts:
                    for pr2, val in vals:
                        is_some = isinstance(val, tuple) and val and val[0] == 'Some'
                        is_none = val is None
                        if not (is_some or is_none):
                            raise Unknown('variant test on a non-Option value')
                        if (lab == 'Some') == is_some:
                            a2 = merge(a, pr2)
                            if a2 is not None:
                                new.append(a2)
                alts = new
                continue
            if isinstance(lab, bool):
                vals = self.ev(cond, args, b)
                new = []
                for a in alts:
                    for pr2, val in vals:
                        if not isinstance(val, (int, bool)):
                            raise Unknown('branch on a non-constant')
                        if bool(val) == lab:
                            a2 = merge(a, pr2)
                            if a2 is not None:
                                new.append(a2)
                alts = new
                continue
            raise Unknown('unrecognised branch %r' % (cond,))
        return [(a, None) for a in alts]

    def is_self(self, args):
        return bool(args) and args[0] == 'SELF'

    def ev(self, e, args, b):
        """-> list of (preds, value)"""
        k = e[0]
        if k == 'c':
            return [({}, e[1])]
        if k == 'loc':
            if 1 <= e[1] <= len(args):
                a = args[e[1] - 1]
                if a == 'SELF':
                    raise Unknown('self used as a value')
                return [({}, a)]
            raise Unknown('free local')
        if k in ('ref', 'deref'):
            if e == SELF or strip_ref(e) == SELF or e == ('ref', SELF):
                return [({}, 'SELF')]
            return self.ev(e[1], args, b)
        if k == 'bin':
            out = []
            for p1, a in self.ev(e[2], args, b):
                for p2, c in self.ev(e[3], args, b):
                    if not isinstance(a, int) or not isinstance(c, int):
                        raise Unknown('arithmetic on non-integers')
                    op = e[1]
                    if op == 'Add':
                        v = a + c
                    elif op == 'Sub':
                        v = a - c
                    elif op == 'Mul':
                        v = a * c
                    elif op == 'Div':
                        if c == 0:
                            raise Unknown('division by zero')
                        v = a // c
                    elif op in ('Eq', 'Ne', 'Lt', 'Le', 'Gt', 'Ge'):
                        v = {'Eq': a == c, 'Ne': a != c, 'Lt': a < c, 'Le': a <= c, 'Gt': a > c, 'Ge': a >= c}[op]
                    else:
                        raise Unknown('operator %s' % op)
                    d = merge(p1, p2)
                    if d is not None:
                        out.append((d, v))
            return out
        if k == 'cast':
            f = field_of(e[2])
            if f is not None and self.is_self(args):
                # bool field as usize
                return [({(f, ('bool',)): True}, 1), ({(f, ('bool',)): False}, 0)]
            return self.ev(e[2], args, b)
        if k == 'agg' and e[1] == 'closure' and len(e) == 4:
            # a closure value: its body and what it captures
            alts = [({}, [])]
            for o in e[2]:
                new = []
                for p0, caps in alts:
                    for p1, v in self.ev(o, args, b):
                        d = merge(p0, p1)
                        if d is not None:
                            new.append((d, caps + [v]))
                alts = new
            return [(p0, ('CLOSURE', e[3], tuple(caps))) for p0, caps in alts]
        if k == 'agg':
            vn = variant_name(e)
            if vn == 'None':
                return [({}, None)]
            if vn == 'Some':
                return [(p1, ('Some', v)) for p1, v in self.ev(e[2][0], args, b)]
            raise Unknown('aggregate %s' % e[1])
        if k == 'fld':
            if e[1][0] == 'as' and e[1][2] == 'Some' and e[2] == '0':
                out = []
                for p1, v in self.ev(e[1][1], args, b):
                    if not (isinstance(v, tuple) and v[0] == 'Some'):
                        raise Unknown('payload of a non-Some')
                    out.append((p1, v[1]))
                return out
            if e[2].isdigit():
                # a captured variable read through the closure environment
                out = []
                for p1, v in self.ev(e[1], args, b):
                    if isinstance(v, tuple) and v and v[0] == 'CLOSURE' and int(e[2]) < len(v[2]):
                        out.append((p1, v[2][int(e[2])]))
                    else:
                        raise Unknown('field read %r' % (e,))
                return out
            raise Unknown('field read %r' % (e,))
        if k == 'call':
            fn = e[1] or ''
            s = short(fn)
            if fn.startswith('core::num::') and s in ('checked_add', 'checked_mul', 'checked_div', 'checked_sub'):
                out = []
                for p1, a in self.ev(e[2][0], args, b):
                    for p2, c in self.ev(e[2][1], args, b):
                        if not isinstance(a, int) or not isinstance(c, int):
                            raise Unknown('checked arithmetic on non-integers')
                        if s == 'checked_div' and c == 0:
                            v = None
                        else:
                            r = {'checked_add': a + c, 'checked_mul': a * c, 'checked_div': a // c if c else 0, 'checked_sub': a - c}[s]
                            v = None if r < 0 or r >= (1 << 64) else ('Some', r)
                        d = merge(p1, p2)
                        if d is not None:
                            out.append((d, v))
                return out
            if fn in ('core::option::Option::<T>::and_then', 'core::option::Option::<T>::map') and len(e[2]) == 2:
                # None stays None; for Some(v) the closure decides
                out = []
                for p1, ov in self.ev(e[2][0], args, b):
                    if ov is None:
                        out.append((p1, None))
                        continue
                    if not (isinstance(ov, tuple) and ov[0] == 'Some'):
                        raise Unknown('combinator on a non-Option')
                    for p2, cl in self.ev(e[2][1], args, b):
                        if not (isinstance(cl, tuple) and cl and cl[0] == 'CLOSURE'):
                            raise Unknown('combinator without a closure literal')
                        for p3, rv_ in self.alternatives(cl[1], [cl, ov[1]]):
                            d = merge(merge(p1, p2) or {}, p3) if merge(p1, p2) is not None else None
                            if d is None:
                                continue
                            out.append((d, rv_ if s == 'and_then' else ('Some', rv_)))
                return out
            if self.f.body(fn) is not None:
                # crate-local helper: inline with evaluated arguments
                arg_alts = [[]]
                for a in e[2]:
                    new = []
                    for p1, v in self.ev(a, args, b):
                        for prev in arg_alts:
                            new.append(prev + [(p1, v)])
                    arg_alts = new
                out = []
                for combo in arg_alts:
                    preds0 = {}
                    for p1, _ in combo:
                        preds0 = merge(preds0, p1) if preds0 is not None else None
                    if preds0 is None:
                        continue
                    vals = [v for _, v in combo]
                    for p2, v in self.alternatives(fn, vals):
                        d = merge(preds0, p2)
                        if d is not None:
                            out.append((d, v))
                return out
            raise Unknown('call to %s' % fn)
        raise Unknown('expression kind %s' % k)


def entry_demands(f, b, sink, exits=None):
    """-> list of dict(P, n_min, demand, written, cap, check_bb, blocks) for entry paths that end in a failed space test"""
    S = SINKS[sink]
    out = []
    undecided = 0
    try:
        paths = enumerate_block_paths(b, 0)
    except OverflowError:
        return None, 0
    for blks, end in paths:
        if end[0] != 'return':
            continue
        p = summarize(b, blks, end)
        if any(e[0] == 'cond' and isinstance(e[1], tuple) and e[1] and e[1][0] == 'c' and isinstance(e[2], bool) and bool(e[1][1]) != e[2] for e in p.events):
            continue      # branch on a constant taken the wrong way (cfg!(debug_assertions))
        rv = p.env.get(0)
        if rv is None or rv[0] != 'agg' or not rv[2] or variant_name(rv[2][0]) not in (('OutputFull', 'Malformed') if exits is not None else ('OutputFull',)):
            continue
        is_mal = variant_name(rv[2][0]) == 'Malformed'
        stored = {}
        P = {}
        n_min = 0
        written = 0
        cap = None
        check_bb = None
        feasible = True
        weird = False
        unread = False
        exhausted = False
        pending_check = None
        for ev in p.events:
            if ev[0] == 'store':
                pl = ev[1]
                fld = field_of(pl)
                if fld is not None:
                    stored[fld] = ev[2]
                continue
            if ev[0] == 'call':
                fn = ev[1] or ''
                s = short(fn)
                if s == 'unread' and 'UnreadHandle' in fn:
                    n_min -= 1
                    unread = True
                if fn.startswith(S['dest']) and s.startswith('check_space'):
                    pending_check = (('call', fn, ev[2], ev[3]), S['cap'].get(s))
                elif fn.startswith('handles::') and s.startswith('write_') and 'Handle' in fn:
                    w = S['size'].get(s)
                    if w is None:
                        weird = True
                    else:
                        written += w
                elif fn.startswith('handles::') and s.startswith('copy_') and 'Destination' in fn:
                    pass      # bulk copy: the zero-length scenario (first unit does not qualify) writes nothing
                continue
            if ev[0] != 'cond':
                continue
            cond, lab = ev[1], ev[2]
            if isinstance(cond, tuple) and cond and cond[0] == 'variant' and cond[1][0] == 'call':
                cf = cond[1][1] or ''
                cs = short(cf)
                if cs.startswith('copy_') and lab == 'Some':
                    weird = True      # a bulk copy that itself reports an error has consumed an unknown amount
                if cs == 'check_available' and lab == 'Full':
                    exhausted = True
                if cs == 'check_available' and lab == 'Available':
                    n_min += 1
                elif cs.startswith('copy_ascii') and lab == 'GoOn':
                    n_min += 1      # the non-ASCII byte handed over by the bulk copy
                elif cs.startswith('check_space') and pending_check is not None and cond[1] == pending_check[0]:
                    if lab == 'Full':
                        cap = pending_check[1]
                        check_bb = ev[3]
                continue
            pr = pred(cond, lab, b, ev[3])
            if pr is None:
                continue
            fld, t, v = pr
            if fld in stored:
                sv = stored[fld]
                known = stored_truth(t, sv)
                if known is not None and known != v:
                    feasible = False
                    break
                continue
            if merge(P, {(fld, t): v}) is None:
                feasible = False
                break
            P[(fld, t)] = v
        if not feasible:
            continue
        if is_mal:
            if weird:
                continue
            # abstract state the call leaves behind: entry conditions overridden by the final stores
            after = {k_: v_ for k_, v_ in P.items() if k_[0] not in stored}
            known_fields = set()
            for fld, sv in stored.items():
                for t in (('bool',), ('some',)):
                    k = stored_truth(t, sv)
                    if k is not None:
                        after[(fld, t)] = k
                        known_fields.add(fld)
                if sv[0] == 'c':
                    after[(fld, ('eq-const',))] = sv[1]
                    known_fields.add(fld)
                if sv[0] == 'agg' and variant_name(sv):
                    after[(fld, ('variant-is',))] = variant_name(sv)
                    known_fields.add(fld)
            exits.append({'P': P, 'n': n_min, 'written': written, 'after': after, 'stored': stored, 'blocks': blks, 'exhausted': exhausted})
            continue
        if cap is None or weird:
            undecided += 1
            continue
        out.append({'P': P, 'n_min': n_min, 'demand': written + cap, 'written': written, 'cap': cap, 'bb': check_bb, 'blocks': blks})
    return out, undecided


def stored_truth(t, sv):
    """truth of test t for a stored value, None if not decidable from the stored expression"""
    if t == ('bool',) and sv[0] == 'c':
        return bool(sv[1])
    if t == ('some',) and sv[0] == 'agg':
        return variant_name(sv) == 'Some'
    if t[0] == 'eq' and sv[0] == 'c':
        return sv[1] == t[1]
    if t[0] == 'vin' and sv[0] == 'agg' and variant_name(sv):
        return variant_name(sv) in t[1]
    return None


def exit_states(b):
    """for every return path (from the entry and from each loop head): the last value stored into each state field"""
    out = []
    heads = set(loop_heads(b))
    for h in [0] + sorted(heads):
        try:
            paths = enumerate_block_paths(b, h, stop=heads)
        except OverflowError:
            return None
        for blks, end in paths:
            if end[0] != 'return':
                continue
            p = summarize(b, blks, end)
            st = {}
            for ev in p.events:
                if ev[0] == 'store':
                    fld = field_of(ev[1])
                    if fld is not None:
                        st[fld] = ev[2]
            if st:
                out.append(st)
    return out


def may_be_left_in(exits, state):
    """can some call, as far as its final stores tell, leave the decoder in an abstract state satisfying `state`?"""
    if exits is None:
        return True
    fields = {f for (f, t) in state}
    for st in exits:
        if not (fields & set(st)):
            continue
        ok = True
        for (f, t), v in state.items():
            if f in st:
                k = stored_truth(t, st[f])
                if k is not None and k != v:
                    ok = False
                    break
        if ok:
            return True
    return False


def _tstr(t):
    if t == ('bool',):
        return ''
    if t == ('some',):
        return '.is_some'
    if t[0] == 'vin':
        return ' in {%s}' % ','.join(sorted(t[1]))
    return '==%s' % (t[1],)


def pstr(P):
    return ', '.join('%s%s%s' % ('' if v else '!', f, _tstr(t)) for (f, t), v in sorted(P.items(), key=repr)) or 'any state'


def pstr_old(P):
    return ', '.join('%s%s%s' % ('' if v else '!', f, '' if t == ('bool',) else ('.is_some' if t == ('some',) else '==%s' % (t[1],))) for (f, t), v in sorted(P.items(), key=repr)) or 'any state'


REPL = {'utf16': ('max_utf16_buffer_length', 1), 'utf8': ('max_utf8_buffer_length', 3)}


def implied(E, P2):
    """does the state a Malformed exit leaves behind decide every entry condition of the second path, and to the required value?"""
    for (fld, t), v in P2.items():
        if fld in E['stored']:
            sv = E['stored'][fld]
            k = stored_truth(t, sv)
            if k is None or k != v:
                return False
        else:
            if (fld, t) not in E['P'] or E['P'][(fld, t)] != v:
                return False
    return True


def chains(rep, f, c, rule, D, sink, b, dem, mal, exits, nchain):
    qname, e_units = REPL[sink]
    qfn = '%s::%s' % (D, qname)
    if f.body(qfn) is None:
        return
    seen = set()
    cache = {}
    for E in mal:
        for d in dem:
            if not implied(E, d['P']):
                continue
            if E['exhausted'] and d['n_min'] > 0:
                continue      # the first call ran to the end of the stream: nothing follows
            n_tot = E['n'] + d['n_min']
            need = E['written'] + e_units + d['demand']
            key = '%s:%s:chain [%s] -%d byte(s), %d stored, error-> [%s] n>=%d demand=%d' % (D, sink, pstr(E['P']), E['n'], E['written'], pstr(d['P']), d['n_min'], d['demand'])
            if key in seen or n_tot < 0:
                continue
            seen.add(key)
            if n_tot not in cache:
                try:
                    cache[n_tot] = QueryEval(f).alternatives(qfn, ['SELF', n_tot])
                except (Unknown, OverflowError, RecursionError):
                    cache[n_tot] = None
            alts = cache[n_tot]
            if alts is None:
                continue
            vals = []
            for preds, val in alts:
                if consistent(E['P'], preds):
                    vals.append((None if val is None else val[1] if isinstance(val, tuple) else val, preds))
            if not vals or any(v is None for v, _ in vals):
                continue
            bad = None
            best = max(v for v, _ in vals)
            if best < need:
                bad = (best, dict(E['P']))
            else:
                for v, preds in vals:
                    if v < need:
                        full = dict(E['P'])
                        full.update(preds)
                        if may_be_left_in(exits, full):
                            bad = (v, full)
                            break
            nchain[0] += 1
            rep.ob(rule + '.chain', key, bad is None,
                   'with replacement: a call entered in the state [%s] with %d byte(s) stores %d unit(s) and reports a malformed sequence (the wrapper adds U+FFFD: %d), '
                   'leaving the state [%s]; continuing there needs %d more with %d further byte(s): %d in total, but %s(%d) = %s' %
                   (pstr(bad[1]) if bad else '', E['n'], E['written'], e_units, pstr(d['P']), d['demand'], d['n_min'], need, qname, n_tot, bad[0] if bad else ''),
                   sp_str(b.blocks[d['bb']]['tsp']) if d['bb'] is not None else sp_str(b.raw['span']), {'need': need, 'n': n_tot}, c)


def run(rep, f, c, rule='R-ENTRYCOST'):
    n = und = 0
    nchain = [0]
    FACTS[0] = f
    for D in DECODERS:
        for sink, S in SINKS.items():
            dfn = '%s::decode_to_%s_raw' % (D, sink)
            qfn = '%s::%s' % (D, S['query'])
            b = f.body(dfn)
            if b is None or f.body(qfn) is None:
                rep.undecidable(rule, '%s:%s' % (D, sink), 'decode body or query not found', None, c)
                continue
            mal = []
            dem, u = entry_demands(f, b, sink, exits=mal)
            exits = exit_states(b)
            if dem is None:
                und += 1
                continue
            und += u
            chains(rep, f, c, rule, D, sink, b, dem, mal, exits, nchain)
            seen = set()
            for d in dem:
                key = '%s:%s:%s:n>=%d:demand=%d' % (D, sink, pstr(d['P']), d['n_min'], d['demand'])
                if key in seen:
                    continue
                seen.add(key)
                qe = QueryEval(f)
                try:
                    alts = qe.alternatives(qfn, ['SELF', d['n_min']])
                except (Unknown, OverflowError, RecursionError):
                    und += 1
                    continue
                vals = []
                for preds, val in alts:
                    if not consistent(d['P'], preds):
                        continue
                    vals.append((None if val is None else val[1] if isinstance(val, tuple) else val, preds))
                if not vals or any(v is None for v, _ in vals):
                    und += 1
                    continue
                best = max(v for v, _ in vals)
                n += 1
                site_ = sp_str(b.blocks[d['bb']]['tsp']) if d['bb'] is not None else sp_str(b.raw['span'])
                ex_ = {'query_values': sorted({v for v, _ in vals}), 'demand': d['demand'], 'n_min': d['n_min']}
                if best < d['demand']:
                    rep.ob(rule, key, False,
                           'a call entered in a state with [%s] and >= %d byte(s) of input stores %d unit(s) and then asks for %d more, but %s(%d) is at most %d in '
                           'every such state: a buffer of the queried size is refused with OutputFull' % (pstr(d['P']), d['n_min'], d['written'], d['cap'], S['query'], d['n_min'], best),
                           site_, ex_, c)
                    continue
                # states consistent with the path for which the query is too small: reported if some call can leave the decoder in them
                bad = None
                for v, preds in vals:
                    if v < d['demand']:
                        full = dict(d['P'])
                        full.update(preds)
                        if may_be_left_in(exits, full):
                            bad = (v, full)
                            break
                rep.ob(rule, key, bad is None,
                       'a call entered in the state [%s] with >= %d byte(s) of input stores %d unit(s) and then asks for %d more, but %s(%d) = %s there, and the '
                       'final stores of a decode path can leave the decoder in that state: a buffer of the queried size is refused with OutputFull' %
                       (pstr(bad[1]) if bad else '', d['n_min'], d['written'], d['cap'], S['query'], d['n_min'], bad[0] if bad else ''), site_, ex_, c)
    rep.count('entrycost.chain.decided:%s' % c, nchain[0])
    rep.count('entrycost.decided:%s' % c, n)
    rep.count('entrycost.undecided:%s' % c, und)
    return n, und
