"""R-RESUME — the prolog that resumes a pending lead (C02-D4): it re-checks output space with the main loop's
space test before reading, clears the pending state exactly when the pending bytes are consumed or reported,
and leaves it untouched when the call ends early."""
from mirlib import *
from paths import *
from shape import *

PENDING = {
    'big5::Big5Decoder': 'lead', 'euc_kr::EucKrDecoder': 'lead', 'shift_jis::ShiftJisDecoder': 'lead',
    'euc_jp::EucJpDecoder': 'pending', 'gb18030::Gb18030Decoder': 'pending',
}
SELF = ('loc', 1)


def run(rep, f, c, rule):
    n = 0
    for ty, fld in sorted(PENDING.items()):
        for sink in ('decode_to_utf8_raw', 'decode_to_utf16_raw'):
            fn = '%s::%s' % (ty, sink)
            b = f.body(fn)
            if b is None:
                rep.undecidable(rule, fn, 'function not found', None, c)
                continue
            site = sp_str(b.raw['span'])
            P = ('fld', ('deref', SELF), fld)
            main = [(bi, b.callee(t)) for bi, t in b.calls() if 'copy_ascii_from_check_space_' in (b.callee(t) or '')]
            if len(main) != 1:
                rep.undecidable(rule, fn, 'main-loop ASCII copy not found', site, c)
                continue
            want_check = 'check_space_' + main[0][1].rsplit('copy_ascii_from_check_space_', 1)[1]
            try:
                ps = [summarize(b, blks, end) for blks, end in enumerate_block_paths(b, 0, stop=[main[0][0]], limit=60000)]
            except OverflowError as e:
                rep.undecidable(rule, fn, str(e), site, c)
                continue
            ok = True
            why = []
            cases = set()
            for p in ps:
                if p.end[0] == 'diverge':
                    continue
                reads = [e for e in p.events if e[0] == 'call' and (e[1] or '').endswith('ByteReadHandle::read')]
                pstores = [e for e in p.stores() if e[1] == P or (e[1][0] == 'discr' and e[1][1] == P)]
                cleared = [e for e in pstores if variant_name(e[2]) == 'None' or e[2] == ('variant', 'None')]
                rv = p.env.get(0) if p.end[0] == 'return' else None
                status = variant_name(rv[2][0]) if rv is not None and rv[0] == 'agg' and rv[1] == 'tuple' else None
                if reads:
                    cases.add('read')
                    # space test of the main loop's kind passes before the first read
                    first_read = p.events.index(reads[0])
                    cs = [e for e in p.events[:first_read] if e[0] == 'call' and 'Destination::check_space_' in (e[1] or '')]
                    if not cs or not cs[-1][1].endswith(want_check):
                        ok = False
                        why.append('a resumed byte is read without first passing %s (the main loop\'s space test)' % want_check)
                    if not cleared:
                        ok = False
                        why.append('the pending state is consumed (next byte read) but never cleared: it would be processed again')
                elif p.end[0] == 'return' and status in ('InputEmpty', 'OutputFull'):
                    cases.add(status)
                    if pstores:
                        ok = False
                        why.append('the pending state is modified although the call returns %s without reading' % status)
                elif p.end[0] == 'return' and status == 'Malformed':
                    cases.add('eof')
                    lastc = [e for e in p.conds() if e[1] == ('loc', 4) and e[2] is True]
                    if not cleared or not lastc:
                        ok = False
                        why.append('end of stream with pending bytes must clear the state and report them (only when `last`)')
                elif p.end[0] == 'stop':
                    cases.add('idle')
                    if pstores:
                        ok = False
                        why.append('pending state changed on the path that has nothing pending')
            need = {'read', 'InputEmpty', 'OutputFull', 'eof', 'idle'}
            rep.ob(rule, '%s.%s' % (fn, fld), ok and cases >= need, '; '.join(sorted(set(why))) or 'missing cases %r' % sorted(need - cases), site,
                   {'paths': len(ps), 'cases': sorted(cases), 'space_test': want_check}, c)
            n += 1
    rep.floor(rule, 'resume prologs', n, 10, c)
