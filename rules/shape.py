"""Small structural matchers over resolved expressions."""
from mirlib import *


def C(v, ty='usize'):
    return ('c', v, ty)


def is_c(e, v=None):
    return e[0] == 'c' and (v is None or e[1] == v)


def is_add(e, a=None, b=None):
    if e[0] != 'bin' or e[1] != 'Add':
        return False
    if a is None:
        return True
    return (e[2] == a and e[3] == b) or (e[2] == b and e[3] == a)


def add_terms(e):
    """Flatten nested Add into (non-constant terms tuple, constant sum)."""
    terms, k = [], 0
    stack = [e]
    while stack:
        x = stack.pop()
        if x[0] == 'bin' and x[1] == 'Add':
            stack.append(x[2])
            stack.append(x[3])
        elif x[0] == 'c':
            k += x[1]
        else:
            terms.append(x)
    return tuple(sorted(terms, key=repr)), k


def is_call(e, fn=None, suffix=None):
    if e[0] != 'call':
        return False
    if fn is not None and e[1] != fn:
        return False
    if suffix is not None and not (e[1] or '').endswith(suffix):
        return False
    return True


def tuple_field(e, i):
    """Component i of a call result / tuple expression."""
    if e[0] == 'agg' and e[1] == 'tuple':
        return e[2][i]
    return ('fld', e, str(i))


def index_from(e):
    """e = &x[a..] -> (x, a); &x[a..b] -> (x, a, b); else None."""
    e = strip_ref(e)
    if e[0] == 'call' and e[1] and 'index' in e[1].rsplit('::', 1)[-1] and len(e[2]) == 2:
        base = strip_ref(e[2][0])
        rng = e[2][1]
        if rng[0] == 'agg' and rng[1].endswith('RangeFrom::RangeFrom'):
            return (base, rng[2][0])
        if rng[0] == 'agg' and rng[1].endswith('Range::Range'):
            return (base, rng[2][0], rng[2][1])
        if rng[0] == 'agg' and rng[1].endswith('RangeTo::RangeTo'):
            return (base, ('c', 0, 'usize'), rng[2][0])
    return None


def variant_name(e):
    if e[0] == 'agg' and '::' in e[1]:
        return e[1].rsplit('::', 1)[-1]
    return None


def cast_inner(e):
    while e[0] == 'cast':
        e = e[2]
    return e


def slice_nf(e, data):
    """a sub-slice of `data` in normal form (lo, hi) with hi = None for "to the end": &data[lo..], &data[..hi], &data[lo..hi],
    data.split_at(k).0 / .1, data itself; None if e is something else"""
    e = strip_ref(e)
    while e[0] in ('deref', 'ref') or (e[0] == 'call' and (e[1] or '') == 'core::str::<impl str>::as_bytes' and len(e[2]) == 1):
        # the bytes of a str are the str (positions and lengths are the same)
        e = strip_ref(e[1] if e[0] != 'call' else e[2][0])
    if e == data:
        return (C(0), None)
    ix = index_from(e)
    if ix is not None:
        sub = slice_nf(ix[0], data)
        if sub == (C(0), None):
            return (ix[1], ix[2] if len(ix) == 3 else None)
        return None
    if e[0] == 'fld' and e[2] in ('0', '1') and e[1][0] == 'call' and (e[1][1] or '').endswith('::split_at') and len(e[1][2]) == 2 and \
            slice_nf(e[1][2][0], data) == (C(0), None):
        k = e[1][2][1]
        return (C(0), k) if e[2] == '0' else (k, None)
    return None
