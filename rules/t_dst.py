"""T-DST — destination capacity influences results only through OutputFull (DESIGN.md §5).

Taint source: the length of any `&mut [u8]` / `&mut [u16]` slice (the destination, its sub-slices, the
`slice` field of a *Destination).  Rule: every branch on a tainted condition has a successor that is a
*pure space exit* — straight to a return whose status is InputEmpty/OutputFull (literally, or the
min-select `pending` local), without touching source or destination on the way.  A tainted branch
with no such successor lets the output chunking change what is reported."""
from mirlib import *
from taint import operand_locals, rvalue_locals

PURE_CALLS = ('::written', '::consumed', '::len', '::is_empty')

# Reviewed exceptions (DESIGN.md Appendix D), keyed by function + condition text (no line numbers)
EXCEPTIONS = {}


def is_mut_slice_ty(ty):
    ty = ty.replace("'_ ", '').replace("'a ", '').replace("'b ", '')
    return ty.startswith('&mut [u8]') or ty.startswith('&mut [u16]') or ty in ('&mut str',)


def len_sources(body):
    """Locals defined as the length of a mutable slice."""
    out = set()
    r = Resolver(body)
    for bi, blk in enumerate(body.blocks):
        for st in blk['s']:
            if 'assign' in st and not st['assign']['p'] and st['rv'].get('un') == 'PtrMetadata':
                pl = op_place(st['rv']['x'])
                if pl and root_is_mut_slice(body, r, pl):
                    out.add(st['assign']['l'])
        t = blk['t']
        if 'call' in t and (t['call'].get('fn') in LEN_FNS or t['call'].get('fn') in IS_EMPTY_FNS) and not t['dest']['p']:
            pl = op_place(t['args'][0])
            if pl and root_is_mut_slice(body, r, pl):
                out.add(t['dest']['l'])
    return out


def root_is_mut_slice(body, r, pl):
    """Does this place (a reference being measured) denote a mutable slice?  Follow reborrows."""
    seen = set()
    l = pl['l']
    while True:
        ty = body.locals[l]['ty']
        if is_mut_slice_ty(ty):
            return True
        if l in seen:
            return False
        seen.add(l)
        sd = body.single_def(l)
        if sd is None or sd[2] != 'assign':
            return False
        rv = sd[3]['rv']
        src = None
        if 'ref' in rv or 'rawptr' in rv:
            src = rv['place']
        elif 'use' in rv:
            src = op_place(rv['use'])
        elif 'cast' in rv:
            src = op_place(rv['x'])
        if src is None:
            return False
        # field of a destination struct: (*self).slice
        flds = [e for e in src['p'] if isinstance(e, dict) and 'field' in e]
        if flds:
            adt = body.locals[src['l']].get('adt')
            if adt and adt in body.facts.adts:
                for v in body.facts.adts[adt]['variants']:
                    for f in v['fields']:
                        if f['name'] == flds[0]['field'] and is_mut_slice_ty(f['ty']):
                            return True
            return False
        l = src['l']


def tainted_locals(body, sources):
    T = set(sources)
    changed = True
    while changed:
        changed = False
        for blk in body.blocks:
            for st in blk['s']:
                if 'assign' in st and not (st['assign']['p'] and st['assign']['p'][0] == 'deref'):
                    if any(l in T for l in rvalue_locals(st['rv'])):
                        l = st['assign']['l']
                        if l not in T:
                            T.add(l)
                            changed = True
    return T


def status_kind(body, local, depth=0):
    """Set of variant names a status local can hold, following copies; None if unknown."""
    out = set()
    if depth > 6:
        return None
    for bi, si, k, node in body.defs.get(local, []):
        if k == 'call':
            return None
        if k == 'partial':
            continue
        rv = node['rv']
        if 'aggregate' in rv and isinstance(rv['aggregate'], dict) and 'variant' in rv['aggregate']:
            out.add(rv['aggregate']['variant'])
        elif 'use' in rv:
            pl = op_place(rv['use'])
            if pl is None:
                return None
            if pl['p']:
                # field of a tuple local, e.g. _18.0 where _18 = (pending, length)
                sub = tuple_field_kinds(body, pl, depth + 1)
                if sub is None:
                    return None
                out |= sub
            else:
                sub = status_kind(body, pl['l'], depth + 1)
                if sub is None:
                    return None
                out |= sub
        else:
            return None
    return out


def tuple_field_kinds(body, pl, depth):
    if len(pl['p']) != 1 or not isinstance(pl['p'][0], dict) or 'field' not in pl['p'][0]:
        return None
    idx = pl['p'][0]['idx']
    out = set()
    for bi, si, k, node in body.defs.get(pl['l'], []):
        if k != 'assign':
            return None
        rv = node['rv']
        if 'aggregate' in rv and rv['aggregate'] == 'tuple':
            o = rv['ops'][idx]
            p2 = op_place(o)
            if p2 is None or p2['p']:
                return None
            sub = status_kind(body, p2['l'], depth + 1)
            if sub is None:
                return None
            out |= sub
        else:
            return None
    return out


def return_status_locals(body, bb, ret=0):
    """For a block assigning the return value `_0 = (status, a, b)` (possibly wrapped in CopyAsciiResult::Stop),
    the local holding the status."""
    for st in body.blocks[bb]['s']:
        if 'assign' in st and st['assign']['l'] == ret and not st['assign']['p'] and 'aggregate' in st['rv']:
            ops = st['rv']['ops']
            if st['rv']['aggregate'] == 'tuple' and ops:
                pl = op_place(ops[0])
                return pl['l'] if pl and not pl['p'] else None
            if isinstance(st['rv']['aggregate'], dict) and st['rv']['aggregate'].get('variant') == 'Stop':
                pl = op_place(ops[0])
                if pl and not pl['p']:
                    # the tuple local
                    sd = body.single_def(pl['l'])
                    if sd and sd[2] == 'assign' and sd[3]['rv'].get('aggregate') == 'tuple':
                        p2 = op_place(sd[3]['rv']['ops'][0])
                        return p2['l'] if p2 and not p2['p'] else None
    return None


def pure_space_exit(body, S):
    """Every path from S reaches a return with a space status, with no side effects on the way."""
    seen = set()
    stack = [S]
    found_return = False
    while stack:
        x = stack.pop()
        if x in seen:
            continue
        seen.add(x)
        if len(seen) > 12:
            return False
        blk = body.blocks[x]
        for st in blk['s']:
            if 'assign' in st and st['assign']['p'] and st['assign']['p'][0] == 'deref':
                return False           # store through a pointer
        t = blk['t']
        if 'call' in t:
            fn = t['call'].get('fn') or ''
            if not fn.endswith(PURE_CALLS):
                return False
        if 'switch' in t:
            return False
        if 'return' in t:
            found_return = True
            continue
        for s in body.succ[x]:
            stack.append(s)
    if not found_return:
        return False
    # the status stored into _0 on this path
    for x in seen:
        sl = return_status_locals(body, x)
        if sl is not None:
            kinds = status_kind(body, sl)
            return kinds is not None and kinds <= {'InputEmpty', 'OutputFull'}
    # `_0 = move t` where t is built on the same straight-line exit (a spliced helper returns through its own result local)
    for x in seen:
        for st in body.blocks[x]['s']:
            if 'assign' in st and st['assign']['l'] == 0 and not st['assign']['p'] and 'use' in st['rv']:
                pl = op_place(st['rv']['use'])
                if pl is None or pl['p']:
                    continue
                for y in seen:
                    sl = return_status_locals(body, y, pl['l'])
                    if sl is not None:
                        kinds = status_kind(body, sl)
                        return kinds is not None and kinds <= {'InputEmpty', 'OutputFull'}
    return False


def in_scope(body):
    r = body.raw.get('ret', '')
    return ('DecoderResult' in r or 'EncoderResult' in r) and body.kind in ('fn', 'assoc_fn')


def event_blocks(body):
    """Blocks constructing an event result: Malformed / Unmappable aggregates, or calls of helper constructors of them."""
    out = []
    for bi, blk in enumerate(body.blocks):
        for st in blk['s']:
            if 'assign' in st and 'aggregate' in st['rv'] and isinstance(st['rv']['aggregate'], dict) and \
                    st['rv']['aggregate'].get('variant') in ('Malformed', 'Unmappable') and st['rv']['aggregate'].get('adt') in ('DecoderResult', 'EncoderResult'):
                out.append((bi, st['rv']['aggregate']['variant'], sp_str(st['sp'])))
        t = blk['t']
        if 'call' in t and (t['call'].get('fn') or '').startswith('EncoderResult::unmappable_from'):
            out.append((bi, 'Unmappable', sp_str(blk['tsp'])))
    return out


def run(rep, f, c, rule, want):
    """No event result (Malformed / Unmappable) is directly control-dependent on a capacity-tainted branch."""
    nb = nev = 0
    for name, b in sorted(f.bodies.items()):
        if not in_scope(b) or not want(name):
            continue
        evs = event_blocks(b)
        if not evs:
            continue
        nb += 1
        src = len_sources(b)
        T = tainted_locals(b, src) if src else set()
        cd = control_dependence(b) if T else {}
        r = Resolver(b)
        for bi, kind, at in evs:
            nev += 1
            bad = []
            for (S, A) in cd.get(bi, ()):
                t = b.blocks[S]['t']
                if 'switch' not in t:
                    continue
                pl = op_place(t['switch'])
                if pl is not None and pl['l'] in T:
                    others = [x for x in b.succ[S] if x != A]
                    if others and all(pure_space_exit(b, x) for x in others):
                        continue     # a space test guarding the event: the failing side reports OutputFull and nothing else
                    bad.append((S, expr_str(r.operand(t['switch']), b)[:140], sp_str(b.blocks[S]['tsp'])))
            key = '%s:%s@%s' % (name, kind, bad[0][1] if bad else 'ok')
            if bad and key in EXCEPTIONS:
                rep.ob(rule + '.exception', key, True, '', at, {'reason': EXCEPTIONS[key]}, c)
                continue
            rep.ob(rule, key if bad else '%s:%s' % (name, kind), not bad,
                   'this %s result is control-dependent on a branch over the destination capacity (%s at %s): '
                   'how the output is chunked changes what is reported' % (kind, bad[0][1] if bad else '', bad[0][2] if bad else ''), at,
                   {'tainted_locals': len(T)}, c)
    return nb, nev
