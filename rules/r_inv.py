"""R-INV — inductive state invariants of the form  field_A == a  ==>  field_C1 == c1 and ...  checked over every path of a
converter body (function entry or loop head to back edge / return), assuming the invariant at the start of the path
(induction over loop iterations and over calls).  Catches dropped state resets."""
from mirlib import *
from paths import *
from shape import *

SELF = ('loc', 1)

# decoder type -> (antecedent field, value, {consequent field: value}); confirmed by reading, relied upon by C07/C19 exceptions
INVARIANTS = {
    'utf_8::Utf8Decoder': ('bytes_needed', 0, {'lower_boundary': 0x80, 'upper_boundary': 0xBF, 'bytes_seen': 0, 'code_point': 0}),
}


def fld(name):
    return ('fld', ('deref', SELF), name)


def final_value(p, name):
    v = None
    for e in p.stores():
        if e[1] == fld(name):
            v = e[2]
    return v      # None = unchanged on this path


def initial_knowledge(p, name):
    """(value, True) if the path establishes init field == value, (value, False) if != value, else None — from conditions that
    test the field before it is first stored."""
    first_store = None
    for i, e in enumerate(p.events):
        if e[0] == 'store' and e[1] == fld(name):
            first_store = i
            break
    out = []
    for i, e in enumerate(p.events):
        if first_store is not None and i > first_store:
            break
        if e[0] != 'cond':
            continue
        ce = e[1]
        if ce[0] == 'bin' and ce[1] in ('Eq', 'Ne') and ce[2] == fld(name) and ce[3][0] == 'c':
            truth = e[2] if ce[1] == 'Eq' else (not e[2])
            out.append((ce[3][1], bool(truth)))
        elif ce == fld(name) and isinstance(e[2], int) and not isinstance(e[2], bool):
            out.append((e[2], True))
        elif ce == fld(name) and e[2] == 'else':
            pass
    return out


def check_path(p, A, a, cons):
    fa = final_value(p, A)
    know = initial_knowledge(p, A)
    init_true = any(v == a and t for v, t in know)
    init_false = any((v == a and not t) or (v != a and t) for v, t in know)
    if fa is not None:
        if fa[0] != 'c':
            return 'antecedent field %s is set to a non-constant' % A
        ant_final = (fa[1] == a)
        if not ant_final:
            return None
    else:
        if init_false:
            return None
        ant_final = True if init_true else None
    for C_, c_ in cons.items():
        fc = final_value(p, C_)
        if fc is not None:
            if not (fc[0] == 'c' and fc[1] == c_):
                return '%s ends as %s while %s == %s' % (C_, expr_str(fc)[:40], A, a)
        else:
            # unchanged: fine iff the invariant's antecedent already held at the start of the path
            if fa is None:
                continue          # A unchanged too: holds by the induction hypothesis
            if not init_true:
                return '%s is set to %s on this path but %s is left unchanged (it is only known to be %s when %s was already %s)' % (A, a, C_, hex(c_), A, a)
    return None


def run(rep, f, c, rule):
    n = 0
    for ty, (A, a, cons) in sorted(INVARIANTS.items()):
        for name, b in sorted(f.bodies.items()):
            if b.raw.get('impl_self') != ty or b.kind not in ('fn', 'assoc_fn'):
                continue
            if b.arg_count < 1 or not b.locals[1]['ty'].startswith('&mut '):
                continue
            site = sp_str(b.raw['span'])
            heads = loop_heads(b)
            try:
                ps = [summarize(b, blks, end) for blks, end in enumerate_block_paths(b, 0, stop=heads, limit=60000)]
                for H in heads:
                    ps += [summarize(b, blks, end) for blks, end in enumerate_block_paths(b, H, stop=[h for h in heads if h != H], limit=60000)]
            except OverflowError as e:
                rep.undecidable(rule, name, str(e), site, c)
                continue
            bad = None
            for p in ps:
                if p.end[0] == 'diverge':
                    continue
                # end-of-stream paths (source exhausted and `last`) are terminal: the only legal continuation is an empty final call
                if any(e[1] == ('loc', 4) and e[2] is True for e in p.conds()) and p.end[0] == 'return':
                    continue
                msg = check_path(p, A, a, cons)
                if msg:
                    bad = (msg, sp_str(b.blocks[p.blocks[-1]]['tsp']))
                    break
            n += 1
            rep.ob(rule, '%s:%s==%s' % (name, A, a), bad is None,
                   'state invariant %s == %s ==> %s is not preserved: %s' % (A, a, {k: hex(v) for k, v in cons.items()}, bad[0] if bad else ''),
                   bad[1] if bad else site, {'paths': len(ps)}, c)
    rep.floor(rule, 'bodies checked against state invariants', n, 2, c)


def escape_reset(rep, f, c, rule):
    """ISO-2022-JP: `lead` holds the escape intermediate ($ or () while the decoder is in the Escape state.  Leaving that state by
    RECOGNISING the sequence (the new decoder state is not the saved output_state, which is the not-recognised exit that keeps the
    byte for re-processing) must clear it on every path to the exit of the iteration, early returns included: in_neutral_state()
    and the buffer-length queries read `lead` (C07, C19).  Instance confirmed by reading; frozen here with its reason."""
    n = 0
    for name, b in sorted(f.bodies.items()):
        if b.raw.get('impl_self') != 'iso_2022_jp::Iso2022JpDecoder' or not name.endswith(('::decode_to_utf8_raw', '::decode_to_utf16_raw')):
            continue
        site = sp_str(b.raw['span'])
        heads = loop_heads(b)
        try:
            ps = []
            for H in heads:
                ps += [summarize(b, blks, end) for blks, end in enumerate_block_paths(b, H, stop=[h for h in heads if h != H], limit=60000)]
        except OverflowError as e:
            rep.undecidable(rule, name, str(e), site, c)
            continue
        bad = None
        k = 0
        for p in ps:
            if p.end[0] == 'diverge':
                continue
            in_escape = any(e[1][0] == 'variant' and e[1][1] == fld('decoder_state') and e[2] == 'Escape' for e in p.conds())
            if not in_escape:
                continue
            S = final_value(p, 'decoder_state')
            if S is None or S == fld('output_state') or (S[0] == 'agg' and variant_name(S) in ('Escape', 'EscapeStart')):
                continue
            k += 1
            fl = final_value(p, 'lead')
            if not (fl is not None and fl[0] == 'c' and fl[1] == 0):
                bad = ('the escape sequence is recognised (decoder_state := %s) but lead %s on the path ending here' %
                       (expr_str(S, b)[:40], 'is left holding the intermediate byte' if fl is None else 'ends as ' + expr_str(fl, b)[:30]),
                       sp_str(b.blocks[p.blocks[-1]]['tsp']))
                break
        n += k
        rep.ob(rule + '.escape-reset', name, bad is None and k >= 1,
               'ISO-2022-JP: %s' % (bad[0] if bad else 'no path leaving the Escape state by recognition was found'), bad[1] if bad else site, {'paths': k}, c)
    return n


def pending_bmp(rep, f, c, rule):
    """UTF-16 decoder: `pending_bmp == true` means that lead_surrogate holds a BMP unit that the next call writes out verbatim
    (write_bmp, no test).  So on every path that sets the flag, the unit stored into lead_surrogate on that path must have been
    shown, by the conditions of that path, not to be a surrogate (C05: no surrogate ever reaches a writer).  The set of units the
    path admits is computed exactly from its conditions on the stored value (R-RANGE)."""
    import scan
    from ranges import ISet, _mk, leaves
    X = ('loc', 999999)
    SUR = ISet.of((0xD800, 0xDFFF))

    def subst(e, v):
        if e == v:
            return X
        return tuple(subst(x, v) if isinstance(x, tuple) else x for x in e) if isinstance(e, tuple) else e
    n = 0
    for name, b in sorted(f.bodies.items()):
        if b.raw.get('impl_self') != 'utf_16::Utf16Decoder' or not name.endswith(('::decode_to_utf8_raw', '::decode_to_utf16_raw')):
            continue
        site = sp_str(b.raw['span'])
        heads = loop_heads(b)
        try:
            ps = [summarize(b, blks, end) for blks, end in enumerate_block_paths(b, 0, stop=heads, limit=60000)]
            for H in heads:
                ps += [summarize(b, blks, end) for blks, end in enumerate_block_paths(b, H, stop=[h for h in heads if h != H], limit=60000)]
        except OverflowError as e:
            rep.undecidable(rule, name, str(e), site, c)
            continue
        bad = None
        k = 0
        res = Resolver(b)
        for p in ps:
            if p.end[0] == 'diverge':
                continue
            fp = final_value(p, 'pending_bmp')
            if fp is None or not (fp[0] == 'c' and fp[1] == 1):
                continue
            k += 1
            V = final_value(p, 'lead_surrogate')
            at = sp_str(b.blocks[p.blocks[-1]]['tsp'])
            if V is None:
                bad = ('pending_bmp is set although lead_surrogate is not assigned on this path', at)
                break
            dom = ISet.of((0, 0xFFFF))
            for ev in p.events:
                if ev[0] != 'cond' or not isinstance(ev[2], bool):
                    continue
                e = subst(scan.unwrap_ident(ev[1]), V)
                if not isinstance(e, tuple) or not e or e[0] == 'c':
                    continue
                ls = set(leaves(e))
                if ls != {X}:
                    continue
                ts, fs, us = _mk(f, b, res, X, 16, 0x10000).ev(e).truth_set()
                if us:
                    continue
                dom = dom & (ts if ev[2] else fs)
            if dom & SUR:
                bad = ('pending_bmp is set with lead_surrogate := %s, which the conditions of this path allow to be a surrogate %r; the next call would write it out as a BMP character'
                       % (expr_str(V, b)[:50], dom & SUR), at)
                break
        n += k
        rep.ob(rule + '.pending-bmp', name, bad is None and k >= 1, 'UTF-16 decoder: %s' % (bad[0] if bad else 'no path setting pending_bmp found'),
               bad[1] if bad else site, {'paths': k}, c)
    return n
