"""C15 — mem conversions: partial-output contracts and pairing structure (structural clauses D1–D3)."""
import os, re
from mirlib import *
import r_effect, t_writeonly, r_surr, r_lookahead, factsbuild, scan, r_kernel, r_utf8store, r_dim, r_utf8asm

MANIFEST = {
    'category': 'other',
    'text': 'Decided per build configuration (default and simd-accel): (D1) the documented guarantee "bytes in the destination beyond the '
            'number of bytes written are left unmodified" — the functions carrying it are found from the doc comments of src/mem.rs — holds '
            'iff the function cannot reach a stride kernel that stores a whole stride before validating it (R-EFFECT: whole-array store on a '
            'path to Some(position), propagated over the call graph). default: holds. simd-accel: mem::convert_utf16_to_utf8_partial can '
            'reach such kernels, contradicting its documentation — a genuine defect recorded as a known finding (F5b); (D2) no mem/utf_8/ascii '
            'body ever loads an element of its destination (T-WRITEONLY), so results cannot depend on old buffer contents; (D3) pairing '
            'structure of the UTF-16 -> UTF-8 converters: every surrogate-class test denotes exactly D800-DBFF / DC00-DFFF / D800-DFFF, and '
            'after a high surrogate the "no next unit" decision tests exactly the index that is then read from the *source* (never the '
            'destination), so a pair is neither split nor misjudged as unpaired because of buffer ends; (D4, R-SCAN) the two scalar automata '
            'the conversions are built on — utf16_valid_up_to (ensure_utf16_validity, the without-replacement forms) and '
            'convert_utf8_to_utf16_up_to_invalid (every UTF-8 -> UTF-16 form) — skip only complete valid sequences, report the end only when '
            'reached, and stop only where no valid continuation exists or the output is full (path-sensitive abstract interpretation, see '
            'C14-D5); (D5, R-KERNEL/R-STRIDE) the bulk kernels behind copy_ascii_to_ascii / copy_ascii_to_basic_latin / copy_basic_latin_to_ascii '
            '(stop at the first non-ASCII unit) and convert_latin1_to_utf16 / convert_utf16_to_latin1_lossy (unpack_latin1 / pack_latin1): every '
            'part of the as_chunks/split_first tree is walked in buffer order before the all-clear, zipped source and destination parts are the '
            'same part of slices cut to the same min length, each iteration hands every sub-stride of the current element to the stride '
            'function with its own twin (or stores the current unit), the position counter advances by exactly the element width and offending '
            'units are reported at counter + in-stride position; stride functions answer None only when passed tests cover the whole stride. '
            'Exactness of the converted values (arithmetic, SIMD lane operations) is not decided here. ' 
            '(R-UTF8STORE) the hand-inlined UTF-8 writers (convert_utf16_to_utf8_partial_inner/_tail behind every UTF-16 -> UTF-8 conversion and the UTF-8 encoder, convert_latin1_to_utf8_partial, convert_unaligned_utf16_to_utf8 of the UTF-16 decoder, and the three multi-byte writers of Utf8Destination) store, for every scalar of the domain the path conditions leave (80-7FF, 800-FFFF, the supplementary planes through the shape-checked surrogate-pair formula), exactly the bytes of its UTF-8 encoding: each stored byte is evaluated as an exact piecewise function of the input and compared piece by piece over the whole domain; constant runs are one complete sequence (EF BF BD). ' 
            '(R-DIM) dimension inference over the index arithmetic of the 40-odd slice-to-slice converter bodies (mem, utf_8, ascii, single_byte, x_user_defined, the unaligned UTF-16 helpers): every usize quantity is a source position/length, a destination position/length, a count valid in both or a constant (least fixpoint over the loop-carried locals, seeded by which buffer a local indexes); no sum or difference mixes a source and a destination quantity, each buffer is indexed and re-sliced only with its own quantities, a (read, written) result returns a source quantity first and a destination quantity second, and a single local indexes both buffers only in the three 1:1 conversions (frozen with reasons). A path that advances a source position and returns has stored something or advanced the destination position (R-DIM.consume); inside a loop that walks a buffer with a loop-carried position every index into that buffer depends arithmetically on such a position, not on a count alone (R-DIM.relative, 266 index sites in handles/mem/utf_8/single_byte/ascii). (R-UTF8ASM) every place that assembles a value from the bytes of a UTF-8 sequence (OR/ADD of shifted byte terms) has the shifts 6(n-1)..0, a lead term equal to byte-C0/E0/F0 on the n-byte leads and continuation terms equal to byte-80 on 80-BF, compared as exact functions over the byte domains, loaded from consecutive positions where the loads resolve (here: mem::convert_str_to_utf16, convert_utf8_to_latin1_lossy, utf_8::convert_utf8_to_utf16_up_to_invalid, 9 sites). (R-REPAIR) ensure_utf16_validity returns only on a path that has compared its scan position with buffer.len() with no constant offset, on the edge meaning reached (an early exit would keep an unpaired surrogate in the last unit). Also run here: R-INV over the Utf8Decoder slow path (behind mem::convert_utf8_to_utf16) and R-STRSAFE.scrub over the &mut str conversions of mem.',
    'note': 'Trusted: rustc MIR, mirx, rule library; the doc comments of src/mem.rs as the statement of the partial-output contract.',
    'technique': 'per-configuration effect analysis over the call graph + information-flow rule + exact interval extraction of surrogate tests',
}
CONFIGS = {'quick': ['default', 'simd'], 'thorough': ['default', 'simd', 'noalloc']}


def documented_unmodified():
    """Functions in src/mem.rs whose doc comment promises that bytes beyond `written` stay unmodified."""
    p = os.path.join(factsbuild.REPO, 'src', 'mem.rs')
    out = []
    doc = []
    for line in open(p):
        s = line.strip()
        if s.startswith('///'):
            doc.append(s[3:].strip())
            continue
        m = re.match(r'pub (?:unsafe )?fn (\w+)', s)
        if m:
            text = ' '.join(doc)
            if re.search(r'beyond the number of\s+bytes.*left unmodified', text) or 'are left unmodified' in text:
                out.append('mem::' + m.group(1))
            doc = []
        elif s and not s.startswith('#['):
            doc = []
    return out


def in_scope(n):
    return n.startswith(('mem::', 'utf_8::', 'ascii::', 'simd_funcs::', 'handles::convert_unaligned', 'handles::UnalignedU16Slice'))


def run(rep, facts, tier):
    fns = documented_unmodified()
    rep.analysed['documented_unmodified'] = fns
    for c, f in facts.items():
        rep.floor('C15-D1', 'functions documented to leave bytes beyond written unmodified', len(fns), 1, c)
        seeds = r_effect.seeds(f)
        eff = r_effect.callers_closure(f, set(seeds))
        rep.analysed['stride_kernels_with_effect:' + c] = sorted(seeds)
        for fn in fns:
            b = f.body(fn)
            if b is None:
                rep.undecidable('C15-D1', fn, 'documented function not found in this configuration', None, c)
                continue
            rep.ob('C15-D1', fn, fn not in eff,
                   'documented to leave destination bytes beyond `written` unmodified, but in this configuration it can reach stride kernels that store a whole '
                   'stride before validating it (%s)' % ', '.join(sorted(seeds))[:200], sp_str(b.raw['span']), {'effect': fn in eff}, c)
        nb, n = t_writeonly.run(rep, f, c, 'T-WRITEONLY', in_scope)
        rep.floor('T-WRITEONLY.bodies', 'mem/utf_8/ascii bodies scanned', nb, 110, c)
        n = r_surr.run(rep, f, c, 'R-SURR', in_scope)
        rep.floor('R-SURR', 'surrogate tests in mem/utf_8', n, 12, c)
        r_utf8asm.run(rep, f, c, scope=('mem::', 'utf_8::'), floor=9)
        n = r_lookahead.run(rep, f, c, 'R-LOOKAHEAD', in_scope)
        rep.floor('R-LOOKAHEAD', 'surrogate look-ahead sites in mem/utf_8', n, 2, c)
        scan.run_specs(rep, f, c, 'R-SCAN', ['mem::utf16_valid_up_to', 'utf_8::convert_utf8_to_utf16_up_to_invalid'])
        r_kernel.run(rep, f, c, 'R-KERNEL', ['copy', 'validate'])
        r_utf8store.run(rep, f, c)
        import r_repair
        rep.floor('R-REPAIR', 'returning paths of ensure_utf16_validity', r_repair.run(rep, f, c), 1, c)
        r_dim.run(rep, f, c)
        import r_inv, r_strsafe
        r_inv.run(rep, f, c, 'R-INV')
        r_strsafe.scrub(rep, f, c, 'R-STRSAFE.scrub')
    return ('other', MANIFEST['text'], [])
