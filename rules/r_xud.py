"""R-XUD — the x-user-defined converters' exact character classes (Encoding Standard §14.5), extracted by interval propagation.

decoder: byte 00-7F -> the same code point; byte 80-FF -> U+F780 + byte - 0x80 (= byte + 0xF700)
encoder: U+0000-U+007F -> the same byte; U+F780-U+F7FF -> code point - 0xF780 + 0x80 (= code point - 0xF700 as a byte);
         everything else -> Unmappable(that character)

The unit that is read is found structurally (the single-definition u8 / char local holding the read handle's result, or the
closure's dereferenced source element); each write site's set of reaching units and the written value as a function of the unit
are computed exactly (R-RANGE) and compared with the two lines above.  This is the part of "is_ascii_compatible / is_single_byte
tell the truth" (C20) that is specific to this encoding: it has no table, the mapping is these comparisons and this arithmetic."""
from mirlib import *
from paths import loop_heads
from ranges import *

SCALARS = ISet.of((0, 0xD7FF), (0xE000, 0x10FFFF))
BYTES = ISet.of((0, 0xFF))


def value_is(av, S, k, mod):
    """av(x) == x + k (mod `mod`) for every x in S"""
    for lo, hi in S.iv:
        covered = 0
        for plo, phi, kind, a in av.pieces:
            a_, b_ = max(lo, plo), min(hi, phi)
            if a_ > b_:
                continue
            covered += b_ - a_ + 1
            if kind == 'x':
                if (a - k) % mod != 0:
                    return False
            elif kind == 'c':
                if not all((a - (x + k)) % mod == 0 for x in range(a_, b_ + 1)) or b_ - a_ > 4:
                    return False
            else:
                return False
        if covered != hi - lo + 1:
            return False
    return True


def arms_of(b, r, ra, operand, bi, dom):
    """the value of an operand at block bi as [(units reaching, value as a function of the unit)]: one entry per definition when the
    operand is a local joined from several arms, else a single entry"""
    pl = op_place(operand)
    hops = 0
    while pl is not None and not pl['p'] and len(b.defs.get(pl['l'], [])) == 1 and b.defs[pl['l']][0][2] == 'assign' and \
            'use' in b.defs[pl['l']][0][3]['rv'] and hops < 8:
        # a temporary holding a copy of another local
        nxt = op_place(b.defs[pl['l']][0][3]['rv']['use'])
        if nxt is None or nxt['p']:
            break
        pl = nxt
        hops += 1
    if pl is not None and not pl['p'] and len(b.defs.get(pl['l'], [])) > 1:
        out = []
        for d in b.defs.get(pl['l'], []):
            if d[2] == 'assign':
                out.append((ra.reach_of(d[0]) & dom, ra.ev(r.rvalue(d[3]['rv']))))
            elif d[2] == 'call':
                out.append((ra.reach_of(d[0]) & dom, ra.ev(r.call(d[3], d[0], 0))))
        return out
    return [(ra.reach_of(bi) & dom, ra.ev(r.operand(operand)))]


def unit_local(b, ty, r, marker):
    """the local of type `ty` with one definition whose value is a field of the `marker` call (the read)"""
    out = []
    for i, l in enumerate(b.locals):
        if l['ty'] == ty and i > b.arg_count and len(b.defs.get(i, [])) == 1 and b.defs[i][0][2] == 'assign':
            v = r.rvalue(b.defs[i][0][3]['rv'])
            if v[0] == 'fld' and v[1][0] == 'call' and (v[1][1] or '').endswith(marker):
                out.append((i, v, b.defs[i][0][0]))
    # temporaries holding the same read are the same unit: keep the binding (the named one, else the first defined)
    if len({v for _, v, _ in out}) == 1 and len(out) > 1:
        named = [o for o in out if b.locals[o[0]].get('name')]
        dom = b.dominators() if hasattr(b, 'dominators') else None
        first = named[0] if len(named) == 1 else None
        if first is None:
            return out
        return [first]
    return out


def encoder(rep, f, c, rule):
    n = 0
    for src in ('utf8', 'utf16'):
        fn = 'x_user_defined::UserDefinedEncoder::encode_from_%s_raw' % src
        b = f.body(fn)
        if b is None:
            rep.undecidable(rule, fn, 'function not found', None, c)
            continue
        site = sp_str(b.raw['span'])
        r = Resolver(b)
        us = unit_local(b, 'char', r, 'ReadHandle::read')
        if len(us) != 1:
            rep.undecidable(rule, fn, 'the character read in the loop was not found (%d candidates)' % len(us), site, c)
            continue
        L, val, db = us[0]
        ra = RangeAnalysis(f, b, {('loc', L), val}, 32, SCALARS, entries=[db], stop=set(loop_heads(b)), opaque_ok=True, N=0x110000)
        if ra.mixed:
            rep.undecidable(rule, fn, 'classification of the character is not decidable: %r' % (ra.mixed[:1],), site, c)
            continue
        ident, upper, unm, other = ISet(), ISet(), ISet(), []
        for bi, blk in enumerate(b.blocks):
            reach = ra.reach_of(bi) & SCALARS
            if not reach:
                continue
            t = blk['t']
            if 'call' in t and (b.callee(t) or '').endswith('Handle::write_one'):
                for rs, av in arms_of(b, r, ra, t['args'][1], bi, SCALARS):
                    if not rs:
                        continue
                    if value_is(av, rs, 0, 256) and rs.iv[-1][1] <= 0xFF:
                        ident = ident | rs
                    elif value_is(av, rs, -0xF700, 256) and rs.iv[0][0] >= 0xF700 and rs.iv[-1][1] <= 0xF7FF:
                        upper = upper | rs
                    else:
                        other.append((sp_str(blk['tsp']), repr(rs)))
            elif 'call' in t and 'Handle::write_' in (b.callee(t) or ''):
                other.append((sp_str(blk['tsp']), 'multi-byte write for %r' % reach))
            for st in blk['s']:
                if 'assign' in st and 'aggregate' in st['rv'] and isinstance(st['rv']['aggregate'], dict) and st['rv']['aggregate'].get('variant') == 'Unmappable' \
                        and st['rv']['aggregate'].get('adt') == 'EncoderResult':
                    pv = ra.ev(r.operand(st['rv']['ops'][0]))
                    if value_is(pv, reach, 0, 1 << 32):
                        unm = unm | reach
                    else:
                        other.append((sp_str(st['sp']), 'Unmappable payload is not the character read'))
        n += 1
        want_i, want_u = ISet.of((0, 0x7F)), ISet.of((0xF780, 0xF7FF))
        rep.ob(rule + '.encoder', fn, not other and ident == want_i and upper == want_u and unm == SCALARS - want_i - want_u,
               'x-user-defined must encode U+0000-U+007F as the same byte, U+F780-U+F7FF as code point - 0xF700 and report every other character '
               'unmappable; the implementation writes the identity byte for %r, the shifted byte for %r, reports %r%s'
               % (ident, upper, unm, ('; other sites: %r' % other[:2]) if other else ''), site,
               {'identity': repr(ident), 'shifted': repr(upper), 'unmappable': repr(unm)}, c)
    return n


def decoder_utf8(rep, f, c, rule):
    fn = 'x_user_defined::UserDefinedDecoder::decode_to_utf8_raw'
    b = f.body(fn)
    if b is None:
        rep.undecidable(rule, fn, 'function not found', None, c)
        return 0
    site = sp_str(b.raw['span'])
    r = Resolver(b)
    us = unit_local(b, 'u8', r, 'ByteReadHandle::read')
    if len(us) != 1:
        rep.undecidable(rule, fn, 'the byte read in the loop was not found (%d candidates)' % len(us), site, c)
        return 0
    L, val, db = us[0]
    ra = RangeAnalysis(f, b, {('loc', L), val}, 8, BYTES, entries=[db], stop=set(loop_heads(b)), opaque_ok=True, N=0x100)
    if ra.mixed:
        rep.undecidable(rule, fn, 'classification of the byte is not decidable: %r' % (ra.mixed[:1],), site, c)
        return 0
    ident, upper, other = ISet(), ISet(), []
    for bi, blk in enumerate(b.blocks):
        reach = ra.reach_of(bi) & BYTES
        t = blk['t']
        if not reach or 'call' not in t:
            continue
        cal = b.callee(t) or ''
        if 'Handle::write_' not in cal:
            continue
        for rs, av in arms_of(b, r, ra, t['args'][1], bi, BYTES):
            if not rs:
                continue
            if cal.endswith('::write_ascii') and value_is(av, rs, 0, 1 << 16) and rs.iv[-1][1] <= 0x7F:
                ident = ident | rs
            elif cal.endswith(('::write_upper_bmp', '::write_bmp_excl_ascii', '::write_bmp')) and value_is(av, rs, 0xF700, 1 << 16):
                upper = upper | rs
            elif cal.endswith(('::write_bmp',)) and value_is(av, rs, 0, 1 << 16):
                ident = ident | rs
            else:
                other.append((sp_str(blk['tsp']), cal.rsplit('::', 1)[-1], repr(rs)))
    rep.ob(rule + '.decoder', fn, not other and ident == ISet.of((0, 0x7F)) and upper == ISet.of((0x80, 0xFF)),
           'x-user-defined must decode bytes 00-7F to the same code point and 80-FF to byte + 0xF700; the implementation maps %r to itself and %r to the shifted range%s'
           % (ident, upper, ('; other sites: %r' % other[:2]) if other else ''), site, {'identity': repr(ident), 'shifted': repr(upper)}, c)
    return 1


def decoder_utf16(rep, f, c, rule):
    """the scalar element map of decode_to_utf16_raw, wherever it is written (the function itself or a closure it hands to an
    iterator adapter): every store whose value is a function of a byte loaded through a reference must be byte -> byte for 00-7F
    and byte + 0xF700 for 80-FF, and there must be at least one such store"""
    fn = 'x_user_defined::UserDefinedDecoder::decode_to_utf16_raw'
    n = 0
    seen_body = False
    for name, b in sorted(f.bodies.items()):
        if name != fn and not name.startswith(fn + '::{closure#'):
            continue
        seen_body = True
        site = sp_str(b.raw['span'])
        r = Resolver(b)
        units = []
        for i, l in enumerate(b.locals):
            if l['ty'] == 'u8' and i > b.arg_count and len(b.defs.get(i, [])) == 1 and b.defs[i][0][2] == 'assign' and 'use' in b.defs[i][0][3]['rv']:
                pl = op_place(b.defs[i][0][3]['rv']['use'])
                if pl is not None and 'deref' in pl['p']:
                    units.append(i)
        stores = [(bi, st) for bi, blk in enumerate(b.blocks) for st in blk['s'] if 'assign' in st and st['assign']['p'] and
                  ('deref' in st['assign']['p'] or any(isinstance(e, dict) and 'index' in e for e in st['assign']['p']))]
        for L in units:
            ra = RangeAnalysis(f, b, {('loc', L), r.rvalue(b.defs[L][0][3]['rv'])}, 8, BYTES, entries=[b.defs[L][0][0]], stop=set(loop_heads(b)),
                               opaque_ok=True, N=0x100)
            if ra.mixed:
                continue
            for bi, st in stores:
                reach = ra.reach_of(bi) & BYTES
                if not reach:
                    continue
                arms = []
                src_pl = op_place(st['rv'].get('use')) if 'use' in st['rv'] else None
                if src_pl is not None and not src_pl['p'] and len(b.defs.get(src_pl['l'], [])) > 1:
                    # a join of several arms: each arm's value with the units that reach it
                    for d in b.defs.get(src_pl['l'], []):
                        if d[2] == 'assign':
                            arms.append((ra.reach_of(d[0]) & BYTES, ra.ev(r.rvalue(d[3]['rv']))))
                        elif d[2] == 'call':
                            arms.append((ra.reach_of(d[0]) & BYTES, ra.ev(r.call(d[3], d[0], 0))))
                else:
                    arms.append((reach, ra.ev(r.rvalue(st['rv']))))
                if all(av.is_top() or av.const_value() is not None for _, av in arms):
                    continue        # not a function of this byte
                ident, upper, bad = ISet(), ISet(), False
                for rs, av in arms:
                    if not rs:
                        continue
                    if value_is(av, rs, 0, 1 << 16):
                        ident = ident | rs
                    elif value_is(av, rs, 0xF700, 1 << 16):
                        upper = upper | rs
                    else:
                        bad = True
                n += 1
                got = {'identity': repr(ident), 'shifted': repr(upper)}
                rep.ob(rule + '.decoder', '%s:store#%d' % (name, n), not bad and reach == BYTES and ident == ISet.of((0, 0x7F)) and upper == ISet.of((0x80, 0xFF)),
                       'the element map of the UTF-16 x-user-defined decoder must be byte -> byte for 00-7F and byte + 0xF700 for 80-FF; found %r' % got,
                       sp_str(st['sp']), got, c)
    if n == 0:
        rep.undecidable(rule, fn, 'no store of a value computed from a source byte found' if seen_body else 'function not found', None, c)
    return min(n, 1)


def run(rep, f, c, rule='R-XUD'):
    n = encoder(rep, f, c, rule)
    n += decoder_utf8(rep, f, c, rule)
    n += decoder_utf16(rep, f, c, rule)
    rep.floor(rule, 'x-user-defined conversion bodies analysed', n, 4, c, exact=False)
