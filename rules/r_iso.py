"""R-ISO — the UTF-8 and UTF-16 expansions of one converter macro are isomorphic modulo the sink/source type."""
import re
from mirlib import *


def norm_fn(fn):
    if fn is None:
        return None
    fn = re.sub(r'handles::Utf(8|16)', 'handles::UtfX', fn)
    fn = re.sub(r'_utf(8|16)', '_utfX', fn)
    fn = fn.replace('<u8>', '<U>').replace('<u16>', '<U>')
    return fn


def signature(body):
    calls = {}
    consts = {}
    events = {}
    stores = {}
    r = Resolver(body)
    for bi, blk in enumerate(body.blocks):
        if blk.get('cleanup'):
            continue
        for st in blk['s']:
            if 'assign' in st:
                rv = st['rv']
                if 'aggregate' in rv and isinstance(rv['aggregate'], dict) and rv['aggregate'].get('variant') in ('Malformed', 'Unmappable'):
                    k = (rv['aggregate']['variant'], tuple(op_int(o) for o in rv['ops']))
                    events[k] = events.get(k, 0) + 1
                pl = st['assign']
                if pl['l'] == 1 and pl['p'] and pl['p'][0] == 'deref':
                    fl = tuple(e['field'] for e in pl['p'] if isinstance(e, dict) and 'field' in e)
                    stores[fl] = stores.get(fl, 0) + 1
        t = blk['t']
        if 'call' in t:
            fn = norm_fn(t['call'].get('fn'))
            cargs = tuple(op_int(a) for a in t['args'])
            k = (fn, cargs)
            calls[k] = calls.get(k, 0) + 1
        if 'switch' in t and not t.get('variants'):
            k = tuple(sorted(v for v, _ in t['targets']))
            consts[k] = consts.get(k, 0) + 1
    return {'calls': calls, 'switch_constants': consts, 'events': events, 'self_stores': stores}


def twins(f, a_suffix, b_suffix):
    out = []
    for name, b in sorted(f.bodies.items()):
        if name.endswith(a_suffix) and not name.startswith(('variant::', 'Decoder::', 'Encoder::')):
            other = name[:-len(a_suffix)] + b_suffix
            ob = f.body(other)
            if ob is None:
                continue
            ma = [m[0] for m in b.raw['span'].get('mac', [])]
            mb = [m[0] for m in ob.raw['span'].get('mac', [])]
            if ma and ma == mb:
                out.append((name, other, ma[0]))
    return out


def run(rep, f, c, rule, a_suffix, b_suffix, floor):
    tw = twins(f, a_suffix, b_suffix)
    rep.floor(rule, 'macro-expanded %s/%s twins' % (a_suffix, b_suffix), len(tw), floor, c)
    for a, b, mac in tw:
        sa, sb = signature(f.body(a)), signature(f.body(b))
        diffs = []
        for k in sa:
            if sa[k] != sb[k]:
                da = {x: n for x, n in sa[k].items() if sb[k].get(x) != n}
                db = {x: n for x, n in sb[k].items() if sa[k].get(x) != n}
                diffs.append('%s: %s vs %s' % (k, list(da.items())[:2], list(db.items())[:2]))
        rep.ob(rule, '%s~%s' % (a, b.rsplit('::', 1)[-1]), not diffs,
               'the two expansions of %s! differ structurally: %s' % (mac, '; '.join(diffs)[:400]), sp_str(f.body(a).raw['span']),
               {'macro': mac, 'calls': sum(sa['calls'].values()), 'events': sum(sa['events'].values())}, c)
