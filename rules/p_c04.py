"""C04 — encoder results do not depend on chunking or on UTF-8 vs UTF-16 input form (structural clauses)."""
import t_dst, r_account, r_iso, r_lookahead, r_surr, r_inputempty, r_dim, r_utf8asm, r_asciicopy
import p_c09

MANIFEST = {
    'category': 'other',
    'text': 'Necessary structural conditions, decided for all histories at once from MIR: (D1) T-DST — in every encoder body no '
            'Unmappable result is control-dependent on a branch over the destination capacity unless the other side is a pure '
            'OutputFull exit; in particular the surrogate look-ahead bound derives from the source length only (this rule found the '
            'single-byte encoder treating a valid pair as unpaired when the output was short; repaired by a fix: commit); (D2) '
            'R-ACCOUNT — a character taken from the source is written, reported as Unmappable, pushed back or remembered before every '
            'return; (D3) the UTF-8-source and UTF-16-source expansions of every encoder macro are structurally isomorphic; (D4) the '
            'with-replacement wrappers carve NCR_EXTRA off dst exactly when the encoding cannot encode everything, write the NCR at '
            'dst[total_written..], and decide InputEmpty/OutputFull after an NCR as documented (path summaries shared with C09). '
            'Equality of concatenated bytes over all histories is not decided. ' 
            '(R-DIM) dimension inference over the index arithmetic of the slice-to-slice converters (no sum or difference mixes a source and a destination quantity; each buffer indexed with its own quantities; (read, written) = (source, destination) quantity; a path that advances the source position and returns has produced output; inside a loop that walks a buffer with a loop-carried position every index into that buffer depends arithmetically on such a position). (R-UTF8ASM) every place that assembles a value from the bytes of a UTF-8 sequence (OR/ADD of shifted byte terms) has the shifts 6(n-1)..0, a lead term equal to byte-C0/E0/F0 on the n-byte leads and continuation terms equal to byte-80 on 80-BF, compared as exact functions over the byte domains, loaded from consecutive positions where the loads resolve (here: handles::Utf8Source, 15 sites: what the encoders read from UTF-8 input is the scalar the UTF-16 path would see). (R-ASCIICOPY) the ASCII fast-path helpers of the handles (copy_ascii_from/to_check_space_*) advance the source and the destination position in step by what the ASCII kernel consumed, add only the units of the non-ASCII character on the source side and nothing on a path that stops, and report with Stop the source position itself and the destination position. Also run here: R-UTF8ENC (the UTF-8 to UTF-8 encoder\'s cut is the boundary search from dst.len() and nothing else) and R-SURR over utf_8::convert_utf16_to_utf8*.',
    'note': 'Trusted: rustc MIR, mirx, rule library.',
    'technique': 'control-dependence taint rule + MIR dataflow + sibling-expansion comparison + bounded path summaries',
}
CONFIGS = {'quick': ['default'], 'thorough': ['default', 'noalloc', 'simd', 'fast', 'lessslow']}


def run(rep, facts, tier):
    for c, f in facts.items():
        r_dim.run(rep, f, c)
        import r_utf8enc
        r_utf8enc.run(rep, f, c)     # the UTF-8 -> UTF-8 encoder's cut depends on dst.len() only through the boundary search (chunk/form independence)
        nb, nev = t_dst.run(rep, f, c, 'T-DST', lambda n: 'Encoder::' in n or n.startswith('handles::Utf8Source') or n.startswith('handles::Utf16Source'))
        rep.floor('T-DST', 'Unmappable constructions examined', nev, 55, c)
        nb, ng = r_account.run(rep, f, c, 'R-ACCOUNT', lambda n: 'Encoder::' in n)
        rep.floor('R-ACCOUNT', 'encoder bodies with unit fetches', nb, 14, c)
        r_iso.run(rep, f, c, 'R-ISO', '::encode_from_utf8_raw', '::encode_from_utf16_raw', 7)
        n = r_lookahead.run(rep, f, c, 'R-LOOKAHEAD', lambda nm: nm.startswith(('handles::Utf16Source', 'single_byte::SingleByteEncoder')))
        rep.floor('R-LOOKAHEAD', 'surrogate look-ahead sites', n, 4, c)
        n = r_surr.run(rep, f, c, 'R-SURR', lambda nm: 'Encoder::' in nm or nm.startswith(('handles::Utf16Source', 'handles::Utf8Source', 'utf_8::convert_utf16_to_utf8')))
        rep.floor('R-SURR', 'surrogate tests on the encoder side', n, 10, c)
        n = r_inputempty.run(rep, f, c, 'R-INPUTEMPTY', lambda nm: 'Encoder::' in nm or nm.startswith(('handles::Utf16Source', 'handles::Utf8Source')))
        rep.floor('R-INPUTEMPTY', 'InputEmpty constructions (encoders)', n, 25, c)
        r_utf8asm.run(rep, f, c, scope='handles::', floor=15)
        r_asciicopy.run(rep, f, c, want=lambda n: 'copy_ascii_to_' in n)
        for w in p_c09.WRAPPERS:
            if w[4]:
                p_c09.wrapper(rep, f, c, *w)
    return ('other', MANIFEST['text'], [])
