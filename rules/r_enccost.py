"""R-ENCCOST — the encoder buffer-length queries cover the encoder loops' space demands (amortised argument, handle-based encoders).

For a query of the form Q(n) = a*n + c (closed form extracted from the MIR of max_buffer_length_from_utf{8,16}_without_replacement;
state-dependent alternatives — gb18030's `extended` — are paired with the body paths taken under the same condition) the budget
invariant  free >= a * (units left) + c  is maintained and sufficient if, for every path of the encoder loop,
  (i)   a character of class K (ASCII / non-ASCII BMP / astral), which occupies at least k(K) source units (UTF-8: 1 / 2 / 4,
        UTF-16: 1 / 1 / 2), is written with at most a * k(K) bytes, and
  (ii)  every space test asks for at most a * (units known to be ahead of the written output) + c bytes: the test made by the
        ASCII fast path for the non-ASCII character it has just read (k(non-ASCII) units in hand), and the explicit test that
        follows a successful check_available (one unit ahead).
Write sizes and capacities are those of the ByteDestination handles (decided by R-HANDLE).  A query that loses its constant or a
loop that tests for more space than the query budgets for breaks (ii); a wider write breaks (i).
"""
from mirlib import *
from paths import *
from shape import variant_name
import r_entrycost

NUM = {'one': 1, 'two': 2, 'three': 3, 'four': 4}
ENCODERS = ['big5::Big5Encoder', 'euc_jp::EucJpEncoder', 'euc_kr::EucKrEncoder', 'gb18030::Gb18030Encoder', 'shift_jis::ShiftJisEncoder',
            'single_byte::SingleByteEncoder', 'x_user_defined::UserDefinedEncoder']
KMIN = {'utf8': {'Ascii': 1, 'BmpExclAscii': 2, 'Astral': 4, 'NonAscii': 2, 'char': 1},
        'utf16': {'Ascii': 1, 'BmpExclAscii': 1, 'Astral': 2, 'NonAscii': 1, 'char': 1}}


def short(fn):
    return (fn or '').rsplit('::', 1)[-1]


def linear(vals):
    """[(n, v)] -> (a, c) if v = a*n + c"""
    (n0, v0), (n1, v1) = vals[0], vals[1]
    a = (v1 - v0) // (n1 - n0)
    c = v0 - a * n0
    return (a, c) if all(v == a * n + c for n, v in vals) else None


def query_forms(f, qfn):
    """-> list of (state preds, a, c)"""
    per = {}
    for n in (0, 1, 2, 7):
        alts = r_entrycost.QueryEval(f).alternatives(qfn, ['SELF', n])
        for preds, val in alts:
            key = tuple(sorted(preds.items(), key=repr))
            v = val[1] if isinstance(val, tuple) else val
            if v is None:
                raise r_entrycost.Unknown('None for small n')
            per.setdefault(key, []).append((n, v))
    out = []
    for key, vals in per.items():
        if len(vals) != 4:
            raise r_entrycost.Unknown('alternatives differ between n')
        ac = linear(vals)
        if ac is None:
            raise r_entrycost.Unknown('not linear')
        out.append((dict(key), ac[0], ac[1]))
    return out


def run(rep, f, c, rule='R-ENCCOST'):
    n = und = 0
    for E in ENCODERS:
        for src in ('utf8', 'utf16'):
            bfn = '%s::encode_from_%s_raw' % (E, src)
            qfn = '%s::max_buffer_length_from_%s_without_replacement' % (E, src)
            b = f.body(bfn)
            if b is None or f.body(qfn) is None:
                rep.undecidable(rule, '%s:%s' % (E, src), 'encoder body or query not found', None, c)
                continue
            uses_handles = any((b.callee(t) or '').startswith('handles::ByteDestination::check_space') or 'copy_ascii_to_check_space' in (b.callee(t) or '') for _, t in b.calls())
            if not uses_handles:
                und += 1
                continue          # hand-written loop (single-byte from UTF-16): not a handle-based encoder
            try:
                forms = query_forms(f, qfn)
            except (r_entrycost.Unknown, OverflowError, RecursionError, ZeroDivisionError):
                und += 1
                continue
            heads = set(loop_heads(b))
            seen = set()
            try:
                regions = [(h, region_paths(b, h, stop=heads)) for h in [0] + sorted(heads)]
            except OverflowError:
                und += 1
                continue
            for h, paths in regions:
                for p in paths:
                    if p.end[0] == 'diverge':
                        continue
                    state = {}
                    cls = None
                    avail = False
                    items = []
                    for ev in p.events:
                        if ev[0] == 'cond':
                            cond, lab = ev[1], ev[2]
                            pr = r_entrycost.pred(cond, lab, b, ev[3])
                            if pr is not None:
                                state[(pr[0], pr[1])] = pr[2]
                                continue
                            if isinstance(cond, tuple) and cond and cond[0] == 'variant':
                                if cond[1][0] == 'call':
                                    s = short(cond[1][1])
                                    if s == 'check_available':
                                        avail = lab == 'Available'
                                    continue
                                if lab in ('Ascii', 'BmpExclAscii', 'Astral', 'NonAscii'):
                                    cls = lab if not (lab == 'NonAscii' and cls in ('BmpExclAscii', 'Astral')) else cls
                            continue
                        if ev[0] != 'call':
                            continue
                        fn = ev[1] or ''
                        s = short(fn)
                        if 'copy_ascii_to_check_space_' in s:
                            items.append(('fastpath-check', NUM.get(s.rsplit('_', 1)[-1]), None, ev[3]))
                        elif fn.startswith('handles::ByteDestination::check_space_'):
                            items.append(('check', NUM.get(s.rsplit('_', 1)[-1]), avail, ev[3]))
                        elif fn.startswith('handles::Byte') and 'Handle::write_' in fn:
                            items.append(('write', NUM.get(s.rsplit('_', 1)[-1]), cls, ev[3]))
                        elif s in ('read', 'read_enum'):
                            avail = False
                    for kind, size, ctx, bb in items:
                        if size is None:
                            und += 1
                            continue
                        for preds, a, c0 in forms:
                            if not r_entrycost.consistent(state, preds):
                                continue
                            st_s = r_entrycost.pstr(preds) if preds else ''
                            if kind == 'write':
                                k = KMIN[src].get(ctx or ('char' if 'x_user_defined' in E else None))
                                if k is None:
                                    und += 1
                                    continue
                                key = '%s:%s:%s write_%d for %s (>= %d unit(s))' % (E, src, st_s, size, ctx, k)
                                ok = size <= a * k
                                msg = 'a %s character takes at least %d source unit(s), for which the query budgets %d byte(s) (slope %d), but %d byte(s) are written' % (ctx, k, a * k, a, size)
                            elif kind == 'fastpath-check':
                                k = KMIN[src]['NonAscii']
                                key = '%s:%s:%s fast-path space test for %d' % (E, src, st_s, size)
                                ok = size <= a * k + c0
                                msg = ('the ASCII fast path asks for %d free byte(s) for the non-ASCII character it has read (>= %d unit(s)); the query %d*n%+d budgets only %d there: '
                                       'a buffer of the queried size is refused with OutputFull' % (size, k, a, c0, a * k + c0))
                            else:
                                if not ctx:
                                    und += 1
                                    continue
                                key = '%s:%s:%s space test for %d with one unit ahead' % (E, src, st_s, size)
                                ok = size <= a * 1 + c0
                                msg = ('the loop asks for %d free byte(s) before reading the next unit; with one unit left the query %d*n%+d budgets only %d: '
                                       'a buffer of the queried size is refused with OutputFull' % (size, a, c0, a + c0))
                            if key in seen:
                                continue
                            seen.add(key)
                            n += 1
                            rep.ob(rule, key, ok, msg, sp_str(b.blocks[bb]['tsp']), {'a': a, 'c': c0}, c)
    rep.count('enccost.decided:%s' % c, n)
    rep.count('enccost.undecided:%s' % c, und)
    rep.floor(rule, 'encoder cost obligations', n, 40, c)
    return n, und
