"""R-SINGLEBYTE — the per-encoding parameters of the single-byte encoder agree with the decode tables (exhaustive, data vs data).

VariantEncoding::SingleByte(table, run_bmp_offset, run_byte_offset, run_length) tells SingleByteEncoder::encode_u16 that the
code units run_bmp_offset .. +run_length map to the bytes 0x80 + run_byte_offset .. without looking at the table, and in which
order to search the rest of the table.  For every Encoding static constructed with that variant (read from its const-evaluation
body; the table is located through the relocation in the evaluated static) the obligations are:
  run       table[run_byte_offset + i] == run_bmp_offset + i for every i < run_length, run inside the table, run_byte_offset >= 32
            (the search slices 32..run_byte_offset / 64..run_byte_offset are otherwise out of order and panic);
  first     for every code unit in the table the byte found by the search order (run, tail, third quadrant before the run,
            second quadrant, first quadrant) is the *first* pointer holding that code unit, which is what the Standard's
            "index pointer" prescribes when an index lists a code point twice.
"""
from mirlib import *


def encodings(f):
    out = []
    for name, st in sorted(f.statics.items()):
        if st.get('ty') != 'Encoding':
            continue
        b = f.body(name)
        if b is None:
            continue
        for blk in b.blocks:
            for s in blk['s']:
                if 'assign' in s and isinstance(s['rv'].get('aggregate'), dict) and s['rv']['aggregate'].get('variant') == 'SingleByte' \
                        and s['rv']['aggregate'].get('adt', '').endswith('VariantEncoding'):
                    ops = s['rv']['ops']
                    params = [op_int(o) for o in ops[1:4]]
                    rel = [r for r in st['alloc']['relocs'] if isinstance(r.get('to'), dict) and r['to'].get('static') == 'data::SINGLE_BYTE_DATA']
                    out.append((name, params, rel[0]['off'] if len(rel) == 1 else None, sp_str(s['sp'])))
    return out


def search_order(byte_off, length):
    order = list(range(byte_off, byte_off + length))
    order += list(range(byte_off + length, 128))
    if byte_off >= 64:
        order += list(range(64, byte_off)) + list(range(32, 64))
    else:
        order += list(range(32, byte_off))
    order += list(range(0, 32))
    return order


def run(rep, f, c, rule='R-SINGLEBYTE'):
    data = f.statics.get('data::SINGLE_BYTE_DATA')
    encs = encodings(f)
    if data is None or not encs:
        rep.undecidable(rule, 'single-byte encodings', 'SINGLE_BYTE_DATA or the SingleByte Encoding statics not found', None, c)
        return 0
    raw = bytes.fromhex(data['alloc']['bytes'])
    n = 0
    for name, (bmp_off, byte_off, length), off, site in encs:
        n += 1
        if None in (bmp_off, byte_off, length) or off is None or off + 256 > len(raw):
            rep.undecidable(rule, name, 'parameters or table location not constant', site, c)
            continue
        T = [int.from_bytes(raw[off + 2 * i: off + 2 * i + 2], 'little') for i in range(128)]
        bad = [i for i in range(length) if byte_off + i >= 128 or T[byte_off + i] != bmp_off + i]
        rep.ob(rule + '.run', name, not bad and byte_off >= 32 and byte_off + length <= 128,
               'run (U+%04X.. -> byte 0x%02X.., length %d) disagrees with the decode table at run index %s (table has U+%04X) or leaves the table / starts below 0xA0'
               % (bmp_off, 0x80 + byte_off, length, bad[:3], T[byte_off + bad[0]] if bad and byte_off + bad[0] < 128 else 0), site,
               {'run_bmp_offset': bmp_off, 'run_byte_offset': byte_off, 'run_length': length}, c)
        if byte_off < 32 or byte_off + length > 128:
            continue
        order = search_order(byte_off, length)
        cover = sorted(order) == list(range(128))
        wrong = []
        for v in sorted(set(T)):
            if v == 0:
                continue
            first = T.index(v)
            if bmp_off <= v < bmp_off + length:
                found = byte_off + (v - bmp_off)
            else:
                found = next(i for i in order[length:] if T[i] == v)
            if found != first:
                wrong.append((v, found, first))
        rep.ob(rule + '.first', name, cover and not wrong,
               'the search order does not cover the table exactly once, or finds a later pointer than the first one for %s' %
               ', '.join('U+%04X (byte %02X, first %02X)' % (v, 0x80 + a, 0x80 + b_) for v, a, b_ in wrong[:3]), site, {'table_entries': 128}, c)
    rep.floor(rule, 'single-byte Encoding statics', n, 28, c, exact=True)
    return n
