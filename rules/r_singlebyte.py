"""R-SINGLEBYTE — the per-encoding parameters of the single-byte encoder agree with the decode tables (exhaustive, data vs data).

VariantEncoding::SingleByte(table, run_bmp_offset, run_byte_offset, run_length) tells SingleByteEncoder::encode_u16 that the
code units run_bmp_offset .. +run_length map to the bytes 0x80 + run_byte_offset .. without looking at the table, and in which
order to search the rest of the table.  For every Encoding static constructed with that variant (read from its const-evaluation
body; the table is located through the relocation in the evaluated static) the obligations are:
  run       table[run_byte_offset + i] == run_bmp_offset + i for every i < run_length, run inside the table, run_byte_offset >= 32
            (the search slices 32..run_byte_offset / 64..run_byte_offset are otherwise out of order and panic);
  first     for every code unit in the table the byte found by the search order (run, tail, third quadrant before the run,
            second quadrant, first quadrant) is the *first* pointer holding that code unit, which is what the Standard's
            "index pointer" prescribes when an index lists a code point twice.
"""
from mirlib import *


def encodings(f):
    out = []
    for name, st in sorted(f.statics.items()):
        if st.get('ty') != 'Encoding':
            continue
        b = f.body(name)
        if b is None:
            continue
        for blk in b.blocks:
            for s in blk['s']:
                if 'assign' in s and isinstance(s['rv'].get('aggregate'), dict) and s['rv']['aggregate'].get('variant') == 'SingleByte' \
                        and s['rv']['aggregate'].get('adt', '').endswith('VariantEncoding'):
                    ops = s['rv']['ops']
                    params = [op_int(o) for o in ops[1:4]]
                    rel = [r for r in st['alloc']['relocs'] if isinstance(r.get('to'), dict) and r['to'].get('static') == 'data::SINGLE_BYTE_DATA']
                    out.append((name, params, rel[0]['off'] if len(rel) == 1 else None, sp_str(s['sp'])))
    return out


def search_order(byte_off, length):
    order = list(range(byte_off, byte_off + length))
    order += list(range(byte_off + length, 128))
    if byte_off >= 64:
        order += list(range(64, byte_off)) + list(range(32, 64))
    else:
        order += list(range(32, byte_off))
    order += list(range(0, 32))
    return order


def run(rep, f, c, rule='R-SINGLEBYTE'):
    data = f.statics.get('data::SINGLE_BYTE_DATA')
    encs = encodings(f)
    if data is None or not encs:
        rep.undecidable(rule, 'single-byte encodings', 'SINGLE_BYTE_DATA or the SingleByte Encoding statics not found', None, c)
        return 0
    raw = bytes.fromhex(data['alloc']['bytes'])
    n = 0
    for name, (bmp_off, byte_off, length), off, site in encs:
        n += 1
        if None in (bmp_off, byte_off, length) or off is None or off + 256 > len(raw):
            rep.undecidable(rule, name, 'parameters or table location not constant', site, c)
            continue
        T = [int.from_bytes(raw[off + 2 * i: off + 2 * i + 2], 'little') for i in range(128)]
        bad = [i for i in range(length) if byte_off + i >= 128 or T[byte_off + i] != bmp_off + i]
        rep.ob(rule + '.run', name, not bad and byte_off >= 32 and byte_off + length <= 128,
               'run (U+%04X.. -> byte 0x%02X.., length %d) disagrees with the decode table at run index %s (table has U+%04X) or leaves the table / starts below 0xA0'
               % (bmp_off, 0x80 + byte_off, length, bad[:3], T[byte_off + bad[0]] if bad and byte_off + bad[0] < 128 else 0), site,
               {'run_bmp_offset': bmp_off, 'run_byte_offset': byte_off, 'run_length': length}, c)
        if byte_off < 32 or byte_off + length > 128:
            continue
        order = search_order(byte_off, length)
        cover = sorted(order) == list(range(128))
        wrong = []
        for v in sorted(set(T)):
            if v == 0:
                continue
            first = T.index(v)
            if bmp_off <= v < bmp_off + length:
                found = byte_off + (v - bmp_off)
            else:
                found = next(i for i in order[length:] if T[i] == v)
            if found != first:
                wrong.append((v, found, first))
        rep.ob(rule + '.first', name, cover and not wrong,
               'the search order does not cover the table exactly once, or finds a later pointer than the first one for %s' %
               ', '.join('U+%04X (byte %02X, first %02X)' % (v, 0x80 + a, 0x80 + b_) for v, a, b_ in wrong[:3]), site, {'table_entries': 128}, c)
    rep.floor(rule, 'single-byte Encoding statics', n, 28, c, exact=True)
    return n


def is_src_unit(b, leaf, depth=0):
    """a unit loaded from the source buffer (argument 2): src[i], *src.get_unchecked(i), or a local all of whose definitions are such loads"""
    def root_is_src(x):
        x = strip_ref(x)
        while x[0] in ('deref', 'ref'):
            x = strip_ref(x[1])
        return x == ('loc', 2)
    if leaf[0] == 'idx':
        return root_is_src(leaf[1])
    if leaf[0] == 'deref' and leaf[1][0] == 'call' and (leaf[1][1] or '').endswith('::get_unchecked') and len(leaf[1][2]) == 2:
        return root_is_src(leaf[1][2][0])
    if leaf[0] in ('init', 'loc') and isinstance(leaf[1], int) and leaf[1] > b.arg_count and depth < 3:
        ds = b.defs.get(leaf[1], [])
        if not ds or any(d[2] != 'assign' for d in ds):
            return False
        r = Resolver(b)
        for d in ds:
            r.cur = (d[0], d[1])
            v = r.rvalue(d[3]['rv'])
            while v[0] == 'cast':
                v = v[2]
            if not is_src_unit(b, v, depth + 1):
                return False
        return True
    return False


def raw_copies(rep, f, c, rule='R-SINGLEBYTE'):
    """The hand-written single-byte loops copy a source unit to the destination as it is only when it is ASCII: every store whose
    value is the identity function of one source unit (a cast of it) must lie on a path whose conditions confine that unit to
    00-7F (exact set from the path's conditions, R-RANGE).  A non-ASCII unit has to go through the table."""
    from paths import summarize, enumerate_block_paths, loop_heads
    from ranges import ISet, _mk, leaves
    import r_utf8store
    from r_xud import value_is
    ASCII = ISet.of((0, 0x7F))
    n = 0
    for fn in ('single_byte::SingleByteEncoder::encode_from_utf16_raw', 'single_byte::SingleByteDecoder::decode_to_utf16_raw'):
        b = f.body(fn)
        if b is None:
            rep.undecidable(rule + '.ascii-copy', fn, 'function not found', None, c)
            continue
        site = sp_str(b.raw['span'])
        heads = loop_heads(b)
        res = Resolver(b)
        try:
            ps = []
            for h in [0] + list(heads):
                ps += [summarize(b, blks, end) for blks, end in enumerate_block_paths(b, h, stop=heads, limit=60000)]
        except OverflowError as e:
            rep.undecidable(rule + '.ascii-copy', fn, str(e), site, c)
            continue
        bad = None
        k = 0
        for p in ps:
            if p.end[0] == 'diverge':
                continue
            for e in p.stores():
                val = e[2]
                ls = set(leaves(val))
                if len(ls) != 1:
                    continue
                leaf = next(iter(ls))
                if not is_src_unit(b, leaf):
                    continue
                try:
                    av = _mk(f, b, res, leaf, 16, 0x10000).ev(val)
                except Exception:
                    continue
                dom = r_utf8store.leaf_domain(f, b, p, leaf, 16)
                if not dom or not value_is(av, dom, 0, 1 << 16):
                    continue           # not a verbatim copy (a table value, a shifted unit ...)
                k += 1
                if not (dom - ASCII).is_empty() if hasattr(dom, 'is_empty') else bool(dom - ASCII):
                    bad = ('a source unit is copied to the destination verbatim on a path that admits %r' % (dom - ASCII), sp_str(b.blocks[e[3]]['tsp']) if len(e) > 3 and isinstance(e[3], int) else site)
                    break
            if bad:
                break
        n += k
        rep.ob(rule + '.ascii-copy', fn, bad is None and k >= 1, bad[0] if bad else 'no verbatim copy of a source unit found', bad[1] if bad else site, {'copies': k}, c)
    return n
