"""Path summaries (DESIGN.md B.4): enumerate the acyclic paths of a region (one loop iteration,
one match arm, a whole loop-free body) and evaluate each one symbolically into a summary of
events: calls with resolved arguments, stores through references, conditions taken, and the
values of named locals at the end.  No solver, no concrete values: expressions stay symbolic
and rules match their shape."""
from mirlib import *

MAX_PATHS = 20000


class PathEval(Resolver):
    def __init__(self, body, env=None):
        Resolver.__init__(self, body)
        self.env = dict(env or {})

    def local(self, l, d=0):
        if l in self.env:
            return self.env[l]
        if 1 <= l <= self.b.arg_count:
            return ('loc', l)
        return ('init', l)


class Path:
    def __init__(self):
        self.blocks = []
        self.events = []     # ('call', fn, args, bb, generic) | ('store', place, value, bb) | ('cond', expr, label, bb) | ('set', local, value, bb)
        self.end = None      # ('return', bb) | ('back', bb_to) | ('stop', bb) | ('diverge', bb)
        self.env = {}

    def calls(self, suffix=None):
        return [e for e in self.events if e[0] == 'call' and (suffix is None or (e[1] or '').endswith(suffix))]

    def conds(self):
        return [e for e in self.events if e[0] == 'cond']

    def stores(self):
        return [e for e in self.events if e[0] == 'store']


def enumerate_block_paths(body, start, stop=(), cut_back_edges=True, limit=MAX_PATHS):
    """All paths start -> (return | diverge | block in stop | back edge target), as block lists with the end kind."""
    out = []
    back = set(body.back_edges()) if cut_back_edges else set()
    stack = [([start], {start})]
    while stack:
        path, seen = stack.pop()
        b = path[-1]
        t = body.blocks[b]['t']
        succs = body.succ[b]
        if 'return' in t:
            out.append((path, ('return', b)))
        elif not succs:
            out.append((path, ('diverge', b)))
        else:
            for s in succs:
                if s in stop:
                    out.append((path + [s], ('stop', s)))
                elif (b, s) in back or s in seen:
                    out.append((path, ('back', s)))
                else:
                    stack.append((path + [s], seen | {s}))
        if len(out) + len(stack) > limit:
            raise OverflowError('path bound %d exceeded in %s' % (limit, body.name))
    return out


def test_root(body, bi):
    """(root local, negated) of a boolean switch at the end of block bi: the local the tested temporary is a plain copy of"""
    t = body.blocks[bi]['t']
    if 'switch' not in t or t.get('sty') != 'bool':
        return None
    pl = op_place(t['switch'])
    if pl is None or pl['p']:
        return None
    l, neg = pl['l'], False
    same_block = True
    for _ in range(8):
        sd = body.single_def(l)
        if sd is None or sd[2] != 'assign' or l <= body.arg_count:
            break
        rv = sd[3]['rv']
        if 'use' in rv:
            q = op_place(rv['use'])
        elif rv.get('un') == 'Not':
            q = op_place(rv['x'])
        else:
            break
        if q is None or q['p']:
            break
        same_block = same_block and sd[0] == bi
        l = q['l']
        if rv.get('un') == 'Not':
            neg = not neg
    # a copy made in an earlier block denotes the root's value at that time: only safe if the root never changes afterwards
    if not same_block and len(body.defs.get(l, [])) > 1:
        return None
    return l, neg


def repeats_consistently(body, blocks, end=None):
    """False if the block path tests the same boolean local twice, with no assignment to it in between, and takes different sides
    (`if a || b { .. if a { .. } .. }`): such a path cannot be executed."""
    last = {}     # root local -> (position, truth)
    n = len(blocks)
    for i, bi in enumerate(blocks):
        # assignments in this block kill what is known about the locals they define
        for l in list(last):
            if any(d[0] == bi for d in body.defs.get(l, [])):
                del last[l]
        nxt = blocks[i + 1] if i + 1 < n else (end[1] if end and end[0] in ('back', 'stop') else None)
        if nxt is None:
            continue
        tr = test_root(body, bi)
        if tr is None:
            continue
        labs = [lab for lab, tgt in switch_edges(body, bi) if tgt == nxt]
        if len(labs) != 1:
            continue
        truth = bool_truth(body, bi, labs[0])
        if truth is None:
            continue
        l, neg = tr
        truth = (not truth) if neg else truth
        if l in last and last[l] != truth:
            return False
        last[l] = truth
    return True


def summarize(body, blocks, end, env0=None, named_only=True, mk=False):
    p = Path()
    p.blocks = blocks
    p.end = end
    ev = PathEval(body, env0)
    n = len(blocks)
    for i, bi in enumerate(blocks):
        blk = body.blocks[bi]
        last = (i == n - 1)
        if last and end[0] == 'stop':
            break
        for st in blk['s']:
            if 'assign' in st:
                pl = st['assign']
                val = ev.rvalue(st['rv'])
                if mk and 'aggregate' in st['rv'] and isinstance(st['rv']['aggregate'], dict) and st['rv']['aggregate'].get('variant'):
                    # construction of an enum value: its operands as they are on this path
                    p.events.append(('mk', st['rv']['aggregate'].get('adt'), st['rv']['aggregate']['variant'],
                                     tuple(ev.operand(o) for o in st['rv']['ops']), bi))
                if not pl['p']:
                    ev.env[pl['l']] = val
                    if body.locals[pl['l']].get('name') or pl['l'] == 0:
                        p.events.append(('set', pl['l'], val, bi))
                else:
                    # partial assignment: tuple/struct field of a local, or a store through a pointer
                    if pl['p'][0] != 'deref' and all(isinstance(e, dict) and 'field' in e for e in pl['p']) and \
                            pl['l'] in ev.env and ev.env[pl['l']][0] == 'agg' and len(pl['p']) == 1:
                        agg = ev.env[pl['l']]
                        ops = list(agg[2])
                        ix = pl['p'][0]['idx']
                        if ix < len(ops):
                            ops[ix] = val
                            ev.env[pl['l']] = ('agg', agg[1], tuple(ops))
                            continue
                    p.events.append(('store', ev.place(pl), val, bi))
            elif 'set_discr' in st:
                p.events.append(('store', ('discr', ev.place(st['set_discr'])), ('variant', st['variant']), bi))
        t = blk['t']
        nxt = blocks[i + 1] if i + 1 < n else (end[1] if end[0] == 'back' else None)
        if 'call' in t:
            fn = t['call'].get('fn')
            if fn is None and isinstance(t['call'].get('indirect'), dict):
                # a call through a function pointer whose value is, on this path, one function item (`let f: fn(..) = match .. { .. => g, ..}`)
                try:
                    fv = ev.operand({'copy': t['call']['indirect']})
                    while fv[0] == 'cast':
                        fv = fv[2]
                    if fv[0] == 'cfn':
                        fn = fv[1]
                except Exception:
                    pass
            args = tuple(ev.operand(a) for a in t['args'])
            if fn in LEN_FNS and len(args) == 1:
                res = ('len', strip_ref(args[0]))
            elif fn in IS_EMPTY_FNS and len(args) == 1:
                res = ('is_empty', strip_ref(args[0]))
            elif fn and fn.startswith('<core::option::Option<T> as core::ops::FromResidual<') and fn.endswith('::from_residual'):
                res = ('agg', 'core::option::Option::None', ())
            elif fn in ('core::mem::replace', 'core::mem::take', 'core::option::Option::<T>::take', 'core::option::Option::<T>::replace') and args and \
                    args[0][0] == 'ref':
                # the old value is the result, the place gets the new one: a load and a store of the place
                res = args[0][1]
                if fn == 'core::mem::take':
                    newv = ('default',)
                elif fn.endswith('::take'):
                    newv = ('agg', 'core::option::Option::None', ())
                elif fn.endswith('Option::<T>::replace'):
                    newv = ('agg', 'core::option::Option::Some', (args[1],))
                else:
                    newv = args[1]
                p.events.append(('store', args[0][1], newv, bi))
            else:
                res = ('call', fn, args, bi)
                p.events.append(('call', fn, args, bi, tuple(t['call'].get('generic') or ())))
            d = t['dest']
            if not d['p']:
                ev.env[d['l']] = res
                if body.locals[d['l']].get('name') or d['l'] == 0:
                    p.events.append(('set', d['l'], res, bi))
            else:
                p.events.append(('store', ev.place(d), res, bi))
        elif 'assert' in t and str(t.get('msg', '')).startswith('BoundsCheck'):
            # the success edge of a bounds check is a fact on that path (the failing edge panics); separate event kind so that
            # rules iterating over conds are unaffected
            p.events.append(('assert', ev.operand(t['assert']), bool(t.get('expected')), bi))
        elif 'switch' in t and nxt is not None:
            cond = ev.operand(t['switch'])
            labs = [lab for lab, tgt in switch_edges(body, bi) if tgt == nxt]
            lab = labs[0] if len(labs) == 1 else tuple(labs)
            if t.get('variants'):
                scrut = ev.place(t['discr_of'])
                if isinstance(lab, tuple):
                    v = tuple(sorted(str(variant_of_edge(body, bi, l_)) for l_ in lab))
                else:
                    v = variant_of_edge(body, bi, lab)
                scrut, v = untry(scrut, v)
                p.events.append(('cond', ('variant', scrut), v, bi))
            elif t.get('sty') == 'bool':
                p.events.append(('cond', cond, bool_truth(body, bi, lab) if not isinstance(lab, tuple) else None, bi))
            else:
                p.events.append(('cond', cond, lab, bi))
    p.env = ev.env
    return p


def arg_aliases(body):
    """{local: ('loc', a)} for single-definition locals that are plain copies (through further such copies) of an argument that is
    never re-bound: the parameters of a helper spliced into its caller, `let bytes = bytes;` ...  Paths that start at a loop head
    would otherwise see them as unknowns."""
    out = {}
    for i, l in enumerate(body.locals):
        if i <= body.arg_count:
            continue
        j, hops = i, 0
        while hops < 6:
            ds = body.defs.get(j, [])
            if len(ds) != 1 or ds[0][2] != 'assign':
                break
            rv = ds[0][3]['rv']
            if 'use' in rv:
                pl = op_place(rv['use'])
                if pl is None or pl['p']:
                    break
            elif 'ref' in rv and isinstance(rv.get('place'), dict) and rv['place']['p'] == ['deref'] and body.locals[rv['place']['l']]['ty'].startswith('&'):
                pl = rv['place']          # a reborrow `&*r` of a reference is the reference
            else:
                break
            j = pl['l']
            hops += 1
            if 1 <= j <= body.arg_count:
                if not body.defs.get(j):
                    out[i] = ('loc', j)
                break
    return out


def region_paths(body, start, stop=(), env0=None, limit=MAX_PATHS):
    return [summarize(body, blks, end, env0) for blks, end in enumerate_block_paths(body, start, stop, True, limit)]


def loop_heads(body):
    return sorted({h for _, h in body.back_edges()})


def find(e, pred):
    for s in walk(e):
        if pred(s):
            return s
    return None
