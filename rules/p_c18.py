"""C18 — written output is fully determined by the input, never by the buffer's old bytes (structural clauses)."""
from mirlib import *
import t_writeonly, r_handle, r_strsafe, p_c09, p_c10, r_kernel, r_dim, r_utf8enc

MANIFEST = {
    'category': 'other',
    'text': 'Decided over every shipped body in each analysed configuration: (D1) T-WRITEONLY — no element of an output slice/array/str '
            '(the destination, its sub-slices, spare capacity) is ever loaded, and output memory is never handed to a callee as a readable '
            'slice; the only reads are the frozen, reasoned in-place/scrub sites (ensure_utf16_validity; the four &mut str scrub loops that run '
            'after conversion beyond `written`), so no return value and no written unit can be computed from the buffer\'s previous contents; '
            '(D2) a destination position advances only inside write_code_unit (one store, one += 1) or by splitting off exactly the bytes that '
            'are then each stored once (ByteDestination::write_N), and only through linear handles (R-HANDLE); (D3) set_len(old_len + written) '
            'with written being the converter\'s own written component, last, after the capacity assert; (D4) minimally_init is applied only to '
            'spare_capacity_mut() by the String/Vec receivers; (D5) the two wrapper-level places that store output without a handle agree with the '
            'count they report: write_ncr returns exactly the number of contiguous stores it makes for every digit count (shared with C09-D2), and '
            'the BOM-replay helpers hand the remaining input a destination that starts exactly at the count already written and report the sum '
            '(shared with C10-D1 replay rules). (D6, R-KERNEL) the bulk ASCII/Latin1 copy kernels store what they count: every continuing iteration over strides hands the current '
            'source and destination stride (each sub-stride of a double stride with its own twin) to the stride function or stores the '
            'destination stride, every continuing iteration over single units stores the current source unit into the current destination '
            'slot, zipped parts are the same part of slices cut to the same length, and the counter advances by exactly the element width. '
            'That the stride functions themselves (SIMD pack/unpack, array copies) write all 16 units is SIMD/array semantics and trusted. ' 
            '(R-DIM) dimension inference over the index arithmetic of the slice-to-slice converters (no sum or difference mixes a source and a destination quantity; each buffer indexed with its own quantities; (read, written) = (source, destination) quantity; a path that advances the source position and returns has produced output; inside a loop that walks a buffer with a loop-carried position every index into that buffer depends arithmetically on such a position). (R-UTF8ENC) the hand-written UTF-8 to UTF-8 encoder copies the longest prefix that fits and ends on a character boundary: the whole input with (InputEmpty, n, n) when it fits; otherwise the boundary search starts at exactly dst.len(), steps back by one over continuation bytes only, and the cut t is both what is copied (dst[..t] <- src[..t]) and what is reported (OutputFull, t, t). ',
    'note': 'Trusted: rustc MIR, mirx, rule library.',
    'technique': 'information-flow rule (no loads from output memory) over all MIR bodies + handle typestate + set_len shape rules',
}
CONFIGS = {'quick': ['default', 'simd'], 'thorough': ['default', 'simd', 'noalloc', 'fast', 'lessslow']}


def run(rep, facts, tier):
    for c, f in facts.items():
        r_dim.run(rep, f, c)
        nb, n = t_writeonly.run(rep, f, c, 'T-WRITEONLY')
        rep.count('bodies_scanned_for_output_loads:' + c, nb)
        rep.floor('T-WRITEONLY.bodies', 'bodies scanned', nb, 500, c)
        # the rule expects zero unlisted hits: keep its matcher honest by requiring the frozen exception sites to be found
        rep.floor('T-WRITEONLY.exception', 'known in-place / scrub reads matched (positive control)', n, 4 if c != 'noalloc' else 2, c)
        r_handle.run(rep, f, c)
        if c != 'noalloc':
            r_strsafe.set_len(rep, f, c, 'R-STRSAFE.set_len')
            mi = []
            for name, b in sorted(f.bodies.items()):
                r = Resolver(b)
                for bi, t in b.calls():
                    if (b.callee(t) or '').endswith('minimally_init'):
                        a = strip_ref(r.operand(t['args'][0]))
                        ok = a[0] == 'call' and a[1] == 'alloc::vec::Vec::<T, A>::spare_capacity_mut'
                        mi.append(name)
                        rep.ob('C18-D4', name, ok, 'minimally_init is applied to something other than vec.spare_capacity_mut()', sp_str(b.blocks[bi]['tsp']), None, c)
            rep.floor('C18-D4', 'minimally_init call sites', len(mi), 6, c)
        p_c09.write_ncr(rep, f, c)
        r_utf8enc.run(rep, f, c)
        r_kernel.run(rep, f, c, 'R-KERNEL', ['copy'], stride=True)
        for sink in ('utf8', 'utf16'):
            p_c10.helpers(rep, f, c, sink)
    return ('other', MANIFEST['text'], [])
