"""R-REPAIR — mem::ensure_utf16_validity repairs every unpaired surrogate (C14, C15).

The function is a loop `offset += utf16_valid_up_to(&buffer[offset..]); if <at end> return; buffer[offset] = 0xFFFD; offset += 1`.
Clause decided: a returning path out of the loop must have established that the scan position equals the buffer length -- the
comparison between the position and `buffer.len()` on that path is, as a linear form, `pos - len` with no constant offset, taken on
the edge that means "reached" (== true, != false, >= true, < false, and mirrored).  An exit that fires one unit early (`pos + 1 >= len`)
leaves an unpaired surrogate in the last unit.  What the validator accepts is R-SCAN's business; which unit is replaced is
checked as: every non-returning path stores 0xFFFD.
"""
from mirlib import *
from paths import *
from scan import lin, lin_add

FN = 'mem::ensure_utf16_validity'
REACHED = {('Eq', True), ('Ne', False), ('Ge', True), ('Lt', False)}
MIRROR = {'Lt': 'Gt', 'Le': 'Ge', 'Gt': 'Lt', 'Ge': 'Le', 'Eq': 'Eq', 'Ne': 'Ne'}


def run(rep, f, c, rule='R-REPAIR'):
    b = f.body(FN)
    if b is None:
        rep.undecidable(rule, FN, 'not found', None, c)
        return 0
    heads = loop_heads(b)
    n = 0
    r = Resolver(b)
    exp = {}
    for l in range(b.arg_count + 1, len(b.locals)):
        if b.single_def(l) is not None and b.locals[l]['ty'] == 'usize':
            try:
                exp[l] = r.local(l)
            except Exception:
                pass

    def expand(e, depth=0):
        # single-definition usize locals (`let len = buffer.len();`) stand for their definition
        if not isinstance(e, tuple) or not e or depth > 8:
            return e
        if e[0] in ('init', 'loc') and e[1] in exp:
            return expand(exp[e[1]], depth + 1)
        return tuple(expand(x, depth + 1) if isinstance(x, tuple) else x for x in e)
    starts = [0] + list(heads)
    for h in starts:
        ps = region_paths(b, h) if h else [summarize(b, blks, end) for blks, end in enumerate_block_paths(b, 0, stop=heads)]
        for p in ps:
            if p.end[0] != 'return':
                continue
            at = sp_str(b.blocks[p.blocks[-1]]['tsp'])
            ok = False
            seen_cmp = False
            for e in p.conds():
                ce, truth = e[1], e[2]
                if isinstance(ce, tuple) and ce[0] == 'variant' and truth in ('Some', 'None'):
                    # buffer.get(i) / get_mut(i) is None exactly when i >= len
                    sc = ce[1]
                    if isinstance(sc, tuple) and sc[0] == 'call' and (sc[1] or '').startswith('core::slice::<impl [T]>::get') and \
                            (sc[1] or '').rsplit('::', 1)[-1] in ('get', 'get_mut') and len(sc[2]) == 2:
                        ix = expand(sc[2][1])
                        if not (isinstance(ix, tuple) and ix[0] == 'agg'):
                            sl = strip_ref(sc[2][0])
                            while isinstance(sl, tuple) and sl[0] in ('deref', 'ref'):
                                sl = strip_ref(sl[1])
                            ce, truth = ('bin', 'Ge', ix, ('len', sl)), truth == 'None'
                if not (isinstance(ce, tuple) and ce[0] == 'bin' and ce[1] in MIRROR and isinstance(truth, bool)):
                    continue
                try:
                    d = lin_add(lin(expand(ce[2])), lin(expand(ce[3])), -1)
                except Exception:
                    continue
                lens = [(k, v) for k, v in d[0].items() if isinstance(k, tuple) and k and k[0] == 'len']
                if len(lens) != 1 or lens[0][1] not in (1, -1):
                    continue
                seen_cmp = True
                op = ce[1] if lens[0][1] == -1 else MIRROR[ce[1]]       # normalised: pos op len
                if d[1] == 0 and (op, truth) in REACHED:
                    ok = True
            if not seen_cmp:
                continue        # no comparison with the length in a shape the rule reads: not judged (the floor below still demands one judged exit)
            n += 1
            rep.ob(rule + '.exit', FN, ok, 'ensure_utf16_validity returns on a path that has not established `position == buffer.len()` '
                   '(an exit test with a constant offset stops before the last unit(s) are validated / repaired)', at, None, c)
    return n
