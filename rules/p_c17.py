"""C17 — observable behaviour identical across build configurations (table agreement E4 + sibling comparison)."""
import os
from mirlib import *
from ranges import *
from shape import index_from
import factsbuild, r_encclass, r_state, r_effect, r_kernel, scan, r_lane, r_endian
from paths import loop_heads, region_paths

MANIFEST = {
    'category': 'other',
    'text': 'Decided from the tables as rustc const-evaluated them in each configuration, exhaustively over entries: (D1) every configuration '
            '(default, no-default-features, simd-accel, fast-legacy-encode, the three less-slow features; thorough: simd-accel+std and each fast-* '
            'feature alone) type-checks and every cfg-alternative encode helper exists exactly once in it; (D2) the six fast-* encode tables '
            '(BIG5_UNIFIED_IDEOGRAPH_BYTES, JIS0208_KANJI_BYTES, CP949_HANGUL_BYTES, KSX1001_UNIFIED_HANJA_BYTES, KSX1001_COMPATIBILITY_HANJA_BYTES, '
            'GBK_HANZI_BYTES) hold, for every code point of their range, exactly the bytes the Standard\'s encoder prescribes — computed from the '
            'repository\'s copies of the WHATWG indexes (tests/test_data/*_in{,_ref}.txt) with the Standard\'s index-pointer rules (first pointer; '
            'Big5: pointers below (A1-81)*157 excluded, last pointer for U+2550 255E 2561 256A 5341 5345; Shift_JIS: pointers 8272-8835 excluded) '
            '— or the empty marker when unmapped, and the three less-slow tables are strictly sorted and pair each code point with those same '
            'bytes; this is what the default build obtains by searching the decode tables, so the three families of configurations agree on every '
            'table-decided character; (D3) the range-decided character classes of every encoder (constant foldings, unmappable-by-range sets, '
            'ISO-2022-JP state classes) extracted from MIR are identical in default, fast and less-slow builds; the stride kernels of default and '
            'simd-accel have the same signatures, their "may store beyond the reported count" difference is reported and consumed by C05/C15. '
            '(D4) what differs between the default and simd-accel builds at buffer level — the as_chunks iterator kernels (single vs double/quad '
            'strides), the stride functions (ALU all()/tail search vs SIMD masks) — and the scalar automata they hand over to (the built-in '
            'UTF-8 validator that the 64-byte SIMD-validator threshold switches to, convert_utf8_to_utf16_up_to_invalid, utf16_valid_up_to, the '
            'bidi/Latin1 byte automata) are each decided against the same definition in every family (R-KERNEL/R-STRIDE part coverage, order, '
            'position accounting, stride-test coverage; R-SCAN acceptance/all-clear/rejection; R-LANE exact lane sets of the SIMD predicates, see '
            'C14-D5..D7, C16-D6), so the families agree wherever those rules decide. Equality of the arithmetic in alternative function bodies (shift_jis_to_euc_jp etc.) and of the SIMD '
            'pack/unpack/swizzle lane arithmetic is numerical and not decided. ' 
            '(D5) the constant sub-slices of the decode tables that the default / less-slow builds search (data::position over &TABLE[lo..hi]) are extracted '
            'from MIR, the table is located in its WHATWG index by its contents, and every pointer of every segment must hold the BMP code point its '
            'table value denotes (a segment that reaches into supplementary-plane or multi-code-point entries would make an unrelated character '
            'encodable in that configuration only; completeness of the segments is exercised by the existing all-pointer tests and not decided here). '
            '(R-ENDIAN) every code unit the UTF-16LE/BE decoders read from the unaligned byte source (UnalignedU16Slice::at / simd_at) reaches its uses only through the endianness adapter: swap_if_opposite_endian, or simd_byte_swap / swap_bytes on the E::OPPOSITE_ENDIAN branch and unswapped on the other (every region path of every reading body). (R-SURR, kernel) the cfg-selected alternatives of UnalignedU16Slice::copy_bmp_to stop at exactly D800-DFFF in every configuration. (C17-D5.astral) in the configurations that scan BIG5_LOW_BITS element-wise, a returning path on which BIG5_LOW_BITS[i] == x holds has tested big5_is_astral(i) at the same index (the table keeps only the low 16 bits).',
    'note': 'Trusted: rustc const evaluation, mirx, rule library, tests/test_data/*_in.txt + *_in_ref.txt as copies of the WHATWG indexes, the Standard\'s index-pointer rules as transcribed here.',
    'technique': 'exhaustive data-vs-data agreement over const-evaluated statics per feature configuration + sibling comparison of extracted classes + per-family must-pass-through / accounting rules on the iterator kernels and abstract interpretation of the scalar automata',
}
CONFIGS = {'quick': ['default', 'fast', 'lessslow', 'simd', 'noalloc'],
           'thorough': ['default', 'fast', 'lessslow', 'simd', 'noalloc', 'simdstd', 'fast-hangul', 'fast-hanja', 'fast-kanji', 'fast-gb', 'fast-big5']}


def load_index(name):
    """[code point or None] per pointer, from the repository's generated copies of the WHATWG index."""
    d = os.path.join(factsbuild.REPO, 'tests', 'test_data')
    ref = open(os.path.join(d, name + '_in_ref.txt'), encoding='utf-8', errors='surrogateescape').read().split('\n')
    raw = open(os.path.join(d, name + '_in.txt'), 'rb').read().split(b'\n')
    ref, raw = ref[4:], raw[4:]
    while ref and ref[-1] == '':
        ref.pop()
    while raw and raw[-1] == b'':
        raw.pop()
    out = []
    for line in ref:
        if line == '�' or line == '':
            out.append(None)
        else:
            out.append(tuple(ord(ch) for ch in line))
    return out, raw


def first_pointers(index, exclude=lambda p: False):
    m = {}
    last = {}
    for p, cp in enumerate(index):
        if cp is None or len(cp) != 1 or exclude(p):
            continue
        m.setdefault(cp[0], p)
        last[cp[0]] = p
    return m, last


def table_pairs(f, name):
    st = f.statics.get(name)
    if st is None:
        return None
    raw = bytes.fromhex(st['alloc']['bytes'])
    return [(raw[i], raw[i + 1]) for i in range(0, len(raw), 2)]


def table_u16(f, name):
    st = f.statics.get(name)
    if st is None:
        return None
    raw = bytes.fromhex(st['alloc']['bytes'])
    return [raw[i] | (raw[i + 1] << 8) for i in range(0, len(raw), 2)]


def big5_bytes(p):
    lead, trail = p // 157 + 0x81, p % 157
    return lead, trail + (0x40 if trail < 0x3F else 0x62)


def sjis_bytes(p):
    lead, trail = p // 188, p % 188
    return lead + (0x81 if lead < 0x1F else 0xC1), trail + (0x40 if trail < 0x3F else 0x41)


def euckr_bytes(p):
    return p // 190 + 0x81, p % 190 + 0x41


def gbk_bytes(p):
    lead, trail = p // 190 + 0x81, p % 190
    return lead, trail + (0x40 if trail < 0x3F else 0x41)


BIG5_LAST = (0x2550, 0x255E, 0x2561, 0x256A, 0x5341, 0x5345)


def oracles():
    o = {}
    big5, _ = load_index('big5')
    fp, lp = first_pointers(big5, lambda p: p < (0xA1 - 0x81) * 157)
    o['big5'] = lambda c: (lp[c] if c in BIG5_LAST else fp[c]) if c in fp else None
    o['big5_len'] = len(big5)
    jis, _ = load_index('shift_jis')        # the full index jis0208 (11280 pointers), in pointer order
    fpj, _ = first_pointers(jis, lambda p: 8272 <= p <= 8835)
    o['sjis'] = lambda c: fpj.get(c)
    o['jis_len'] = len(jis)
    kr, _ = load_index('euc_kr')
    fpk, _ = first_pointers(kr)
    o['euckr'] = lambda c: fpk.get(c)
    o['kr_len'] = len(kr)
    gb, _ = load_index('gb18030')
    fpg, _ = first_pointers(gb)
    o['gb'] = lambda c: fpg.get(c)
    o['gb_len'] = len(gb)
    return o


def compare(rep, c, rule, name, table, start, expect, at, interp=lambda pair, cp: pair):
    if table is None:
        rep.undecidable(rule, name, 'table not present in this configuration', None, c)
        return
    bad = []
    mapped = 0
    for i, pair in enumerate(table):
        cp = start + i
        want = expect(cp)
        got = interp(pair, cp)
        if want is None:
            if pair != (0, 0):
                bad.append((cp, pair, None))
        else:
            mapped += 1
            if got != want:
                bad.append((cp, got, want))
    rep.count('table_entries:%s:%s' % (c, name), len(table))
    rep.ob(rule, name, not bad and mapped > 0,
           '%d entr%s differ from the Standard\'s encoder (first: U+%04X holds %s, expected %s)' % (
               len(bad), 'y' if len(bad) == 1 else 'ies', bad[0][0] if bad else 0,
               '%02X %02X' % bad[0][1] if bad and bad[0][1] else None, ('%02X %02X' % bad[0][2]) if bad and bad[0][2] else 'unmapped (00 00)'),
           at, {'entries': len(table), 'mapped': mapped}, c)


def fast_tables(rep, f, c, o):
    rule = 'C17-D2.fast'

    def at(n):
        return sp_str(f.statics[n]['span']) if n in f.statics else None
    n = 'data::BIG5_UNIFIED_IDEOGRAPH_BYTES'
    compare(rep, c, rule, n, table_pairs(f, n), 0x4E00, lambda cp: big5_bytes(o['big5'](cp)) if o['big5'](cp) is not None else None, at(n))
    n = 'data::CP949_HANGUL_BYTES'
    compare(rep, c, rule, n, table_pairs(f, n), 0xAC00, lambda cp: euckr_bytes(o['euckr'](cp)) if o['euckr'](cp) is not None else None, at(n))
    n = 'data::KSX1001_UNIFIED_HANJA_BYTES'
    compare(rep, c, rule, n, table_pairs(f, n), 0x4E00, lambda cp: euckr_bytes(o['euckr'](cp)) if o['euckr'](cp) is not None else None, at(n))
    n = 'data::KSX1001_COMPATIBILITY_HANJA_BYTES'
    compare(rep, c, rule, n, table_pairs(f, n), 0xF900, lambda cp: euckr_bytes(o['euckr'](cp)) if o['euckr'](cp) is not None else None, at(n))
    n = 'data::GBK_HANZI_BYTES'
    compare(rep, c, rule, n, table_pairs(f, n), 0x4E00, lambda cp: gbk_bytes(o['gb'](cp)) if o['gb'](cp) is not None else None, at(n))
    # JIS0208_KANJI_BYTES: Shift_JIS form; the lead's high bit is cleared for IBM kanji (flag read from the accessors)
    n = 'data::JIS0208_KANJI_BYTES'
    ibm = set(table_u16(f, 'data::IBM_KANJI') or [])
    compare(rep, c, rule, n, table_pairs(f, n), 0x4E00, lambda cp: sjis_bytes(o['sjis'](cp)) if o['sjis'](cp) is not None else None, at(n),
            interp=lambda pair, cp: (pair[0] | 0x80, pair[1]))
    tb = table_pairs(f, n)
    if tb is not None:
        badflag = [0x4E00 + i for i, p in enumerate(tb) if p != (0, 0) and ((p[0] & 0x80 == 0) != ((0x4E00 + i) in ibm and o['sjis'](0x4E00 + i) is not None and o['sjis'](0x4E00 + i) >= 10716))]
        rep.ob(rule + '.ibm-flag', n, not badflag, 'IBM-kanji flag (lead high bit clear) wrong for %s' % ['U+%04X' % x for x in badflag[:4]], at(n), {'ibm_kanji': len(ibm)}, c)


def lessslow_tables(rep, f, c, o):
    rule = 'C17-D2.lessslow'
    for cps, byts, want, what in (
        ('data::BIG5_LEVEL1_HANZI_CODE_POINTS', 'data::BIG5_LEVEL1_HANZI_BYTES', lambda cp: big5_bytes(o['big5'](cp)) if o['big5'](cp) is not None else None, 'Big5'),
        ('data::JIS0208_LEVEL1_KANJI_CODE_POINTS', 'data::JIS0208_LEVEL1_KANJI_SHIFT_JIS_BYTES', lambda cp: sjis_bytes(o['sjis'](cp)) if o['sjis'](cp) is not None else None, 'Shift_JIS'),
        ('data::GB2312_LEVEL1_HANZI_CODE_POINTS', 'data::GB2312_LEVEL1_HANZI_BYTES', lambda cp: gbk_bytes(o['gb'](cp)) if o['gb'](cp) is not None else None, 'GBK'),
    ):
        cp_t, by_t = table_u16(f, cps), table_pairs(f, byts)
        if cp_t is None or by_t is None:
            rep.undecidable(rule, cps, 'table not present in this configuration', None, c)
            continue
        at = sp_str(f.statics[cps]['span'])
        rep.ob(rule + '.len', cps, len(cp_t) == len(by_t), 'code-point and byte tables differ in length (%d vs %d)' % (len(cp_t), len(by_t)), at, None, c)
        uns = [i for i in range(1, len(cp_t)) if not cp_t[i - 1] < cp_t[i]]
        rep.ob(rule + '.sorted', cps, not uns, 'not strictly increasing at index %s (binary search would miss entries)' % uns[:3], at, {'entries': len(cp_t)}, c)
        bad = [(cp, b_, want(cp)) for cp, b_ in zip(cp_t, by_t) if want(cp) != b_]
        rep.count('table_entries:%s:%s' % (c, cps), len(cp_t))
        rep.ob(rule + '.bytes', byts, not bad, '%d entries differ from the Standard\'s %s encoder (first: U+%04X holds %s, expected %s)' % (
            len(bad), what, bad[0][0] if bad else 0, bad[0][1] if bad else None, bad[0][2] if bad else None), sp_str(f.statics[byts]['span']), {'entries': len(by_t)}, c)
        # the code points are exactly the level-1 block of the decode-side table (what the default build searches)
        lvl1 = {'Big5': None, 'Shift_JIS': 'data::JIS0208_LEVEL1_KANJI', 'GBK': 'data::GB2312_HANZI'}[what]
        if lvl1:
            dec = table_u16(f, lvl1)
            if dec is not None:
                dec = dec[:len(cp_t)]
                rep.ob(rule + '.same-set', cps, sorted(dec) == cp_t, 'code points are not the same set as the first %d entries of %s' % (len(cp_t), lvl1), at, None, c)


ALTERNATIVES = ['data::big5_level1_hanzi_encode', 'data::gb2312_level1_hanzi_encode', 'data::jis0208_level1_kanji_shift_jis_encode']


def class_profile(f):
    prof = {}
    for ty in r_encclass.EXPECT:
        for src in ('utf8', 'utf16'):
            b = f.body('%s::encode_from_%s_raw' % (ty, src))
            if b is None:
                continue
            res = r_encclass.bmp_classes(f, b)
            if res is None:
                continue
            cl, mixed, gates = res
            prof['%s:%s' % (ty, src)] = {k: repr(v) for k, v in cl.items() if k.startswith('one:') or (k.startswith('two:') and k != 'two:*,*')}
    for src in ('utf8', 'utf16'):
        b = f.body('iso_2022_jp::Iso2022JpEncoder::encode_from_%s_raw' % src)
        if b is not None:
            res = r_state.classes(f, b, loop_heads(b))
            if res:
                cl, ra = res
                prof['iso_2022_jp:%s' % src] = {'%s:%s' % (st, k): repr(v) for st, d in cl.items() for k, v in d.items()
                                                if k.startswith(('to:', 'one:', 'unmappable:FFFD')) and st in ('Ascii', 'Roman')}
    return prof


INDEX_FILES = {'big5': 'big5', 'jis0208': 'shift_jis', 'euc-kr': 'euc_kr', 'gb18030': 'gb18030'}
_IDX_CACHE = {}


def indexes():
    if not _IDX_CACHE:
        for k, fnm in INDEX_FILES.items():
            _IDX_CACHE[k] = load_index(fnm)[0]
    return _IDX_CACHE


def align(table):
    """[(index name, offset)] such that table[i] is the low 16 bits of index[offset + i] for every i (an unmapped pointer may be 0
    in the table): where in which WHATWG index this decode table sits, found from its contents"""
    out = []
    n = len(table)
    nz = [(i, v) for i, v in enumerate(table) if v][:6]
    if len(nz) < 3:
        return out
    for k, idx in indexes().items():
        low = [(e[0] & 0xFFFF) if e is not None and len(e) == 1 else (None if e is None else -1) for e in idx]
        i0, v0 = nz[0]
        for p0 in [p_ for p_, lv in enumerate(low) if lv == v0]:
            off = p0 - i0
            if off < 0 or off + n > len(low):
                continue
            if all(low[off + i] == v for i, v in nz) and all((low[off + i] == table[i]) or (low[off + i] is None and table[i] == 0) or low[off + i] == -1
                                                            for i in range(n)):
                out.append((k, off))
    return out


def search_segments(rep, f, c):
    """C17-D5: the default build encodes by searching the decode tables segment by segment (data::position over a constant
    sub-slice).  A segment may only contain pointers whose index entry is the BMP code point that is searched for: a pointer whose
    entry is a supplementary-plane character (the table keeps its low 16 bits) or a sequence would make an unrelated BMP character
    encodable in this configuration only.  Segments and their tables are extracted from MIR; where a table sits in which index is
    found from its contents."""
    n = 0
    aligned = {}
    for name, b in sorted(f.bodies.items()):
        r = None
        for bi, t in b.calls():
            if (b.callee(t) or '') != 'data::position':
                continue
            r = r or Resolver(b)
            a0 = r.operand(t['args'][0])
            ix = index_from(a0)
            if ix is None:
                # the whole table: &T[..]
                e_ = strip_ref(a0)
                while e_[0] in ('deref', 'ref'):
                    e_ = strip_ref(e_[1])
                if e_[0] == 'call' and 'index' in (e_[1] or '').rsplit('::', 1)[-1] and len(e_[2]) == 2 and e_[2][1][0] == 'agg' and e_[2][1][1].endswith('RangeFull::RangeFull'):
                    b_ = strip_ref(e_[2][0])
                    while b_[0] in ('deref', 'ref'):
                        b_ = strip_ref(b_[1])
                    ix = (b_, ('c', 0, 'usize'))
                else:
                    continue
            base = ix[0]
            if not (base[0] == 'cptr' and '"static"' in base[1]):
                continue
            import json as _json
            tname = _json.loads(base[1]).get('static')
            tab = table_u16(f, tname)
            if tab is None:
                continue

            def const(e):
                if e[0] == 'c':
                    return e[1]
                if e[0] == 'bin' and e[1] in ('Add', 'Sub', 'Mul'):
                    x, y = const(e[2]), const(e[3])
                    if x is None or y is None:
                        return None
                    return x + y if e[1] == 'Add' else x - y if e[1] == 'Sub' else x * y
                return None
            lo = const(ix[1])
            hi = const(ix[2]) if len(ix) == 3 else len(tab)
            if lo is None or hi is None or not 0 <= lo <= hi <= len(tab):
                continue
            if tname not in aligned:
                aligned[tname] = align(tab)
            al = aligned[tname]
            if len(al) != 1:
                continue
            k, off = al[0]
            idx = indexes()[k]
            n += 1
            bad = []
            seen = set()
            for i in range(lo, hi):
                v = tab[i]
                if v == 0 or v in seen:
                    continue
                seen.add(v)
                e = idx[off + i]
                if e is None or len(e) != 1 or e[0] != v:
                    bad.append('pointer %d (U+%s) would be found for U+%04X' % (off + i, '+'.join('%04X' % x for x in e) if e else 'none', v))
            rep.ob('C17-D5.segment', '%s:%s[%d..%d]' % (name, tname.rsplit('::', 1)[-1], lo, hi), not bad,
                   'the searched segment of %s (index %s, pointers %d..%d) contains entries that are not the BMP code point their table value denotes: %s'
                   % (tname, k, off + lo, off + hi, '; '.join(bad[:3])), sp_str(b.blocks[bi]['tsp']), {'index': k, 'pointers': [off + lo, off + hi]}, c)
    return n


def astral_filter(rep, f, c):
    """C17-D5.astral: BIG5_LOW_BITS keeps only the low 16 bits of each index entry, so an element-wise match `BIG5_LOW_BITS[i] == x`
    identifies a code point only together with big5_is_astral(i).  Every returning path on which such a match holds must also have
    tested big5_is_astral at the same index (the default build's tail scans; the fast-big5 build has a table instead)."""
    import os
    n = 0
    for name, b in sorted(f.bodies.items()):
        if not name.startswith('data::'):
            continue
        heads = loop_heads(b)
        if not heads:
            continue
        for h in heads:
            for p in region_paths(b, h):
                if p.end[0] != 'return':
                    continue
                rv = p.env.get(0)
                if rv is None or not any(isinstance(x, tuple) and x and x[0] == 'agg' and str(x[1]).endswith('Some') for x in walk(rv)):
                    continue
                for e in p.conds():
                    ce = e[1]
                    if not (isinstance(ce, tuple) and ce[0] == 'bin' and ce[1] == 'Eq' and e[2] is True):
                        continue
                    idxs = [x for x in walk(ce) if isinstance(x, tuple) and x and x[0] == 'idx' and any(isinstance(y, tuple) and y and y[0] == 'cptr' and 'BIG5_LOW_BITS' in str(y[1]) for y in walk(x[1]))]
                    if not idxs:
                        continue
                    I = strip_ref(idxs[0][2])
                    tested = any(isinstance(x, tuple) and x and x[0] == 'call' and (x[1] or '').endswith('big5_is_astral') and strip_ref(x[2][0]) == I
                                 for e2 in p.conds() for x in walk(e2[1]))
                    n += 1
                    rep.ob('C17-D5.astral', name, tested, 'a match of BIG5_LOW_BITS[i] (low 16 bits only) is returned as a pointer on a path that never tests '
                           'big5_is_astral(i): an unrelated BMP character becomes encodable as a supplementary-plane pointer in this configuration only',
                           sp_str(b.blocks[e[3]]['tsp']), None, c)
    return n


def run(rep, facts, tier):
    o = oracles()
    rep.analysed['index_sizes'] = {k: v for k, v in o.items() if k.endswith('_len')}
    rep.ob('C17.oracle', 'index copies', o['big5_len'] == 126 * 157 and o['jis_len'] == 60 * 188 and o['kr_len'] == 126 * 190 and o['gb_len'] == 126 * 190,
           'index copies under tests/test_data do not have the Standard\'s pointer counts: %r' % rep.analysed['index_sizes'], None, rep.analysed['index_sizes'], 'oracle')
    base = class_profile(facts['default']) if 'default' in facts else None
    for c, f in facts.items():
        rep.ob('C17-D1.compiles', c, True, '', None, {'bodies': len(f.bodies)}, c)
        for alt in ALTERNATIVES:
            if (c == 'fast' or c in ('fast-gb', 'fast-kanji')) and alt != 'data::big5_level1_hanzi_encode':
                if not (c == 'fast-gb' and 'jis0208' in alt) and not (c == 'fast-kanji' and 'gb2312' in alt):
                    continue      # replaced by the direct table accessor in this configuration
            rep.ob('C17-D1.alternative', alt, f.body(alt) is not None, 'cfg-alternative helper %s does not exist in configuration %s' % (alt, c), None, None, c)
        if c == 'fast' or c.startswith('fast-'):
            if c == 'fast':
                fast_tables(rep, f, c, o)
            else:
                # a single fast-* feature: whichever of the six tables exist must still agree
                present = [n for n in ('data::BIG5_UNIFIED_IDEOGRAPH_BYTES', 'data::CP949_HANGUL_BYTES', 'data::KSX1001_UNIFIED_HANJA_BYTES', 'data::GBK_HANZI_BYTES', 'data::JIS0208_KANJI_BYTES') if n in f.statics]
                rep.ob('C17-D1.single-feature', c, len(present) >= 1, 'no fast table present', None, {'tables': present}, c)
        if c == 'lessslow':
            lessslow_tables(rep, f, c, o)
        if c in ('default', 'lessslow', 'fast', 'noalloc'):
            nseg = search_segments(rep, f, c)
            na = astral_filter(rep, f, c)
            if c in ('default', 'noalloc'):
                rep.floor('C17-D5.astral', 'element-wise BIG5_LOW_BITS matches returned as pointers', na, 1, c)
            rep.floor('C17-D5.segment', 'constant search segments over index-aligned decode tables', nseg, {'default': 16, 'noalloc': 16, 'lessslow': 12, 'fast': 11}[c], c)
        if base is not None and c in ('fast', 'lessslow', 'simd', 'noalloc'):
            prof = class_profile(f)
            for k in sorted(base):
                rep.ob('C17-D3.classes', k, prof.get(k) == base[k],
                       'range-decided character classes differ between default and %s: %r vs %r' % (c, {x: y for x, y in base[k].items() if prof.get(k, {}).get(x) != y},
                                                                                                       {x: y for x, y in prof.get(k, {}).items() if base[k].get(x) != y}),
                       None, {'classes': len(base[k])}, c)
    # D4: the buffer-level machinery that differs between the default and the simd-accel build (iterator kernels, stride functions) and
    # the scalar automata that the SIMD UTF-8 validator / stride kernels hand over to are decided by the same rules in each family
    for c, f in facts.items():
        if c in ('default', 'simd', 'simdstd', 'noalloc'):
            r_kernel.run(rep, f, c, 'R-KERNEL', ['validate', 'copy', 'classify'])
            r_endian.run(rep, f, c)
            if c.startswith('simd'):
                r_lane.run(rep, f, c)
            # the cfg-selected alternatives of the UTF-16 fast-path kernel (UnalignedU16Slice::copy_bmp_to: iterator loop in the default
            # build, SIMD stride + scalar tail under simd-accel) must stop at exactly the surrogate class in every configuration
            import r_surr
            ns = r_surr.run(rep, f, c, 'R-SURR', lambda nm: nm.startswith('handles::UnalignedU16Slice'))
            rep.floor('R-SURR', 'surrogate-class tests in the cfg-selected UTF-16 copy kernel', ns, 1, c)
            scan.run_specs(rep, f, c, 'R-SCAN', ['utf_8::utf8_valid_up_to', 'utf_8::convert_utf8_to_utf16_up_to_invalid', 'mem::utf16_valid_up_to',
                                                 'mem::is_utf8_bidi', 'mem::is_str_bidi', 'mem::is_utf8_latin1_impl'])
    if 'default' in facts and 'simd' in facts:
        d, s = facts['default'], facts['simd']
        for k in ('ascii_to_ascii_stride', 'ascii_to_basic_latin_stride', 'basic_latin_to_ascii_stride'):
            bd = d.body('ascii::' + k)
            bs = s.body('simd_funcs::' + k)
            ok = bd is not None and bs is not None and [l['ty'] for l in bd.locals[:bd.arg_count + 1]] == [l['ty'] for l in bs.locals[:bs.arg_count + 1]]
            rep.ob('C17-D3.kernels', k, ok, 'default and simd-accel stride kernels differ in signature', None, None, 'default+simd')
        rep.analysed['kernels_storing_beyond_reported_count'] = {'default': sorted(r_effect.seeds(d)), 'simd': sorted(r_effect.seeds(s))}
    return ('other', MANIFEST['text'], [])
