"""R-STATE — ISO-2022-JP encoder: state and bytes move together (DESIGN.md §5), plus exact extraction of the
character classes each encoder state distinguishes (C03-D2/D5)."""
from mirlib import *
from paths import *
from shape import *
from ranges import *

ESC = {'Ascii': (0x28, 0x42), 'Roman': (0x28, 0x4A), 'Jis0208': (0x24, 0x42)}      # Encoding Standard §12.2.2
SELF = ('loc', 1)
STATE = ('fld', ('deref', SELF), 'state')
CHAR = ISet.of((0, 0xD7FF), (0xE000, 0x10FFFF))


def state_of(p):
    st = [e for e in p.conds() if e[1][0] == 'variant' and e[1][1] == STATE]
    if not st:
        return None
    v = st[0][2]
    return v


def esc_calls(p):
    out = []
    for e in p.calls():
        fn = e[1] or ''
        if fn.endswith('::write_three') or fn.endswith('::write_three_return_written'):
            out.append(tuple(a[1] if a[0] == 'c' else None for a in e[2][1:4]))
    return out


def pairing(rep, f, c, rule):
    n = 0
    for src in ('utf8', 'utf16'):
        fn = 'iso_2022_jp::Iso2022JpEncoder::encode_from_%s_raw' % src
        b = f.body(fn)
        if b is None:
            rep.undecidable(rule, fn, 'function not found', None, c)
            continue
        site = sp_str(b.raw['span'])
        heads = loop_heads(b)
        if not heads:
            rep.undecidable(rule, fn, 'no loop', site, c)
            continue
        H = heads[0]
        try:
            ps = [p for p in region_paths(b, H) if p.end[0] != 'diverge']
        except OverflowError as e:
            rep.undecidable(rule, fn, str(e), site, c)
            continue
        rep.count('paths:' + fn, len(ps))
        ok = {k: True for k in ('pair', 'unread', 'unmappable-reset', 'charset', 'eof')}
        why = {}
        seen_eof = set()
        for p in ps:
            at = sp_str(b.blocks[p.blocks[-1]]['tsp'])
            stores = [variant_name(e[2]) for e in p.stores() if e[1] == STATE]
            escs = esc_calls(p)
            reads = [e for e in p.calls() if (e[1] or '').endswith('ReadHandle::read')]
            unreads = [e for e in p.calls() if (e[1] or '').endswith('UnreadHandle::unread')]
            rv = p.env.get(0) if p.end[0] == 'return' else None
            status = variant_name(rv[2][0]) if rv is not None and rv[0] == 'agg' and rv[1] == 'tuple' else None
            cur = state_of(p)
            n += 1
            # (1) a state change and its escape sequence travel together, exactly once
            if len(stores) != len(escs) or len(stores) > 1 or any(e[0] != 0x1B for e in escs) or \
                    any(ESC.get(s) != e[1:] for s, e in zip(stores, escs)):
                ok['pair'] = False
                why['pair'] = 'state stores %r vs escape sequences %r at %s' % (stores, [tuple('%02X' % x if x is not None else '?' for x in e) for e in escs], at)
            if not reads:
                # end-of-input region
                lastc = [e for e in p.conds() if e[1] == ('loc', 4)]
                if lastc and lastc[0][2] is True:
                    if cur == 'Ascii' or (isinstance(cur, tuple) and 'Ascii' in cur):
                        seen_eof.add('ascii')
                        if stores or escs:
                            ok['eof'] = False
                            why['eof'] = 'end of stream in the ASCII state must not emit anything'
                    elif status == 'OutputFull':
                        seen_eof.add('full')
                        if stores:
                            ok['eof'] = False
                            why['eof'] = 'OutputFull at end of stream must leave the state unchanged'
                    elif status == 'InputEmpty':
                        seen_eof.add('reset')
                        if stores != ['Ascii']:
                            ok['eof'] = False
                            why['eof'] = 'the stream must return to the ASCII state (ESC ( B) at the end when it is not there already'
                else:
                    if stores or escs:
                        ok['eof'] = False
                        why['eof'] = 'state changed without a character having been read and without end of stream'
                continue
            writes1 = [e for e in p.calls() if (e[1] or '').endswith('::write_one')]
            writes2 = [e for e in p.calls() if (e[1] or '').endswith('::write_two')]
            if stores:
                if status == 'Unmappable':
                    # (3) reporting Unmappable from the two-byte state: back to ASCII first so that the caller's NCR is legal
                    if stores != ['Ascii'] or cur != 'Jis0208':
                        ok['unmappable-reset'] = False
                        why['unmappable-reset'] = 'Unmappable with a state change that is not Jis0208 -> Ascii at %s' % at
                elif p.end[0] == 'back':
                    # (2) the character that triggered the transition is re-read in the new state
                    if len(unreads) != 1 or writes1 or writes2:
                        ok['unread'] = False
                        why['unread'] = 'a state transition must push the character back (unread) and write nothing else, at %s' % at
                else:
                    ok['pair'] = False
                    why['pair'] = 'state change on a path that neither continues nor reports Unmappable at %s' % at
            else:
                if status == 'Unmappable' and cur == 'Jis0208':
                    ok['unmappable-reset'] = False
                    why['unmappable-reset'] = 'Unmappable is reported from the Jis0208 state without returning to ASCII (the numeric character reference would be written inside the two-byte state) at %s' % at
                # (4) only bytes legal in the current state
                if cur in ('Ascii', 'Roman') and writes2:
                    ok['charset'] = False
                    why['charset'] = 'two-byte write in the %s state' % cur
                if cur == 'Jis0208' and writes1:
                    ok['charset'] = False
                    why['charset'] = 'single-byte write in the Jis0208 state'
                if unreads and p.end[0] == 'back' and not (writes1 or writes2 or escs):
                    ok['unread'] = False
                    why['unread'] = 'a character is pushed back without any output: the loop would spin'
        for k in ok:
            rep.ob(rule + '.' + k, fn, ok[k], why.get(k, ''), site, {'paths': len(ps)}, c)
        rep.ob(rule + '.eof-cases', fn, seen_eof == {'ascii', 'full', 'reset'}, 'end-of-stream cases %r incomplete' % sorted(seen_eof), site, None, c)
    rep.floor(rule, 'encoder loop paths', n, 80, c)
    # has_pending_state() == (state != Ascii); new() starts in Ascii
    hb = f.body('iso_2022_jp::Iso2022JpEncoder::has_pending_state')
    adt = f.adts.get('iso_2022_jp::Iso2022JpEncoderState')
    if hb is None or adt is None:
        rep.undecidable(rule + '.pending', 'has_pending_state', 'not found', None, c)
    else:
        discr = {v['discr']: v['name'] for v in adt['variants']}
        D = ISet.of(*sorted(discr))
        ra = RangeAnalysis(f, hb, {('discr', STATE)}, 64, D, N=max(discr) + 1)
        ts, fs, us = ra.return_value().truth_set()
        got = {discr[i] for lo, hi in (ts & D).iv for i in range(lo, hi + 1)}
        rep.ob(rule + '.pending', 'iso_2022_jp::Iso2022JpEncoder::has_pending_state', not ra.mixed and got == set(discr.values()) - {'Ascii'} and not (us & D),
               'has_pending_state() is true for %r; must be exactly the non-ASCII states' % sorted(got), sp_str(hb.raw['span']), {'true_states': sorted(got)}, c)
        rep.ob(rule + '.states', 'iso_2022_jp::Iso2022JpEncoderState', set(discr.values()) == set(ESC), 'encoder states %r differ from the Standard\'s ASCII/Roman/jis0208' % sorted(discr.values()), None, None, c)
    nb = f.body('iso_2022_jp::Iso2022JpEncoder::new')
    if nb is not None:
        r = Resolver(nb)
        init = None
        for blk in nb.blocks:
            for st in blk['s']:
                if 'assign' in st and 'aggregate' in st['rv'] and isinstance(st['rv']['aggregate'], dict) and st['rv']['aggregate'].get('adt') == 'iso_2022_jp::Iso2022JpEncoder':
                    init = variant_name(r.operand(st['rv']['ops'][0]))
        rep.ob(rule + '.initial', 'iso_2022_jp::Iso2022JpEncoder::new', init == 'Ascii', 'encoder does not start in the ASCII state', sp_str(nb.raw['span']), {'initial': init}, c)
    # VariantEncoder::has_pending_state: only the ISO-2022-JP arm can answer true
    vb = f.body('variant::VariantEncoder::has_pending_state')
    if vb is not None:
        r = Resolver(vb)
        calls = [vb.callee(t) for bi, t in vb.calls()]
        consts = [c_ for bi, c_ in [(d[0], op_int(d[3]['rv']['use'])) for d in vb.defs.get(0, []) if d[2] == 'assign' and 'use' in d[3]['rv']]]
        rep.ob(rule + '.variant-pending', 'variant::VariantEncoder::has_pending_state', calls == ['iso_2022_jp::Iso2022JpEncoder::has_pending_state'] and consts == [0],
               'VariantEncoder::has_pending_state is not: ISO-2022-JP -> its encoder, everything else -> false', sp_str(vb.raw['span']), None, c)


def classes(f, b, heads):
    """Per encoder state: {outcome: ISet of scalar values that may reach it}.  The character is component 0 of the read() result."""
    reads = [(bi, t) for bi, t in b.calls() if (b.callee(t) or '').endswith('ReadHandle::read')]
    if len(reads) != 1:
        return None
    rbi, rt = reads[0]
    r = Resolver(b)
    xkey = ('fld', r.local(rt['dest']['l']), '0')
    xk2 = {xkey, ('cast', 'IntToInt', xkey, 'u32')}
    ra = RangeAnalysis(f, b, xk2, 32, CHAR, entries=[rt['target']], stop=set(heads), opaque_ok=True, N=0x110000)
    out = {}
    for bi, blk in enumerate(b.blocks):
        reach = ra.reach_of(bi) & CHAR
        if not reach:
            continue
        conds = block_conditions(b, bi, r)
        st = [v for k, e, v, S in conds if k == 'variant' and e == STATE]
        if len(st) != 1:
            continue
        arm = out.setdefault(st[0], {})
        if 'call' in blk['t'] and (b.callee(blk['t']) or '').endswith('::write_two'):
            arm['two:definite'] = arm.get('two:definite', ISet()) | (ra.exact_of(bi) & CHAR)
        for s_ in blk['s']:
            if 'assign' in s_ and 'aggregate' in s_['rv'] and isinstance(s_['rv']['aggregate'], dict) and s_['rv']['aggregate'].get('variant') == 'Unmappable':
                pay = r.operand(s_['rv']['ops'][0])
                kind = 'unmappable:FFFD' if pay == ('c', 0xFFFD, 'char') else ('unmappable:c' if pay == xkey else 'unmappable:?')
                arm[kind] = arm.get(kind, ISet()) | reach
            if 'assign' in s_ and s_['assign']['p'] and s_['assign']['p'][0] == 'deref' and Resolver(b).place(s_['assign']) == STATE:
                k2 = 'to:' + (variant_name(r.rvalue(s_['rv'])) or '?')
                arm[k2] = arm.get(k2, ISet()) | reach
        t = blk['t']
        if 'call' in t:
            fn = b.callee(t) or ''
            if fn.endswith('::write_one'):
                a = r.operand(t['args'][1])
                kind = 'one:%02X' % a[1] if a[0] == 'c' else ('one:c' if cast_inner(a) == xkey else 'one:?')
                arm[kind] = arm.get(kind, ISet()) | reach
    return out, ra


def char_classes(rep, f, c, rule):
    A5_203E = ISet.of(0xA5, 0x203E)
    FORBIDDEN = ISet.of(0x0E, 0x0F, 0x1B)
    ASTRAL = ISet.of((0x10000, 0x10FFFF))
    for src in ('utf8', 'utf16'):
        fn = 'iso_2022_jp::Iso2022JpEncoder::encode_from_%s_raw' % src
        b = f.body(fn)
        if b is None:
            rep.undecidable(rule, fn, 'not found', None, c)
            continue
        site = sp_str(b.raw['span'])
        res = classes(f, b, loop_heads(b))
        if res is None:
            rep.undecidable(rule, fn, 'character read site not unique', site, c)
            continue
        cl, ra = res
        if ra.mixed:
            rep.undecidable(rule, fn, 'classification not decidable: %r' % ra.mixed[:1], site, c)
            continue

        def chk(state, kind, want, what):
            got = cl.get(state, {}).get(kind, ISet())
            rep.ob(rule, '%s:%s:%s' % (fn, state, kind), got == want, '%s: implementation %r, Standard %r' % (what, got, want), site, {'set': repr(got)}, c)

        for st in ('Ascii', 'Roman'):
            chk(st, 'unmappable:FFFD', FORBIDDEN, 'forbidden controls reported as U+FFFD in %s' % st)
        chk('Ascii', 'one:c', ISet.of((0, 0x7F)) - FORBIDDEN, 'characters passed through as one byte in the ASCII state')
        chk('Ascii', 'to:Roman', A5_203E, 'characters that force the Roman state')
        chk('Roman', 'to:Ascii', ISet.of(0x5C, 0x7E), 'characters that force ASCII from Roman')
        chk('Roman', 'one:c', ISet.of((0, 0x7F)) - FORBIDDEN - ISet.of(0x5C, 0x7E), 'characters passed through as one byte in the Roman state')
        chk('Roman', 'one:5C', ISet.of(0xA5), 'U+00A5 folded to 5C in Roman')
        chk('Roman', 'one:7E', ISet.of(0x203E), 'U+203E folded to 7E in Roman')
        chk('Jis0208', 'to:Roman', A5_203E, 'characters that force the Roman state from jis0208')
        # to:Ascii from Jis0208: ASCII characters, plus every character reported unmappable (reset before the NCR)
        got = cl.get('Jis0208', {}).get('to:Ascii', ISet())
        rep.ob(rule, '%s:Jis0208:to:Ascii' % fn, ISet.of((0, 0x7F)) <= got if False else (got & ISet.of((0, 0x7F))) == ISet.of((0, 0x7F)),
               'ASCII characters must leave the jis0208 state', site, None, c)
        # sibling agreement: the ASCII/Roman-state pre-check is_mapped_for_two_byte_encode() and the Jis0208-state body must agree on
        # every character whose fate is decided by ranges alone (otherwise ESC $ B is emitted for a character that is then unmappable)
        mb = f.body('iso_2022_jp::is_mapped_for_two_byte_encode')
        if mb is None:
            rep.undecidable(rule + '.premap', fn, 'is_mapped_for_two_byte_encode not found', site, c)
        else:
            BMPX = ISet.of((0x80, 0xD7FF), (0xE000, 0xFFFF))
            ram = RangeAnalysis(f, mb, {('loc', 1)}, 16, BMPX, opaque_ok=True, N=0x10000)
            dt = ISet()
            for bi_, cv in ram.blocks_assigning_const(0):
                if cv == 1:
                    dt = dt | (ram.exact_of(bi_) & BMPX)
            de = cl.get('Jis0208', {}).get('two:definite', ISet()) & BMPX
            rep.ob(rule + '.premap', fn, not ram.mixed and dt == de and bool(dt),
                   'characters the pre-check declares mapped by range alone %r differ from those the Jis0208-state body encodes by range alone %r' % (dt, de),
                   site, {'definitely_mapped': repr(dt)}, c)
        for st in ('Ascii', 'Roman', 'Jis0208'):
            got = cl.get(st, {}).get('unmappable:c', ISet())
            rep.ob(rule, '%s:%s:astral' % (fn, st), (got & ASTRAL) == ASTRAL and not (got & (ISet.of((0, 0x7F)) | A5_203E)),
                   'supplementary characters must be unmappable (and ASCII / U+00A5 / U+203E never) in %s: %r' % (st, got), site, None, c)
            odd = [k for k in cl.get(st, {}) if k.endswith('?')]
            rep.ob(rule, '%s:%s:payloads' % (fn, st), not odd and not cl.get(st, {}).get('unmappable:FFFD', ISet()) - FORBIDDEN,
                   'Unmappable payload / single-byte output is neither the character read nor a documented constant: %r' % odd, site, None, c)
