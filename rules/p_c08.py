"""C08 — conversion loops always make progress and terminate (R-PROGRESS, DESIGN.md §5)."""
from mirlib import *
from ranges import *
import r_handle, t_dst, r_state, p_c09, r_utf8enc, r_asciicopy

MANIFEST = {
    'category': 'other',
    'text': 'Decided from MIR for every converter body and all inputs/histories: (a) OutputFull is only ever constructed on the failing '
            'side of a space test — the Full arm of a check_space_*/copy_ascii space proof, a comparison on the destination length, the '
            'min-select `pending`, or a pass-through of an inner converter\'s result — never unconditionally; (b) no space test demands more '
            'than the documented minimum sink (every handle\'s proven capacity <= 4 bytes UTF-8 / 2 units UTF-16 / 4 bytes encoder output; the '
            'hand-written thresholds on dst.len() are extracted exactly and are <= the minimum; with replacement: dst.len() < NCR_EXTRA is the '
            'only early exit and NCR_EXTRA + 4 is the documented 14), so a fresh minimum-size sink always admits the next step; (c) no '
            'iteration spins: in every converter body each CFG cycle contains a unit fetch or a handle write, and a push-back (unread) that '
            'continues the loop has stored output first (ISO-2022-JP escape-then-retry); (d) every Unmappable result reports the unmappable character as consumed (a consumed() count, or position + k >= 1 in the single-byte UTF-16 loop), never the count after an unread(). The linear bound on the number of calls as such '
            'follows from these only together with C02/C04 behaviour and is not separately decided. (R-UTF8ENC) the hand-written UTF-8 to UTF-8 encoder copies the longest prefix that fits and ends on a character boundary: the whole input with (InputEmpty, n, n) when it fits; otherwise the boundary search starts at exactly dst.len(), steps back by one over continuation bytes only, and the cut t is both what is copied (dst[..t] <- src[..t]) and what is reported (OutputFull, t, t).  (R-ASCIICOPY) the ASCII fast-path helpers of the handles (copy_ascii_from/to_check_space_*) advance the source and the destination position in step by what the ASCII kernel consumed, add only the units of the non-ASCII character on the source side and nothing on a path that stops, and report with Stop the source position itself and the destination position.  (R-PROGRESS.replay-retire) every returning path of the BOM replay helpers (decode_to_utf8/utf16_after_one/two_potential_bom_byte(s)) leaves life_cycle = Converting, or ConvertingWithPendingBB only on the two-byte helper\'s first_read == 1 path: withheld bytes are retired whatever the replay\'s result, so no call re-enters the same replay with nothing consumed.  (R-RESUME, shared with C02) the resume-from-pending arms of the multi-byte decoders clear the pending state before anything that can return, so a rejected byte is not met again in the same pending state by every later call.',
    'note': 'Trusted: rustc MIR, mirx, rule library, documented minimum sizes (lib.rs docs: 4 / 2 / 4 / NCR_EXTRA + 4).',
    'technique': 'control-dependence rule on OutputFull constructions + capacity extraction + cycle/progress analysis on MIR CFGs',
}
CONFIGS = {'quick': ['default'], 'thorough': ['default', 'noalloc', 'simd', 'fast', 'lessslow']}
MIN = {'handles::Utf8Destination': 4, 'handles::Utf16Destination': 2, 'handles::ByteDestination': 4}

PROGRESS_SUFFIX = ('ReadHandle::read', 'ReadHandle::read_enum')


def is_progress_call(fn):
    fn = fn or ''
    return fn.endswith(PROGRESS_SUFFIX) or 'copy_ascii_' in fn or 'copy_utf' in fn or ('Handle::write_' in fn and fn.startswith('handles::')) \
        or (fn.endswith('::next') and 'Iterator' in fn) \
        or fn in ('ascii::ascii_to_ascii', 'ascii::ascii_to_basic_latin', 'ascii::basic_latin_to_ascii', 'utf_8::convert_utf8_to_utf16_up_to_invalid')


def outputfull(rep, f, c):
    n = 0
    for name, b in sorted(f.bodies.items()):
        r_ = b.raw.get('ret', '')
        if not (('DecoderResult' in r_ or 'EncoderResult' in r_) and b.kind in ('fn', 'assoc_fn')):
            continue
        if name.startswith(('Decoder::', 'Encoder::', 'variant::')):
            continue
        r = Resolver(b)
        src_len = t_dst.len_sources(b)
        T = t_dst.tainted_locals(b, src_len) if src_len else set()
        for bi, blk in enumerate(b.blocks):
            for st in blk['s']:
                if not ('assign' in st and 'aggregate' in st['rv'] and isinstance(st['rv']['aggregate'], dict) and st['rv']['aggregate'].get('variant') == 'OutputFull'
                        and st['rv']['aggregate'].get('adt') in ('DecoderResult', 'EncoderResult')):
                    continue
                n += 1
                how = None
                S_blocks = controlling_edges(b, bi)
                for k, e, v, S in block_conditions(b, bi, r):
                    if k == 'variant' and v == 'Full' and e[0] == 'call' and ('check_space_' in (e[1] or '')):
                        how = 'Full arm of ' + e[1].rsplit('::', 1)[-1]
                    if k == 'bool':
                        t = b.blocks[S]['t']
                        pl = op_place(t['switch'])
                        if pl is not None and pl['l'] in T:
                            how = how or 'comparison on the destination length'
                        if e[0] == 'is_empty' or (e[0] == 'bin' and any(s_[0] == 'len' for s_ in walk(e))):
                            how = how or 'comparison on a buffer length'
                rep.ob('R-PROGRESS.a', '%s:OutputFull#%s' % (name, how or 'unconditional'), how is not None,
                       'OutputFull is constructed without a failed space test controlling it: a call could report OutputFull although the output fits (no progress)',
                       sp_str(st['sp']), {'controlled_by': how}, c)
    rep.floor('R-PROGRESS.a', 'OutputFull constructions', n, 94, c)
    # wrapper level (BOM/life-cycle layer, variant dispatch): the with-replacement wrappers are decided shape-exactly by p_c09.wrapper;
    # everywhere else an OutputFull may only be the pass-through of an inner OutputFull or sit behind a destination-length threshold
    # that does not exceed the documented minimum for that sink.
    seen = 0
    wrapped = {w[0] for w in p_c09.WRAPPERS}
    for name, b in sorted(f.bodies.items()):
        if not name.startswith(('Decoder::', 'Encoder::', 'variant::')) or b.kind not in ('fn', 'assoc_fn'):
            continue
        r = Resolver(b)
        for bi, blk in enumerate(b.blocks):
            for st in blk['s']:
                if not ('assign' in st and 'aggregate' in st['rv'] and isinstance(st['rv']['aggregate'], dict) and st['rv']['aggregate'].get('variant') == 'OutputFull'
                        and st['rv']['aggregate'].get('adt') in ('DecoderResult', 'EncoderResult', 'CoderResult')):
                    continue
                seen += 1
                if name in wrapped:
                    continue
                how = None
                for k, e, v, S in block_conditions(b, bi, r):
                    if k == 'variant' and v == 'OutputFull':
                        how = 'pass-through of an inner OutputFull'
                    if k == 'bool' and e[0] == 'bin' and e[1] in ('Lt', 'Le', 'Ge', 'Gt') and e[2][0] == 'len' and e[3][0] == 'c':
                        base = strip_ref(e[2][1])
                        if base[0] == 'loc' and t_dst.is_mut_slice_ty(b.locals[base[1]]['ty']):
                            # the failing side of `dst.len() < k` (true) / `dst.len() >= k` (false)
                            fails = (e[1] in ('Lt', 'Le')) == bool(v)
                            kk = e[3][1] + (1 if e[1] in ('Le', 'Gt') else 0)
                            m = 2 if 'u16' in b.locals[base[1]]['ty'] else 4
                            if fails and kk <= m:
                                how = 'destination shorter than %d <= documented minimum %d' % (kk, m)
                            elif fails:
                                how = None
                                rep.ob('R-PROGRESS.a.wrapper', '%s:OutputFull#dst.len()<%d' % (name, kk), False,
                                       'OutputFull is returned whenever the destination is shorter than %d units, but the documented minimum for this sink is %d: '
                                       'a caller looping with a minimum-size buffer gets OutputFull with nothing read or written forever' % (kk, m),
                                       sp_str(st['sp']), {'threshold': kk, 'documented_minimum': m}, c)
                                how = 'reported'
                if how != 'reported':
                    rep.ob('R-PROGRESS.a.wrapper', '%s:OutputFull#%s' % (name, how or 'unconditional'), how is not None,
                           'wrapper-level OutputFull is neither the pass-through of an inner OutputFull nor behind a destination-length test',
                           sp_str(st['sp']), {'controlled_by': how}, c)
    rep.floor('R-PROGRESS.a.wrapper', 'OutputFull constructions seen at wrapper level (matcher self-test: the with-replacement wrappers contain 8)', seen, 8, c)


def capacities(rep, f, c, cap_use):
    H = r_handle.handle_types(f)
    for h, info in sorted(H.items()):
        m = MIN[info['dest']]
        rep.ob('R-PROGRESS.b', h, cap_use.get(h, 0) <= m, 'handle %s needs %d units but the documented minimum sink is %d' % (h, cap_use.get(h, 0), m), None,
               {'capacity': cap_use.get(h, 0), 'documented_minimum': m}, c)
    for (cfg, key), (cap, dest_ty, at) in sorted(getattr(rep, 'guards', {}).items()):
        if cfg != c:
            continue
        m = MIN[dest_ty]
        rep.ob('R-PROGRESS.b', 'guard:' + key, cap <= m, 'this space test demands %d free units; the documented minimum sink is %d, so a fresh minimum-size '
               'buffer could be refused without any progress' % (cap, m), at, {'demanded': cap, 'documented_minimum': m}, c)
    # hand-written thresholds on the destination length in converter bodies
    n = 0
    for name, b in sorted(f.bodies.items()):
        r_ = b.raw.get('ret', '')
        if not (('DecoderResult' in r_ or 'EncoderResult' in r_) and b.kind in ('fn', 'assoc_fn')) or name.startswith(('Decoder::', 'Encoder::', 'variant::', 'handles::')):
            continue
        r = Resolver(b)
        for bi, blk in enumerate(b.blocks):
            t = blk['t']
            if 'switch' not in t or t.get('sty') != 'bool':
                continue
            e = r.operand(t['switch'])
            if e[0] == 'bin' and e[1] in ('Lt', 'Le', 'Ge', 'Gt') and e[2][0] == 'len' and e[3][0] == 'c':
                base = strip_ref(e[2][1])
                if base[0] == 'loc' and t_dst.is_mut_slice_ty(b.locals[base[1]]['ty']):
                    k = e[3][1] + (1 if e[1] in ('Le', 'Gt') else 0)
                    is16 = 'u16' in b.locals[base[1]]['ty']
                    m = 2 if is16 else 4
                    n += 1
                    rep.ob('R-PROGRESS.b', '%s:dst.len()%s%d' % (name, e[1], e[3][1]), k <= m, 'space threshold %d exceeds the documented minimum %d' % (k, m),
                           sp_str(blk['tsp']), {'threshold': k, 'documented_minimum': m}, c)
    ncr = f.consts.get('NCR_EXTRA', {}).get('int')
    rep.ob('R-PROGRESS.b', 'NCR_EXTRA', ncr == 10, 'NCR_EXTRA is %r; the documented with-replacement minimum (14) is NCR_EXTRA + 4' % ncr, None, {'NCR_EXTRA': ncr}, c)


def sccs(nodes, succ):
    index = {}
    low = {}
    stack = []
    on = set()
    out = []
    counter = [0]
    import sys
    sys.setrecursionlimit(10000)

    def strong(v):
        index[v] = low[v] = counter[0]
        counter[0] += 1
        stack.append(v)
        on.add(v)
        for w in succ(v):
            if w not in nodes:
                continue
            if w not in index:
                strong(w)
                low[v] = min(low[v], low[w])
            elif w in on:
                low[v] = min(low[v], index[w])
        if low[v] == index[v]:
            comp = []
            while True:
                w = stack.pop()
                on.discard(w)
                comp.append(w)
                if w == v:
                    break
            out.append(comp)
    for v in sorted(nodes):
        if v not in index:
            strong(v)
    return out


def no_spin(rep, f, c):
    n = 0
    for name, b in sorted(f.bodies.items()):
        r_ = b.raw.get('ret', '')
        if not (('DecoderResult' in r_ or 'EncoderResult' in r_) and b.kind in ('fn', 'assoc_fn')) or name.startswith(('Decoder::', 'Encoder::', 'variant::')):
            continue
        if not b.back_edges():
            continue
        n += 1
        prog = set()
        for bi, t in b.calls():
            if is_progress_call(b.callee(t)):
                prog.add(bi)
        # hand-written loops: a usize position that moves monotonically (x = x + e, or x = x - e with the underflow trap) counts as progress
        for bi, blk in enumerate(b.blocks):
            for st in blk['s']:
                if 'assign' in st and not st['assign']['p'] and 'use' in st['rv']:
                    pl = op_place(st['rv']['use'])
                    if pl and pl['p'] and pl['p'][0].get('field') == '0' if pl and pl['p'] and isinstance(pl['p'][0], dict) else False:
                        sd = b.single_def(pl['l'])
                        if sd and sd[2] == 'assign' and sd[3]['rv'].get('bin') in ('AddWithOverflow', 'SubWithOverflow'):
                            lp = op_place(sd[3]['rv']['l'])
                            if lp and not lp['p'] and lp['l'] == st['assign']['l'] and b.locals[lp['l']]['ty'] == 'usize':
                                prog.add(bi)
        reach = b.reachable()
        nodes = {x for x in reach if x not in prog and not b.blocks[x].get('cleanup')}
        bad = [comp for comp in sccs(nodes, lambda v: b.succ[v]) if len(comp) > 1 or comp[0] in b.succ[comp[0]]]
        rep.ob('R-PROGRESS.c', name, not bad,
               'a loop can iterate without fetching a unit or writing output (cycle through blocks %s)' % (sorted(bad[0])[:6] if bad else ''),
               sp_str(b.blocks[sorted(bad[0])[0]]['tsp']) if bad else sp_str(b.raw['span']), {'progress_blocks': len(prog)}, c)
        # unread() followed by a back edge must have produced output since the fetch
        for bi, t in b.calls():
            if (b.callee(t) or '').endswith('UnreadHandle::unread'):
                fwd = b.reach_from([t['target']] if t['target'] is not None else [], stop=set(h for _, h in b.back_edges()))
                loops_back = any((x, h) in set(b.back_edges()) for x in fwd for h in b.succ[x])
                if loops_back:
                    # a handle write must dominate the unread in this iteration
                    wr = [wi for wi, wt in b.calls() if 'Handle::write_' in (b.callee(wt) or '') and wi in b.dom[bi]]
                    heads = [h for _, h in b.back_edges() if h in b.dom[bi]]
                    ok = any(any(h in b.dom[wi] for h in heads) for wi in wr)
                    rep.ob('R-PROGRESS.c.unread', '%s:unread-then-continue' % name, ok,
                           'a unit is pushed back and the loop continues without output having been stored first: the same unit would be fetched forever',
                           sp_str(b.blocks[bi]['tsp']), None, c)
    rep.floor('R-PROGRESS.c', 'converter bodies with loops', n, 36, c)


def unmappable_consumed(rep, f, c):
    """an Unmappable(c) result reports c as consumed: its `read` component is a consumed() count taken after the character was
    fetched (or position + k, k >= 1, in the hand-written single-byte loop), never the count after pushing the character back"""
    n = 0
    for name, b in sorted(f.bodies.items()):
        if 'Encoder::encode_from_' not in name or not name.endswith('_raw'):
            continue
        r = Resolver(b)
        for bi, blk in enumerate(b.blocks):
            for st in blk['s']:
                if not ('assign' in st and st['assign']['l'] == 0 and not st['assign']['p'] and st['rv'].get('aggregate') == 'tuple'):
                    continue
                ops = [r.operand(o) for o in st['rv']['ops']]
                if not (ops and ops[0][0] == 'agg' and (ops[0][1] or '').endswith('::Unmappable')):
                    continue
                n += 1
                rd = ops[1]
                ok = False
                what = expr_str(rd, b)[:80]
                if rd[0] == 'call' and (rd[1] or '').endswith('::consumed'):
                    ok = True
                elif rd[0] == 'bin' and rd[1] == 'Add' and rd[3][0] == 'c' and rd[3][1] >= 1:
                    ok = True
                rep.ob('R-PROGRESS.unmappable-consumed', '%s:%s' % (name, (rd[1] or '').rsplit('::', 1)[-1] if rd[0] == 'call' else 'expr'), ok,
                       'an Unmappable result reports a `read` count that does not include the unmappable character (%s): the caller\'s loop would see the same character forever' % what,
                       sp_str(st['sp']), None, c)
    rep.floor('R-PROGRESS.unmappable-consumed', 'Unmappable results in encoder bodies', n, 30, c)


def run(rep, facts, tier):
    for c, f in facts.items():
        unmappable_consumed(rep, f, c)
        outputfull(rep, f, c)
        cap_use = r_handle.run(rep, f, c)
        capacities(rep, f, c, cap_use)
        no_spin(rep, f, c)
        r_utf8enc.run(rep, f, c)
        na_ = r_asciicopy.run(rep, f, c)
        rep.floor('R-ASCIICOPY', 'ASCII fast-path helpers of the handles', na_, 9, c)
        r_state.pairing(rep, f, c, 'R-STATE')
        import r_resume
        r_resume.run(rep, f, c, 'R-RESUME')     # a resume arm that keeps its pending state across an early return re-reads the same byte forever
        import p_c10
        nr = sum(p_c10.replay_retire(rep, f, c, sink) for sink in ('utf8', 'utf16'))
        rep.floor('R-PROGRESS.replay-retire', 'returning paths of the BOM replay helpers', nr, 8, c)
        for w in p_c09.WRAPPERS:
            if w[4]:
                p_c09.wrapper(rep, f, c, *w)
    return ('other', MANIFEST['text'], [])
