"""R-UNCHECKED — every unchecked slice access outside `handles` has a recognised dominating guard (DESIGN.md §5).

For get_unchecked[_mut](S, base + k): a dominating branch proves  base + G <= len(S)  (or base + (G-1) < len(S), or
base < len(S), ...) with k + 1 <= G, and `base` is not reassigned between the guard and the access.  Table look-ups whose
index is a zero-extended u8 plus a constant are discharged by the value range against the array length taken from the type."""
import re
from mirlib import *
from shape import *


def norm_arith(e):
    """unwrap(checked_add(a, c)) and friends -> a + c"""
    if e[0] == 'call' and (e[1] or '').endswith('::unwrap') and len(e[2]) == 1:
        inner = e[2][0]
        if inner[0] == 'call' and (inner[1] or '').endswith('::checked_add') and len(inner[2]) == 2:
            return ('bin', 'Add', norm_arith(inner[2][0]), norm_arith(inner[2][1]))
    if e[0] == 'bin':
        return ('bin', e[1], norm_arith(e[2]), norm_arith(e[3]))
    return e


def split_index(e):
    """idx expression -> (base, k) with idx = base + k, k constant >= 0 (base may be None for a pure constant)."""
    if e[0] == 'c':
        return None, e[1]
    if e[0] == 'bin' and e[1] == 'Add':
        if e[3][0] == 'c':
            b0, k0 = split_index(e[2])
            return b0, k0 + e[3][1]
        if e[2][0] == 'c':
            b0, k0 = split_index(e[3])
            return b0, k0 + e[2][1]
    return e, 0


def min_len_of(b, x, S, depth=0):
    """Is x a value known to be <= len(S): len(S) itself, cmp::min(.., len(S), ..), or the min-select tuple component?"""
    if x[0] == 'len' and strip_ref(x[1]) == S:
        return True
    if depth > 4:
        return False
    if x[0] == 'call' and x[1] in ('core::cmp::min', 'core::cmp::Ord::min'):
        return any(min_len_of(b, a, S, depth + 1) or _len_of_tail(a, S) for a in x[2])
    if x[0] == 'loc' and b is not None:
        ds = b.defs.get(x[1], [])
        if len(ds) == 1 and ds[0][2] == 'assign':
            return min_len_of(b, Resolver(b).rvalue(ds[0][3]['rv']), S, depth + 1)
        return False
    if x[0] == 'fld' and x[1][0] == 'loc' and b is not None:
        # component of a tuple assigned in the two arms of `if a.len() < b.len() { (.., a.len()) } else { (.., b.len()) }`
        t = x[1][1]
        ds = b.defs.get(t, [])
        if len(ds) != 2 or any(d[2] != 'assign' or d[3]['rv'].get('aggregate') != 'tuple' for d in ds):
            return False
        idx = int(x[2])
        comps = [Resolver(b).operand(d[3]['rv']['ops'][idx]) for d in ds]
        if not all(c_[0] == 'len' for c_ in comps):
            return False
        bases = [strip_ref(c_[1]) for c_ in comps]
        if S not in bases:
            return False
        # each arm is selected by the comparison that makes its length the smaller one
        for d, c_ in zip(ds, comps):
            ok = False
            for k, e, v, Sb in block_conditions(b, d[0], Resolver(b)):
                if k == 'bool' and e[0] == 'bin' and e[1] == 'Lt' and e[2][0] == 'len' and e[3][0] == 'len':
                    small = e[2] if v else e[3]
                    if strip_ref(small[1]) == strip_ref(c_[1]):
                        ok = True
            if not ok:
                return False
        return True
    return False


def _len_of_tail(a, S):
    """len(&S[k..]) <= len(S)"""
    if a[0] == 'len':
        ix = index_from(a[1])
        if ix is not None and strip_ref(ix[0]) == S:
            return True
    return False


def guard_bound(cond, truth, S, b=None):
    """If `cond == truth` proves  B + G <= len(S)  return (B, G) (G may be 0 meaning B <= len)."""
    if cond[0] == 'un' and cond[1] == 'Not':
        return guard_bound(cond[2], not truth, S, b)
    if cond[0] == 'call' and (cond[1] or '').rsplit('::', 1)[-1] in ('likely', 'unlikely') and len(cond[2]) == 1:
        return guard_bound(cond[2][0], truth, S, b)
    if cond[0] != 'bin':
        return None
    cond = norm_arith(cond)
    op, l, r = cond[1], cond[2], cond[3]

    def is_len(x):
        return (x[0] == 'len' and strip_ref(x[1]) == S) or min_len_of(b, x, S)
    # the remaining length compared with a constant: (len - B) >= K.  Valid only where B <= len is already known (the subtraction
    # wraps otherwise): returned as a conditional fact ('sub', K), applied like the != upgrade
    for a_, c_, flip_ in ((l, r, False), (r, l, True)):
        if a_[0] == 'bin' and a_[1] == 'Sub' and is_len(a_[2]) and not is_len(a_[3]) and c_[0] == 'c' and isinstance(c_[1], int):
            op_ = {'Lt': 'Gt', 'Le': 'Ge', 'Gt': 'Lt', 'Ge': 'Le', 'Eq': 'Eq', 'Ne': 'Ne'}[op] if flip_ else op
            K = c_[1]
            need = None
            if (op_ == 'Ge' and truth) or (op_ == 'Lt' and not truth):
                need = K
            elif (op_ == 'Gt' and truth) or (op_ == 'Le' and not truth):
                need = K + 1
            elif (op_ == 'Ne' and truth and K == 0) or (op_ == 'Eq' and not truth and K == 0):
                need = 1
            elif op_ == 'Eq' and truth:
                need = K
            if need is None:
                return None
            b1, k1 = split_index(a_[3])
            if k1 != 0:
                return None
            return b1, ('sub', need)
    # normalise so that the length is on the right
    if is_len(l) and not is_len(r):
        flip = {'Lt': 'Gt', 'Le': 'Ge', 'Gt': 'Lt', 'Ge': 'Le', 'Eq': 'Eq', 'Ne': 'Ne'}
        op, l, r = flip[op], r, l
    if not is_len(r):
        return None
    b0, k0 = split_index(l)
    if op == 'Le' and truth:
        return b0, k0            # b + k <= len
    if op == 'Lt' and truth:
        return b0, k0 + 1        # b + k < len  ==> b + k + 1 <= len
    if op == 'Gt' and not truth:
        return b0, k0            # !(b + k > len)
    if op == 'Ge' and not truth:
        return b0, k0 + 1        # !(b + k >= len)
    if (op == 'Eq' and not truth) or (op == 'Ne' and truth):
        return b0, ('ne', k0)    # b + k != len: upgrades an available  b + k <= len  to  b + k + 1 <= len
    return None


def defs_between(b, local, g_bb, a_bb):
    """Is `local` (re)assigned on some path strictly between the guard block's branch and the access?"""
    mid = positions_between(b, g_bb, a_bb)
    for bi, si, k, n in b.defs.get(local, []):
        if bi in mid and bi != g_bb:
            # a definition in the access block itself only matters if it precedes the access (call terminator: always precedes)
            return True
    return False


def available_guards(b, S):
    """Forward must-analysis: at the entry of each block, for which locals L is  L + G <= len(S)  known (G maximal)?
    Facts are generated on the proving edge of a length comparison, shifted by `L = L + c`, killed by any other assignment to L,
    and intersected (min) at joins."""
    n = len(b.blocks)
    TOP = None
    IN = {x: TOP for x in range(n)}
    IN[0] = {}
    gen_edges = {}
    for bi, blk in enumerate(b.blocks):
        t = blk['t']
        if 'switch' in t and t.get('sty') == 'bool':
            cond = Resolver(b).operand(t['switch'])
            for lab, tgt in switch_edges(b, bi):
                truth = bool_truth(b, bi, lab)
                gb = guard_bound(cond, truth, S, b) if truth is not None else None
                if gb and gb[0] is not None and gb[0][0] == 'loc':
                    gen_edges[(bi, tgt)] = (gb[0][1], gb[1])
    # kernel contract: in the Some arm of an ASCII kernel called on (&src[r..], &mut dst[w..]), after `x += consumed` one more unit exists
    kernel_gen = {}
    KERNELS = ('ascii::ascii_to_ascii', 'ascii::ascii_to_basic_latin', 'ascii::basic_latin_to_ascii', 'ascii::validate_ascii')
    for bi, t in b.calls():
        if b.callee(t) in KERNELS:
            res = Resolver(b).local(t['dest']['l'])
            consumed = ('fld', ('fld', ('as', res, 'Some'), '0'), '1')
            for a in t['args']:
                ix = index_from(Resolver(b).operand(a))
                if ix is not None and len(ix) == 2 and strip_ref(ix[0]) == S and ix[1][0] == 'loc':
                    kernel_gen[ix[1][1]] = consumed

    def transfer(bi, facts):
        facts = dict(facts)
        blk = b.blocks[bi]
        for si, st in enumerate(blk['s']):
            if 'assign' in st and not st['assign']['p']:
                l = st['assign']['l']
                if l not in facts and l in kernel_gen and Resolver(b).rvalue(st['rv']) == ('bin', 'Add', ('loc', l), kernel_gen[l]):
                    facts[l] = 1
                    continue
                if l in facts:
                    v = Resolver(b).rvalue(st['rv'])
                    if l in kernel_gen and v == ('bin', 'Add', ('loc', l), kernel_gen[l]):
                        facts[l] = 1
                        continue
                    # L = (tmp).0 where tmp = AddWithOverflow(L, c)
                    if v[0] == 'bin' and v[1] == 'Add' and v[2] == ('loc', l) and v[3][0] == 'c':
                        g = facts[l] - v[3][1]
                        if g >= 0:
                            facts[l] = g
                        else:
                            del facts[l]
                    elif v[0] == 'bin' and v[1] == 'Sub' and v[2] == ('loc', l) and v[3][0] == 'c':
                        facts[l] = facts[l] + v[3][1]
                    else:
                        del facts[l]
        t = blk['t']
        if 'call' in t and not t['dest']['p'] and t['dest']['l'] in facts:
            del facts[t['dest']['l']]
        return facts
    order = b.rpo()
    changed = True
    OUT = {}
    it = 0
    while changed and it < 200:
        changed = False
        it += 1
        for bi in order:
            if bi != 0:
                acc = TOP
                for p in b.pred[bi]:
                    if p not in OUT:
                        continue
                    fo = dict(OUT[p])
                    ge = gen_edges.get((p, bi))
                    if ge:
                        if isinstance(ge[1], tuple) and ge[1][0] == 'sub':
                            if fo.get(ge[0], -1) >= 0:
                                fo[ge[0]] = max(fo[ge[0]], ge[1][1])
                        elif isinstance(ge[1], tuple):
                            kk = ge[1][1]
                            if fo.get(ge[0], -1) == kk:
                                fo[ge[0]] = kk + 1
                        else:
                            fo[ge[0]] = max(fo.get(ge[0], -1), ge[1])
                    if acc is TOP:
                        acc = fo
                    else:
                        acc = {k: min(v, fo[k]) for k, v in acc.items() if k in fo}
                if acc is TOP:
                    continue
                if IN[bi] is TOP or acc != IN[bi]:
                    IN[bi] = acc
                    changed = True
            if IN[bi] is TOP:
                continue
            o = transfer(bi, IN[bi])
            if OUT.get(bi) != o:
                OUT[bi] = o
                changed = True
    return IN


ARR = re.compile(r'\[(\w+); (\d+)\]')


def table_len(b, f, S):
    """Length of an array-typed table expression from its static / field type."""
    for s_ in walk(S):
        if s_[0] == 'cptr':
            import json
            tgt = json.loads(s_[1]).get('static')
            if tgt and tgt in f.statics:
                # field of the static?  take the largest array in the type of the field path
                flds = [x[2] for x in walk(S) if x[0] == 'fld']
                ty = f.statics[tgt]['ty']
                if flds and ty in f.adts:
                    for v in f.adts[ty]['variants']:
                        for fl in v['fields']:
                            if fl['name'] == flds[0]:
                                m = ARR.search(fl['ty'])
                                if m:
                                    return int(m.group(2))
                m = ARR.search(ty)
                if m:
                    return int(m.group(2))
    # self.table of a decoder/encoder: &'static [u16; 128]
    for s_ in walk(S):
        if s_[0] == 'fld' and s_[1][0] == 'deref' and s_[1][1][0] == 'loc':
            adt = b.locals[s_[1][1][1]].get('adt')
            if adt in f.adts:
                for v in f.adts[adt]['variants']:
                    for fl in v['fields']:
                        if fl['name'] == s_[2]:
                            m = ARR.search(fl['ty'])
                            if m:
                                return int(m.group(2))
    return None


def u8_range_index(b, e):
    """index = (x as usize) [+|- const] with x: u8 -> (lo, hi) range, else None.  A byte delivered by the ASCII kernels as
    `non_ascii` is >= 0x80 (kernel contract), which the subtraction form relies on."""
    if e[0] == 'cast' and e[3] == 'usize':
        inner = e[2]
        t = None
        if inner[0] == 'loc':
            t = b.locals[inner[1]]['ty']
        elif inner[0] == 'fld' or inner[0] == 'call' or inner[0] == 'deref' or inner[0] == 'idx':
            t = 'u8?'
        if t == 'u8':
            return 0, 255, inner
        if t == 'u8?':
            return 0, 255, inner
        return None
    if e[0] == 'call' and (e[1] or '').endswith('::from') and 'From<u8> for usize' in (e[1] or ''):
        return 0, 255, e[2][0]
    if e[0] == 'bin' and e[1] in ('Add', 'Sub') and e[3][0] == 'c':
        r_ = u8_range_index(b, e[2])
        if r_ is None:
            return None
        lo, hi, inner = r_
        if e[1] == 'Add':
            return lo + e[3][1], hi + e[3][1], inner
        # subtraction: relies on inner >= const (non-ASCII byte minus 0x80)
        return max(lo - e[3][1], 0), hi - e[3][1], inner
    return None


# accesses whose safety rests on a type invariant the analysis cannot see — frozen with their reason (DESIGN.md Appendix D)
TYPE_INVARIANT = {
    'mem::convert_str_to_utf16': '&str is valid UTF-8: continuation bytes exist after every lead',
    'handles::Utf8Source::read': '&str is valid UTF-8',
    'handles::Utf8Source::read_enum': '&str is valid UTF-8',
    'handles::Utf8Source::copy_ascii_to_check_space_one': '&str is valid UTF-8',
    'handles::Utf8Source::copy_ascii_to_check_space_two': '&str is valid UTF-8',
    'handles::Utf8Source::copy_ascii_to_check_space_four': '&str is valid UTF-8',
}


def run(rep, f, c, rule, want=lambda n: True):
    n = disch = 0
    for name, b in sorted(f.bodies.items()):
        if not want(name) or name.endswith('Destination::write_code_unit'):
            continue
        sites = [(bi, t) for bi, t in b.calls() if (b.callee(t) or '').endswith(('::get_unchecked', '::get_unchecked_mut'))
                 and 'slice' in (b.callee(t) or '')]
        if not sites:
            continue
        avail = {}
        for bi, t in sites:
            n += 1
            r = Resolver(b)
            S = strip_ref(r.operand(t['args'][0]))
            idx = r.operand(t['args'][1])
            base, k = split_index(idx)
            at = sp_str(b.blocks[bi]['tsp'])
            key = '%s:%s[%s]' % (name, expr_str(S, b)[:40], expr_str(idx, b)[:50])
            # (1) table look-up by a byte-derived index
            tl = table_len(b, f, S)
            ur = u8_range_index(b, idx)
            if tl is not None and ur is not None and ur[1] < tl:
                disch += 1
                rep.ob(rule, key, True, '', at, {'discharged_by': 'index range %d..%d < table length %d' % (ur[0], ur[1], tl)}, c)
                continue
            # (2) dominating guard
            ok = False
            why = 'no dominating guard of the form base + G <= len found'
            for Sb, label in controlling_edges(b, bi):
                truth = bool_truth(b, Sb, label)
                if truth is None:
                    continue
                cond = Resolver(b).operand(b.blocks[Sb]['t']['switch'])
                gb = guard_bound(cond, truth, S, b)
                if gb is None or isinstance(gb[1], tuple):
                    continue
                gbase, G = gb
                if gbase != base:
                    continue
                if G < k + 1:
                    why = 'guard proves %s + %d <= len but the access is at +%d' % (expr_str(base, b) if base else '0', G, k)
                    continue
                # base not reassigned between guard and access
                stale = False
                if base is not None:
                    for s_ in walk(base):
                        if s_[0] == 'loc' and defs_between(b, s_[1], Sb, bi):
                            stale = True
                if stale:
                    why = 'the index base is reassigned between the guard and the access'
                    continue
                ok = True
                rep.ob(rule, key, True, '', at, {'discharged_by': 'guard %s + %d <= len, access at +%d' % (expr_str(base, b)[:30] if base else '0', G, k)}, c)
                disch += 1
                break
            if not ok and base is not None and base[0] == 'loc':
                # (3) available-guard dataflow (loop invariants re-established before every back edge)
                key_s = repr(S)
                if key_s not in avail:
                    avail[key_s] = available_guards(b, S)
                facts = avail[key_s].get(bi)
                if facts is not None:
                    # statements of the access block before the call do not assign base (call is the terminator): apply in-block shifts
                    g = facts.get(base[1])
                    if g is not None:
                        # in-block updates of base before the access
                        cur = g
                        for st in b.blocks[bi]['s']:
                            if 'assign' in st and not st['assign']['p'] and st['assign']['l'] == base[1]:
                                v = Resolver(b).rvalue(st['rv'])
                                if v[0] == 'bin' and v[1] == 'Add' and v[2] == ('loc', base[1]) and v[3][0] == 'c' and cur is not None:
                                    cur = cur - v[3][1]
                                else:
                                    cur = None
                        if cur is not None and cur >= k + 1:
                            ok = True
                            disch += 1
                            rep.ob(rule, key, True, '', at, {'discharged_by': 'available guard %s + %d <= len on every path, access at +%d' % (expr_str(base, b), cur, k)}, c)
            if ok:
                continue
            if name in TYPE_INVARIANT:
                rep.ob(rule + '.type-invariant', key, True, '', at, {'reason': TYPE_INVARIANT[name]}, c)
                continue
            rep.ob(rule, key, False, 'unchecked access without a recognised guard: ' + why, at, None, c)
    return n, disch
