"""Dev helper: Facts of the *current* /repo tree for a configuration."""
import sys, os
sys.path.insert(0, os.path.dirname(os.path.abspath(__file__)))
import factsbuild
from mirlib import Facts


def facts(cfg='default'):
    paths, th = factsbuild.ensure_facts([cfg], log=open(os.devnull, 'w'))
    return Facts(paths[cfg])
