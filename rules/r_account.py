"""R-ACCOUNT — every unit taken from the source is written, reported, pushed back or remembered
before the converter returns (DESIGN.md §5).  Forward may-analysis with one fact per body:
"a unit was taken and nothing has happened to it yet"."""
from mirlib import *

READS = ('ReadHandle::read', 'ReadHandle::read_enum')
KILL_SUFFIX = ('UnreadHandle::unread',)


def is_handle_write(fn):
    # handles::Utf8BmpHandle::write_bmp, handles::ByteTwoHandle::write_two, ...
    return fn.startswith('handles::') and 'Handle::write_' in fn


def block_effects(body, bi):
    """Returns (kills_in_statements, terminator_effect) where terminator_effect in (None, 'gen', 'kill')."""
    blk = body.blocks[bi]
    kill = False
    for st in blk['s']:
        if 'assign' in st:
            pl = st['assign']
            # store to a field of self: the unit was remembered as state
            if pl['l'] == 1 and pl['p'] and pl['p'][0] == 'deref' and any(isinstance(e, dict) and 'field' in e for e in pl['p']):
                kill = True
            rv = st['rv']
            if 'aggregate' in rv and isinstance(rv['aggregate'], dict) and rv['aggregate'].get('variant') in ('Malformed', 'Unmappable') \
                    and rv['aggregate'].get('adt') in ('DecoderResult', 'EncoderResult'):
                kill = True
        elif 'set_discr' in st:
            pl = st['set_discr']
            if pl['l'] == 1 and pl['p'] and pl['p'][0] == 'deref':
                kill = True
    t = blk['t']
    eff = None
    if 'call' in t:
        fn = t['call'].get('fn') or ''
        if fn.endswith(READS):
            eff = 'gen'
        elif fn.endswith(KILL_SUFFIX) or is_handle_write(fn) or fn.startswith('EncoderResult::unmappable_from'):
            eff = 'kill'
        elif body.facts.body(fn) is not None and fn.rsplit('::', 1)[0] == body.name.rsplit('::', 1)[0] and t['args']:
            # a method of the same converter that receives &mut self may remember the unit (e.g. Gb18030Pending updates)
            cb = body.facts.body(fn)
            if cb.locals[1]['ty'].startswith('&mut '):
                eff = 'kill'
    return kill, eff


def goon_targets(body):
    """Blocks entered through the GoOn arm of a copy_ascii_* result: a non-ASCII unit was taken."""
    out = set()
    for bi, blk in enumerate(body.blocks):
        t = blk['t']
        if t.get('enum') == 'handles::CopyAsciiResult':
            for lab, tgt in switch_edges(body, bi):
                if variant_of_edge(body, bi, lab) == 'GoOn':
                    out.add(tgt)
    return out


def analyse(body):
    """Returns (gen_sites, violations[(return_bb, witness_gen_bb)])."""
    n = len(body.blocks)
    goon = goon_targets(body)
    eff = {b: block_effects(body, b) for b in range(n)}
    gens = [b for b in range(n) if eff[b][1] == 'gen'] + sorted(goon)
    IN = {b: False for b in range(n)}
    OUT = {b: False for b in range(n)}
    origin = {}
    changed = True
    order = body.rpo()
    while changed:
        changed = False
        for b in order:
            i = any(OUT[p] for p in body.pred[b]) or (b in goon)
            cur = i
            kill, te = eff[b]
            if kill:
                cur = False
            if te == 'gen':
                cur = True
            elif te == 'kill':
                cur = False
            if i != IN[b] or cur != OUT[b]:
                IN[b], OUT[b] = i, cur
                changed = True
    viol = []
    for b in range(n):
        if 'return' in body.blocks[b]['t'] and b in order:
            kill, te = eff[b]
            live = IN[b] and not kill
            if live:
                viol.append(b)
    return gens, viol, IN


def witness(body, ret_bb, IN):
    """Walk back from a violating return to the nearest generating block (for the report)."""
    goon = goon_targets(body)
    seen = set()
    stack = [ret_bb]
    while stack:
        x = stack.pop()
        if x in seen:
            continue
        seen.add(x)
        if x in goon:
            return x
        for p in body.pred[x]:
            kill, te = block_effects(body, p)
            if te == 'gen':
                return p
            if te == 'kill':
                continue
            # p's OUT must be live
            stack.append(p)
    return None


def run(rep, f, c, rule, want):
    nb = ng = 0
    for name, b in sorted(f.bodies.items()):
        r = b.raw.get('ret', '')
        if not (('DecoderResult' in r or 'EncoderResult' in r) and b.kind in ('fn', 'assoc_fn')) or not want(name):
            continue
        if name.startswith(('Decoder::', 'Encoder::', 'variant::')):
            continue
        gens, viol, IN = analyse(b)
        if not gens:
            continue
        nb += 1
        ng += len(gens)
        if not viol:
            rep.ob(rule, name, True, '', sp_str(b.raw['span']), {'unit_fetch_sites': len(gens)}, c)
        for rb in viol:
            w = witness(b, rb, IN)
            # key: function + which statement the return is at, without line numbers: use the status kind
            rep.ob(rule, '%s:return-with-unit-in-flight' % name, False,
                   'a unit fetched at %s can reach this return without being written, reported (Malformed/Unmappable), pushed back '
                   '(unread) or remembered in the converter state: it would be lost' % (sp_str(b.blocks[w]['tsp']) if w is not None else '?'),
                   sp_str(b.blocks[rb]['tsp']) or sp_str(b.raw['span']), None, c)
    return nb, ng
