"""C11 — one-shot convenience API equals the streaming API and borrows only when promised (structural clauses)."""
from mirlib import *
from paths import *
from shape import *
import r_strsafe, p_c19, p_c10

MANIFEST = {
    'category': 'other',
    'text': 'Every path of Encoding::decode_without_bom_handling, decode_without_bom_handling_and_without_replacement and encode is '
            'enumerated from MIR and summarised; decided for all inputs: (D1) a Cow::Borrowed is constructed only from the caller\'s own '
            'bytes, only under validator(bytes) == bytes.len() with the validator of the encoding\'s class (UTF-8 -> utf8_valid_up_to, '
            'ISO-2022-JP -> iso_2022_jp_ascii_valid_up_to, other potentially-borrowable -> ascii_valid_up_to; encode: output encoding UTF-8 '
            'or the same validators), never for replacement/UTF-16, and conversely every path on which that test succeeds returns the borrow '
            '(the documented promise); (D2) the ISO-2022-JP validator\'s reject set equals the complement of the decoder\'s and encoder\'s '
            'ASCII-state pass-through sets (what makes the ISO-2022-JP borrow sound; shared with C19); (D3) delegation: the validated prefix '
            'bytes[..valid_up_to] is copied, a decoder without BOM handling (resp. the output encoding\'s encoder) is fed exactly '
            'bytes[total_read..] with last = true until InputEmpty, error flags are accumulated, the without-replacement form returns None '
            'exactly in the Malformed arm, and decode()/decode_with_bom_removal() strip exactly the recognised BOM before delegating (shared '
            'with C10); (D4) the unreachable!() on OutputFull is justified: the String capacity is valid_up_to + the same decoder\'s '
            'max_utf8_buffer_length_without_replacement(bytes.len() - valid_up_to). Equality of results with the streaming API follows from '
            'C01/C02/C19 semantics and is not decided here. (D3.encode-flag) Encoding::encode ORs the unmappable flag of every encode_from_utf8_to_vec call, starting from false, on the growing path as well, and returns it. Also run here: R-SCAN over utf_8::utf8_valid_up_to, which decides how much of a UTF-8 input is borrowed.',
    'note': 'Trusted: rustc MIR, mirx, rule library, String/Vec semantics.',
    'technique': 'bounded path enumeration with symbolic summaries over MIR + value provenance',
}
CONFIGS = {'quick': ['default'], 'thorough': ['default', 'simd', 'fast']}
SELF, ARG = ('loc', 1), ('loc', 2)
VAL = {'utf_8::utf8_valid_up_to': 'utf8', 'ascii::ascii_valid_up_to': 'ascii', 'ascii::iso_2022_jp_ascii_valid_up_to': 'iso2022jp'}


def feasible(p):
    if any((e[1] == ('c', 1, 'bool') and e[2] is False) or (e[1] == ('c', 0, 'bool') and e[2] is True) for e in p.conds()) or \
            (p.end[0] == 'diverge' and any((c[1] or '').endswith('assert_failed') for c in p.calls())):
        return False
    # a comparison of a value with itself has one outcome (`let n = if utf8 { bytes.len() } else { validator(bytes) }; if n == bytes.len()`)
    for e in p.conds():
        ce = e[1]
        if ce[0] == 'bin' and ce[1] in ('Eq', 'Ne', 'Lt', 'Le', 'Gt', 'Ge') and isinstance(e[2], bool) and ce[2] == ce[3] and ce[2][0] in ('len', 'c', 'loc'):
            if e[2] != (ce[1] in ('Eq', 'Le', 'Ge')):
                return False
    # identity comparisons of one encoding reference with the Encoding statics are consistent along a path: the same comparison
    # cannot come out differently twice (a helper that re-asks what its caller has already decided), and at most one can be true
    seen = {}
    for e in p.conds():
        ce = e[1]
        if ce[0] == 'call' and (ce[1] or '').endswith(('::eq', '::ne')) and len(ce[2]) == 2 and isinstance(e[2], bool):
            st = r_strsafe.static_of(ce[2][1])
            if st is None:
                continue
            subj = strip_ref(ce[2][0])
            while subj[0] in ('deref', 'ref'):
                subj = strip_ref(subj[1])
            is_eq = (ce[1].endswith('::eq')) == e[2]
            prev = seen.setdefault(subj, {})
            if st in prev and prev[st] != is_eq:
                return False
            prev[st] = is_eq
            if is_eq and any(v_ and k_ != st for k_, v_ in prev.items()):
                return False
    return True


def static_of(e):
    return r_strsafe.static_of(e)


def enc_conds(p, subject):
    out = {}
    for e in p.conds():
        ce = e[1]
        if ce[0] == 'call' and (ce[1] or '').endswith('::eq') and strip_ref(ce[2][0]) == subject:
            out[static_of(ce[2][1])] = e[2]
    return out


def validity(p, data):
    """(validator kind, outcome) for the `validator(data) == data.len()` test on this path, if any."""
    for e in p.conds():
        ce = e[1]
        if ce[0] == 'bin' and ce[1] in ('Eq', 'Ge') and ce[3] == ('len', data) and ce[2][0] == 'call' and ce[2][1] in VAL and strip_ref(ce[2][2][0]) == data:
            return VAL[ce[2][1]], e[2], ce[2]
    return None


def find_agg(e, name):
    for s_ in walk(e):
        if s_[0] == 'agg' and s_[1].endswith(name):
            return s_
    return None


def lin_len(e, data):
    """a length expression over `data` as ({atom: coeff}, const): len(data), len(data) - k, len(&data[k..]), k2 - k ..."""
    if e[0] == 'c' and isinstance(e[1], int):
        return {}, e[1]
    if e[0] == 'len':
        nf = slice_nf(e[1], data)
        if nf is None:
            return {e: 1}, 0
        lo, hi = nf
        a = lin_len(hi, data) if hi is not None else ({('len', data): 1}, 0)
        b_ = lin_len(lo, data)
        out = dict(a[0])
        for t_, v_ in b_[0].items():
            out[t_] = out.get(t_, 0) - v_
            if out[t_] == 0:
                del out[t_]
        return out, a[1] - b_[1]
    if e[0] == 'bin' and e[1] in ('Add', 'Sub'):
        a, b_ = lin_len(e[2], data), lin_len(e[3], data)
        sg = 1 if e[1] == 'Add' else -1
        out = dict(a[0])
        for t_, v_ in b_[0].items():
            out[t_] = out.get(t_, 0) + sg * v_
            if out[t_] == 0:
                del out[t_]
        return out, a[1] + sg * b_[1]
    return {e: 1}, 0


def decode_fn(rep, f, c, fn, with_replacement):
    b = f.body(fn)
    if b is None:
        rep.undecidable('C11', fn, 'not found', None, c)
        return
    site = sp_str(b.raw['span'])
    heads = loop_heads(b)
    data = ARG
    if heads:
        pre = [summarize(b, blks, end) for blks, end in enumerate_block_paths(b, 0, stop=heads)]
    else:
        pre = region_paths(b, 0)
    pre = [p for p in pre if feasible(p)]
    nborrow = nown = 0
    for p in pre:
        at = sp_str(b.blocks[p.blocks[-1]]['tsp'])
        ec = enc_conds(p, SELF)
        pb = [e[2] for e in p.conds() if e[1][0] == 'call' and e[1][1] == 'Encoding::is_potentially_borrowable']
        v = validity(p, data)
        rv = p.env.get(0) if p.end[0] == 'return' else None
        borrowed = find_agg(rv, 'Cow::Borrowed') if rv is not None else None
        if borrowed is not None:
            nborrow += 1
            pay = strip_ref(borrowed[2][0])
            from_param = pay[0] == 'call' and pay[1] == 'core::str::from_utf8_unchecked' and strip_ref(pay[2][0]) == data
            cls_ok = False
            if v and v[1] is True:
                if v[0] == 'utf8':
                    cls_ok = ec.get('UTF_8') is True
                elif v[0] == 'iso2022jp':
                    cls_ok = ec.get('ISO_2022_JP') is True and ec.get('UTF_8') is not True and pb == [True]
                else:
                    cls_ok = ec.get('UTF_8') is False and ec.get('ISO_2022_JP') is False and pb == [True]
            rep.ob('C11-D1.borrow', fn, from_param and cls_ok,
                   'a borrow is returned that does not alias the caller\'s bytes, or not under the validator of the encoding\'s class (validator %r, encoding tests %r, borrowable %r)' % (v and v[:2], ec, pb),
                   at, {'validator': v and v[0], 'encoding_tests': {str(k): x for k, x in ec.items()}}, c)
            if with_replacement:
                flag = rv[2][1] if rv[0] == 'agg' and rv[1] == 'tuple' else None
                rep.ob('C11-D1.borrow-flag', fn, flag == ('c', 0, 'bool'), 'a borrowed (fully valid) result must report had_errors = false', at, None, c)
        elif v and v[1] is True:
            rep.ob('C11-D1.promise', fn, False, 'the input passed the validator of its encoding class but the result is not a borrow (documented promise)', at, None, c)
        if not with_replacement and ec.get('UTF_8') is True and v and v[1] is False:
            rep.ob('C11-D3.utf8-invalid', fn, p.end[0] == 'return' and rv is not None and variant_name(rv) == 'None' and not [e for e in p.calls() if 'Decoder' in (e[1] or '')],
                   'invalid UTF-8 with replacement off must yield None', at, None, c)
            continue
        if v and v[1] is False or (pb == [False]):
            # conversion path: decoder construction, prefix copy, capacity
            nown += 1
            nd = [e for e in p.calls() if e[1] == 'Encoding::new_decoder_without_bom_handling']
            okd = len(nd) == 1 and strip_ref(nd[0][2][0]) == SELF
            dec = ('call', nd[0][1], nd[0][2], nd[0][3]) if nd else None
            V = v[2] if v else None
            K = V if V is not None else C(0)        # how much of the input was validated (and is copied verbatim)
            rest_len = lin_len(('bin', 'Sub', ('len', data), K), data)
            ext = [e for e in p.calls() if (e[1] or '').endswith('::extend_from_slice')]
            if V is not None:
                okp = len(ext) == 1 and slice_nf(ext[0][2][1], data) == (C(0), V)
            else:
                # nothing validated: no prefix copy, or the copy of an empty prefix
                okp = not ext or (len(ext) == 1 and slice_nf(ext[0][2][1], data) == (C(0), C(0)))
            rep.ob('C11-D3.setup', fn, okd and okp, 'conversion path does not create new_decoder_without_bom_handling(self) and copy exactly bytes[..valid_up_to]', at, None, c)
            if not with_replacement and dec is not None:
                dc = [e for e in p.calls() if e[1] == 'Decoder::decode_to_string_without_replacement']
                ok = len(dc) == 1
                if ok:
                    a = dc[0][2]
                    inp = a[1]
                    ok &= slice_nf(inp, data) == (K, None)
                    ok &= strip_ref(a[0]) == dec and a[3] == ('c', 1, 'bool')
                    res = ('call', dc[0][1], a, dc[0][3])
                    arm = [e for e in p.conds() if e[1][0] == 'variant' and e[1][1] == tuple_field(res, 0)]
                    if len(arm) == 1:
                        if arm[0][2] == 'Malformed':
                            ok &= p.end[0] == 'return' and rv is not None and variant_name(rv) == 'None'
                        elif arm[0][2] == 'InputEmpty':
                            ok &= p.end[0] == 'return' and rv is not None and variant_name(rv) == 'Some' and find_agg(rv, 'Cow::Owned') is not None
                        elif arm[0][2] == 'OutputFull':
                            ok &= p.end[0] == 'diverge'
                    else:
                        ok &= p.end[0] == 'diverge'
                rep.ob('C11-D3.delegate', fn, ok, 'the remaining input is not decoded by decode_to_string_without_replacement(&bytes[valid_up_to..], &mut string, true) with '
                       'Malformed -> None, InputEmpty -> Some(Owned)', at, None, c)
                # D4 capacity provenance
                wc = [e for e in p.calls() if e[1] == 'alloc::string::String::with_capacity']
                okc = len(wc) == 1
                if okc:
                    cap = wc[0][2][0]
                    un = cap if cap[0] == 'call' and (cap[1] or '').endswith('::unwrap') else None
                    inner = un[2][0] if un else None
                    want_q = 'Decoder::max_utf8_buffer_length_without_replacement'
                    # capacity = K + query(len - K); with K = 0 the addition may be absent
                    q_ = None
                    if inner is not None and inner[0] == 'call' and inner[1] == 'checked_add' and inner[2][0] == K:
                        q_ = inner[2][1]
                    elif inner is not None and K == C(0):
                        q_ = inner
                    okc = q_ is not None and q_[0] == 'call' and q_[1] == want_q and strip_ref(q_[2][0]) == dec and lin_len(q_[2][1], data) == rest_len
                rep.ob('C11-D4', fn, okc, 'the String capacity that makes OutputFull unreachable is not valid_up_to + decoder.max_utf8_buffer_length_without_replacement(len - valid_up_to) '
                       'on the decoder that performs the conversion', at, None, c)
    rep.ob('C11-D1.cases', fn, nborrow >= (2 if not with_replacement else 1) and nown >= 2, 'borrow/convert paths missing (%d/%d)' % (nborrow, nown), site, {'borrow_paths': nborrow, 'convert_paths': nown}, c)
    if with_replacement and heads:
        loop_with_replacement(rep, f, c, fn, b, heads[0])


def named(b, name):
    ls = [i for i, l in enumerate(b.locals) if l.get('name') == name]
    return ls[0] if len(ls) == 1 else None


def sum_of(e, a, b_):
    """is e == a + b_ (either order, any association)?"""
    try:
        t, k = add_terms(e)
    except Exception:
        return False
    return k == 0 and sorted(t, key=repr) == sorted([a, b_], key=repr)


def or_of(p, v, acc, flag):
    """is v (the new accumulator value on path p) == acc | flag?  `acc |= flag`, or the same written as a branch:
    `if flag { acc = true }`"""
    if v in (('bin', 'BitOr', acc, flag), ('bin', 'BitOr', flag, acc)):
        return True
    t = [e[2] for e in p.conds() if e[1] == flag and isinstance(e[2], bool)]
    if t == [True] and v in (('c', 1, 'bool'), ('bin', 'BitOr', acc, ('c', 1, 'bool'))):
        return True
    if t == [False] and v == acc:
        return True
    return False


def result_kind(f, p, scrut, adt_name='CoderResult'):
    """which variant of the result the path has established: by a match on it, or by ==/!= against a constant variant"""
    arm = [e for e in p.conds() if e[1][0] == 'variant' and e[1][1] == scrut]
    if len(arm) == 1 and isinstance(arm[0][2], str):
        return arm[0][2]
    adt = f.adts.get(adt_name)
    if adt is None:
        return None
    names = [v['name'] for v in adt['variants']]
    for e in p.conds():
        ce, t = e[1], e[2]
        if ce[0] == 'call' and (ce[1] or '').endswith(('::eq', '::ne')) and len(ce[2]) == 2 and isinstance(t, bool):
            a0, a1 = ce[2]
            for x, y in ((a0, a1), (a1, a0)):
                xs = strip_ref(x)
                while xs[0] in ('deref', 'ref'):
                    xs = strip_ref(xs[1])
                if xs != scrut:
                    continue
                ys = strip_ref(y)
                while ys[0] in ('deref', 'ref'):
                    ys = strip_ref(ys[1])
                k = None
                if ys[0] == 'agg':
                    k = variant_name(ys)
                elif ys[0] == 'cptr' and ys[2] == 0:
                    import json as _json
                    tgt = _json.loads(ys[1])
                    if 'mem' in tgt and str(tgt['mem']) in f.mems:
                        dv = int.from_bytes(f.mem_bytes(tgt['mem']), 'little')
                        ks = [v['name'] for v in adt['variants'] if v['discr'] == dv]
                        k = ks[0] if len(ks) == 1 else None
                if k is None:
                    continue
                is_k = (ce[1].endswith('::eq')) == t
                if is_k:
                    return k
                others = [n_ for n_ in names if n_ != k]
                if len(others) == 1:
                    return others[0]
    return None


def loop_roles(b, H, callee):
    """(position local, paths): the loop-carried usize local that slices the input for the conversion call (`&bytes[total_read..]`),
    found from the call itself, not by its name"""
    paths = [p for p in region_paths(b, H, env0=arg_aliases(b)) if feasible(p)]
    TRl = None
    for p in paths:
        dc = [e for e in p.calls() if e[1] == callee]
        if len(dc) == 1:
            ix = index_from(dc[0][2][1])
            if ix is not None and len(ix) == 2 and ix[1][0] == 'init':
                TRl = ix[1][1]
    return TRl, paths


def loop_with_replacement(rep, f, c, fn, b, H):
    site = sp_str(b.raw['span'])
    TRl, paths = loop_roles(b, H, 'Decoder::decode_to_string')
    slice_mode = False
    if TRl is None:
        # the position may be kept as a shrinking slice instead: decode_to_string(remaining, ..); remaining = &remaining[read..]
        for p in paths:
            dc = [e for e in p.calls() if e[1] == 'Decoder::decode_to_string']
            if len(dc) == 1:
                a1 = strip_ref(dc[0][2][1])
                while a1[0] in ('deref', 'ref'):
                    a1 = strip_ref(a1[1])
                if a1[0] == 'init' and len(b.defs.get(a1[1], [])) >= 2:
                    TRl = a1[1]
                    slice_mode = True
    if TRl is None:
        rep.undecidable('C11-D3.loop', fn, 'the loop does not call decode_to_string on &bytes[position..] with a loop-carried position', site, c)
        return
    # the error flag: the bool that some iteration ORs the call's had_errors into
    TEl = None
    for p in paths:
        dc = [e for e in p.calls() if e[1] == 'Decoder::decode_to_string']
        if len(dc) != 1:
            continue
        res = ('call', dc[0][1], dc[0][2], dc[0][3])
        for l, v in p.env.items():
            if isinstance(l, int) and b.locals[l]['ty'] == 'bool' and len(b.defs.get(l, [])) >= 2 and v != ('init', l) and or_of(p, v, ('init', l), tuple_field(res, 2)) \
                    and v != ('c', 0, 'bool'):
                TEl = l
    if TEl is None:
        rep.ob('C11-D3.loop', fn, False, 'the had_errors result of the decode_to_string calls is not accumulated (OR-ed) across the iterations of the loop: '
               'errors reported by an earlier call are lost', site, None, c)
        return
    TR, TE = ('init', TRl), ('init', TEl)
    ok = True
    why = ''
    kinds = set()
    for p in paths:
        if p.end[0] == 'diverge':
            continue
        dc = [e for e in p.calls() if e[1] == 'Decoder::decode_to_string']
        if len(dc) != 1:
            ok = False
            why = 'each iteration must call decode_to_string exactly once'
            continue
        a = dc[0][2]
        ix = index_from(a[1])
        if slice_mode:
            a1 = strip_ref(a[1])
            while a1[0] in ('deref', 'ref'):
                a1 = strip_ref(a1[1])
            fed = a1 == TR
        else:
            fed = ix is not None and len(ix) == 2 and strip_ref(ix[0]) == ARG and ix[1] == TR
        if not (fed and a[3] == ('c', 1, 'bool')):
            ok = False
            why = 'decode_to_string is not fed &bytes[total_read..] with last = true'
        res = ('call', dc[0][1], a, dc[0][3])
        arm = [e for e in p.conds() if e[1][0] == 'variant' and e[1][1] == tuple_field(res, 0)]
        if len(arm) != 1:
            continue
        rd, he = tuple_field(res, 1), tuple_field(res, 2)
        rv = p.env.get(0)
        if arm[0][2] == 'InputEmpty':
            kinds.add('done')
            if not (p.end[0] == 'return' and rv is not None and rv[0] == 'agg' and find_agg(rv[2][0], 'Cow::Owned') is not None and or_of(p, rv[2][1], TE, he)):
                ok = False
                why = 'InputEmpty must return (Cow::Owned(string), accumulated had_errors)'
        elif arm[0][2] == 'OutputFull':
            kinds.add('grow')
            rs = [e for e in p.calls() if (e[1] or '').endswith('String::reserve')]
            q = [e for e in p.calls() if e[1] == 'Decoder::max_utf8_buffer_length']
            qa = q[0][2][1] if len(q) == 1 else None
            if slice_mode:
                # remaining' = &remaining[read..] and the query is asked for remaining'.len()
                nr = p.env.get(TRl, TR)
                nix = index_from(nr)
                adv_ok = nix is not None and len(nix) == 2 and strip_ref(nix[0]) == TR and nix[1] == rd
                q_ok = adv_ok and qa is not None and (qa == ('len', strip_ref(nr)) or qa == ('bin', 'Sub', ('len', TR), rd))
            else:
                adv_ok = sum_of(p.env.get(TRl, TR), TR, rd)
                q_ok = qa is not None and qa[0] == 'bin' and qa[1] == 'Sub' and qa[2] == ('len', ARG) and sum_of(qa[3], TR, rd)
            if not (p.end[0] == 'back' and len(rs) == 1 and q_ok and adv_ok and or_of(p, p.env.get(TEl, TE), TE, he)):
                ok = False
                why = 'OutputFull must reserve max_utf8_buffer_length(bytes.len() - total_read) and retry with totals accumulated'
    rep.ob('C11-D3.loop', fn, ok and kinds == {'done', 'grow'}, why or 'loop cases %r' % sorted(kinds), site, {'cases': sorted(kinds)}, c)
    # total_read starts at valid_up_to (or 0)
    pre = [summarize(b, blks, end) for blks, end in enumerate_block_paths(b, 0, stop=[H])]
    good = True
    for p in [p for p in pre if feasible(p) and p.end[0] == 'stop']:
        v = validity(p, ARG)
        tr = p.env.get(TRl)
        if slice_mode:
            good &= tr is not None and slice_nf(tr, ARG) == ((v[2] if v else C(0)), None)
        else:
            good &= (tr == v[2]) if v else (tr == C(0))
        good &= p.env.get(TEl) == ('c', 0, 'bool')
    rep.ob('C11-D3.loop-init', fn, good, 'total_read must start at valid_up_to (0 for non-borrowable encodings) and had_errors at false', site, None, c)


def enc_slice_cursor(b, H):
    """the loop-carried &str local handed to encode_from_utf8_to_vec as it is (the rest of the input kept as a shrinking slice)"""
    for p in region_paths(b, H, env0=arg_aliases(b)):
        ec_ = [e for e in p.calls() if e[1] == 'Encoder::encode_from_utf8_to_vec']
        if len(ec_) == 1:
            a1 = strip_ref(ec_[0][2][1])
            while a1[0] in ('deref', 'ref'):
                a1 = strip_ref(a1[1])
            if a1[0] == 'init' and len(b.defs.get(a1[1], [])) >= 2:
                return a1[1]
    return None


def encode_fn(rep, f, c):
    fn = 'Encoding::encode'
    b = f.body(fn)
    if b is None:
        rep.undecidable('C11', fn, 'not found', None, c)
        return
    site = sp_str(b.raw['span'])
    heads = loop_heads(b)
    pre = [p for p in (summarize(b, blks, end) for blks, end in enumerate_block_paths(b, 0, stop=heads)) if feasible(p)]
    oe = None
    nb = 0
    for p in pre:
        at = sp_str(b.blocks[p.blocks[-1]]['tsp'])
        oc = [e for e in p.calls() if e[1] == 'Encoding::output_encoding']
        if len(oc) != 1 or strip_ref(oc[0][2][0]) != SELF:
            rep.ob('C11-D3.encode-setup', fn, False, 'encode does not start from self.output_encoding()', at, None, c)
            continue
        oe = ('call', oc[0][1], oc[0][2], oc[0][3])
        ec = enc_conds(p, oe)
        data = None
        for e in p.calls():
            if e[1] == 'core::str::<impl str>::as_bytes' and strip_ref(e[2][0]) == ARG:
                data = ('call', e[1], e[2], e[3])
        rv = p.env.get(0) if p.end[0] == 'return' else None
        borrowed = find_agg(rv, 'Cow::Borrowed') if rv is not None else None
        v = validity(p, strip_ref(data)) if data is not None else None
        if borrowed is not None:
            nb += 1
            pay = strip_ref(borrowed[2][0])
            alias = pay[0] == 'call' and pay[1] == 'core::str::<impl str>::as_bytes' and strip_ref(pay[2][0]) == ARG
            if ec.get('UTF_8') is True:
                good = True
            else:
                good = bool(v) and v[1] is True and ((v[0] == 'iso2022jp' and ec.get('ISO_2022_JP') is True) or (v[0] == 'ascii' and ec.get('ISO_2022_JP') is False))
            enc_ret = rv[2][1] if rv[0] == 'agg' else None
            rep.ob('C11-D1.borrow', fn, alias and good and enc_ret is not None and strip_ref(enc_ret) == oe and rv[2][2] == ('c', 0, 'bool'),
                   'encode() borrows although the output encoding is neither UTF-8 nor does its class validator accept the text, or does not report (output_encoding, false)', at,
                   {'encoding_tests': {str(k): x for k, x in ec.items()}, 'validator': v and v[0]}, c)
        elif ec.get('UTF_8') is True or (v and v[1] is True):
            rep.ob('C11-D1.promise', fn, False, 'encode() must borrow when the output encoding is UTF-8 or the text passes the class validator', at, None, c)
        elif p.end[0] == 'stop':
            ne = [e for e in p.calls() if e[1] == 'Encoding::new_encoder']
            ext = [e for e in p.calls() if (e[1] or '').endswith('::extend_from_slice')]
            pre_nf = slice_nf(ext[0][2][1], ARG) if len(ext) == 1 else None
            ok = len(ne) == 1 and strip_ref(ne[0][2][0]) == oe and v is not None and pre_nf == (C(0), v[2])
            tr = loop_roles(b, heads[0], 'Encoder::encode_from_utf8_to_vec')[0] if heads else None
            if tr is not None:
                ok &= p.env.get(tr) == v[2]
            else:
                # the rest of the input kept as a shrinking slice: it starts as string[valid_up_to..]
                sl = enc_slice_cursor(b, heads[0]) if heads else None
                ok &= sl is not None and v is not None and p.env.get(sl) is not None and slice_nf(p.env.get(sl), ARG) == (v[2], None)
            rep.ob('C11-D3.encode-setup', fn, ok, 'conversion path does not use output_encoding.new_encoder(), copy bytes[..valid_up_to] and start at total_read = valid_up_to', at, None, c)
    rep.ob('C11-D1.cases', fn, nb >= 3, 'expected borrow paths for UTF-8 output, ISO-2022-JP and ASCII-compatible encodings (found %d)' % nb, site, {'borrow_paths': nb}, c)
    if heads and oe is not None:
        TRl = loop_roles(b, heads[0], 'Encoder::encode_from_utf8_to_vec')[0]
        slice_mode = False
        if TRl is None:
            TRl = enc_slice_cursor(b, heads[0])
            slice_mode = TRl is not None
        TR = ('init', TRl)
        ok = TRl is not None
        kinds = set()
        lpaths = [p for p in region_paths(b, heads[0], env0=arg_aliases(b)) if feasible(p) and p.end[0] != 'diverge']
        # the unmappable flag: the bool that some iteration ORs the call's had_unmappables into
        TEl = None
        for p in lpaths:
            ec_ = [e for e in p.calls() if e[1] == 'Encoder::encode_from_utf8_to_vec']
            if len(ec_) != 1:
                continue
            res = ('call', ec_[0][1], ec_[0][2], ec_[0][3])
            for l, v in p.env.items():
                if isinstance(l, int) and b.locals[l]['ty'] == 'bool' and len(b.defs.get(l, [])) >= 2 and v != ('init', l) and v != ('c', 0, 'bool') and \
                        or_of(p, v, ('init', l), tuple_field(res, 2)):
                    TEl = l
        TE = ('init', TEl) if TEl is not None else None
        flag_ok = TEl is not None
        for p in lpaths:
            ec_ = [e for e in p.calls() if e[1] == 'Encoder::encode_from_utf8_to_vec']
            if len(ec_) != 1:
                ok = False
                continue
            a = ec_[0][2]
            ix = index_from(a[1])
            if slice_mode:
                a1_ = strip_ref(a[1])
                while a1_[0] in ('deref', 'ref'):
                    a1_ = strip_ref(a1_[1])
                ok &= a1_ == TR and a[3] == ('c', 1, 'bool')
            else:
                ok &= ix is not None and len(ix) == 2 and strip_ref(ix[0]) == ARG and ix[1] == TR and a[3] == ('c', 1, 'bool')
            res = ('call', ec_[0][1], a, ec_[0][3])
            kind_ = result_kind(f, p, tuple_field(res, 0))
            rv = p.env.get(0)
            he = tuple_field(res, 2)
            if kind_ == 'InputEmpty':
                kinds.add('done')
                ok &= p.end[0] == 'return' and rv is not None and rv[0] == 'agg' and find_agg(rv[2][0], 'Cow::Owned') is not None
                if TEl is not None:
                    flag_ok &= rv is not None and rv[0] == 'agg' and len(rv[2]) == 3 and or_of(p, rv[2][2], TE, he)
            elif kind_ == 'OutputFull':
                kinds.add('grow')
                if slice_mode:
                    ok &= p.end[0] == 'back' and slice_nf(p.env.get(TRl, TR), TR) == (tuple_field(res, 1), None)
                else:
                    ok &= p.end[0] == 'back' and sum_of(p.env.get(TRl, TR), TR, tuple_field(res, 1))
                if TEl is not None:
                    flag_ok &= or_of(p, p.env.get(TEl, TE), TE, he)
        rep.ob('C11-D3.encode-loop', fn, ok and kinds == {'done', 'grow'}, 'encode loop is not: encode_from_utf8_to_vec(&string[total_read..], &mut vec, true) until InputEmpty, growing on OutputFull', site, {'cases': sorted(kinds)}, c)
        if TEl is not None:
            for p in [p for p in pre if p.end[0] == 'stop']:
                flag_ok &= p.env.get(TEl) == ('c', 0, 'bool')
        rep.ob('C11-D3.encode-flag', fn, flag_ok, 'the had_unmappables results of the encode_from_utf8_to_vec calls are not accumulated (OR-ed, starting from false) across the '
               'iterations of the loop and returned: replacements made by an earlier call are not reported', site, None, c)


def run(rep, facts, tier):
    for c, f in facts.items():
        decode_fn(rep, f, c, 'Encoding::decode_without_bom_handling', True)
        decode_fn(rep, f, c, 'Encoding::decode_without_bom_handling_and_without_replacement', False)
        encode_fn(rep, f, c)
        r_strsafe.unchecked_str(rep, f, c, 'C11-D1.class', check_class=True, only=lambda n: n.startswith('Encoding::'))
        p_c19.d5(rep, f, c)
        p_c10.one_shot(rep, f, c)
        import scan
        scan.run_specs(rep, f, c, 'R-SCAN', ['utf_8::utf8_valid_up_to'])     # decides how much of a UTF-8 input the one-shot API borrows
    return ('other', MANIFEST['text'], [])
