"""R-EFFECT — "may store destination units beyond the count it reports", per configuration (DESIGN.md §5).

Seed: a stride kernel (some parameter of type `&mut [T; N]`, result Option<..>) that stores the whole array through
that parameter — directly or through a helper that does — at a point that is not control-dependent on any test
(so also on the paths that go on to return `Some(position)`).  The effect propagates to every caller."""
import re
from mirlib import *

ARR_PARAM = re.compile(r"^&(?:'\w+ )?mut (\[+)(u8|u16); \d+\]")


def arr_depth(ty):
    m = ARR_PARAM.match(ty)
    return len(m.group(1)) if m else 0


def root_param(e):
    """Parameter local an address expression is derived from (through reborrows / indexing), or None."""
    e = strip_ref(e)
    n = 0
    while e[0] in ('idx', 'ref', 'deref'):
        if e[0] == 'idx':
            n += 1
        e = e[1]
    return (e[1], n) if e[0] == 'loc' else (None, 0)


def array_store_events(f, body, memo):
    """[(bb, param)] — blocks where a whole [T; N] array is stored into memory reached through a `&mut [..; N]` parameter,
    directly or by a callee that does so unconditionally."""
    arr_params = {i: arr_depth(body.locals[i]['ty']) for i in range(1, body.arg_count + 1) if arr_depth(body.locals[i]['ty'])}
    out = []
    if not arr_params:
        return out
    r = Resolver(body)
    for bi, blk in enumerate(body.blocks):
        if blk.get('cleanup'):
            continue
        for st in blk['s']:
            if 'assign' in st and st['assign']['p'] and st['assign']['p'][0] == 'deref':
                pl = st['assign']
                nidx = sum(1 for e in pl['p'] if isinstance(e, dict) and ('index' in e or 'const_index' in e))
                root, n0 = root_param(r.local(pl['l']))
                if root in arr_params and arr_params[root] - n0 - nidx >= 1:
                    out.append((bi, root))
        t = blk['t']
        if 'call' in t:
            cb = f.body(t['call'].get('fn') or '')
            if cb is not None:
                sub = unconditional_store_params(f, cb, memo)
                for i, a in enumerate(t['args']):
                    if (i + 1) in sub:
                        root, n0 = root_param(r.operand(a))
                        if root in arr_params:
                            out.append((bi, root))
    return out


def unconditional_store_params(f, body, memo):
    if body.name in memo:
        return memo[body.name]
    memo[body.name] = set()
    out = set()
    for bi, p in array_store_events(f, body, memo):
        if not controlling_edges(body, bi):
            out.add(p)
    memo[body.name] = out
    return out


def some_blocks(body):
    out = set()
    for bi, blk in enumerate(body.blocks):
        for st in blk['s']:
            if 'assign' in st and 'aggregate' in st['rv'] and isinstance(st['rv']['aggregate'], dict) and \
                    st['rv']['aggregate'].get('adt') == 'core::option::Option' and st['rv']['aggregate'].get('variant') == 'Some':
                out.add(bi)
        t = blk['t']
        # a tail call whose Option result is returned as is may be Some
        if 'call' in t and t['dest']['l'] == 0 and not t['dest']['p']:
            out.add(bi)
    return out


def seeds(f):
    """{kernel: [params]} — kernels that can store a whole stride and still answer Some(position)."""
    memo = {}
    out = {}
    for name, b in f.bodies.items():
        if b.kind not in ('fn', 'assoc_fn') or not b.raw.get('ret', '').startswith('core::option::Option<'):
            continue
        evs = array_store_events(f, b, memo)
        if not evs:
            continue
        somes = some_blocks(b)
        hit = set()
        for bi, p in evs:
            if b.reach_from([bi]) & somes:
                hit.add(p)
        if hit:
            out[name] = sorted(hit)
    return out


def callers_closure(f, seedset):
    """All bodies that can reach a seed through resolved calls (closures included via their parent call sites)."""
    rev = {}
    for name, b in f.bodies.items():
        for bi, t in b.calls():
            fn = t['call'].get('fn')
            if fn:
                rev.setdefault(fn, set()).add(name)
            # closures passed as arguments
            for a in t['args']:
                c = a.get('const')
                if c and 'zst' in c and 'closure' in c.get('ty', ''):
                    pass
        # closure bodies are attributed to their parent function
        if b.kind == 'closure':
            parent = name.rsplit('::{closure', 1)[0]
            rev.setdefault(name, set()).add(parent)
    eff = set(seedset)
    work = list(seedset)
    while work:
        x = work.pop()
        for c in rev.get(x, ()):
            if c not in eff:
                eff.add(c)
                work.append(c)
    return eff
