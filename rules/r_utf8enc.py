"""R-UTF8ENC — the UTF-8 to UTF-8 "encoder" copies the longest prefix of the input that fits and ends on a character boundary.

`Utf8Encoder::encode_from_utf8_raw(src: &str, dst)` is hand-written (no handles), so none of the handle rules see it.  Verification
conditions over its acyclic paths, with t the loop-carried cut position:
  fits        on the path where src.len() <= dst.len() (however written): dst[..n] <- all of src, result (InputEmpty, n, n), n = src.len()
  start       otherwise the search for a boundary starts at exactly dst.len() (lower would give up space that is there: with a
              minimum-size buffer and a four-byte character nothing is ever consumed; higher would overrun)
  step        an iteration that goes on has seen a continuation byte at src[t] ((b & 0xC0) == 0x80) and continues with t - 1
  cut         leaving the loop (src[t] is not a continuation byte): dst[..t] <- src[..t], result (OutputFull, t, t) with that same t —
              the count reported as written is the count copied
Core semantics of copy_from_slice / index are trusted.
"""
from mirlib import *
from paths import *
from shape import *
from ranges import ISet, _mk, leaves

CONT_SET = ISet.of((0x80, 0xBF))

FN = 'utf_8::Utf8Encoder::encode_from_utf8_raw'
SRC, DST = ('loc', 2), ('loc', 3)


_EXP = {}


def expand(e):
    """a local with a single definition (`let bytes = src.as_bytes()`) appears as ('init', l) in a region that starts after it:
    put its definition back"""
    if not isinstance(e, tuple) or not e:
        return e
    if e[0] == 'init' and e[1] in _EXP:
        return _EXP[e[1]]
    return tuple(expand(x) if isinstance(x, tuple) else x for x in e)


def is_src_bytes(e):
    e = expand(e)
    e = strip_ref(e)
    while e[0] in ('deref', 'ref'):
        e = strip_ref(e[1])
    if e[0] == 'call' and (e[1] or '').endswith('::as_bytes') and e[2]:
        return is_src_bytes(e[2][0])
    return e == SRC


def is_dst(e):
    e = strip_ref(e)
    while e[0] in ('deref', 'ref'):
        e = strip_ref(e[1])
    return e == DST


def src_len(e):
    return e[0] == 'len' and is_src_bytes(e[1])


def dst_len(e):
    return e[0] == 'len' and is_dst(e[1])


def prefix_of(e, pred):
    """e = &x[..k] with pred(x) -> k; e = x itself -> 'all'"""
    s = strip_ref(e)
    while s[0] in ('deref', 'ref'):
        s = strip_ref(s[1])
    if pred(s):
        return 'all'
    ix = index_from(s)
    if ix is not None and len(ix) == 3 and pred(ix[0]) and ix[1] == C(0):
        return ix[2]
    return None


def run(rep, f, c, rule='R-UTF8ENC'):
    b = f.body(FN)
    if b is None:
        rep.undecidable(rule, FN, 'function not found', None, c)
        return 0
    site = sp_str(b.raw['span'])
    heads = loop_heads(b)
    n = 0

    def ob(name, ok, msg, at=None):
        nonlocal n
        n += 1
        rep.ob(rule + '.' + name, FN, ok, msg, at or site, None, c)
    if len(heads) != 1:
        rep.undecidable(rule, FN, 'expected one boundary-search loop, found %d' % len(heads), site, c)
        return 0
    H = heads[0]
    _EXP.clear()
    r_ = Resolver(b)
    for l in range(b.arg_count + 1, len(b.locals)):
        if b.single_def(l) is not None:
            _EXP[l] = r_.local(l)
    pre = [p for p in region_paths(b, 0, stop=[H]) if p.end[0] != 'diverge']
    inl = [p for p in region_paths(b, H, stop=[H]) if p.end[0] != 'diverge']
    # the loop-carried cut position: the usize local the loop decrements
    T = None
    for p in inl:
        if p.end[0] in ('stop', 'back'):
            for l, v in p.env.items():
                if isinstance(l, int) and b.locals[l]['ty'] == 'usize' and v == ('bin', 'Sub', ('init', l), C(1)):
                    T = l
    if T is None:
        rep.undecidable(rule, FN, 'cut position (the local the loop decrements) not found', site, c)
        return 0
    t0 = ('init', T)

    def copies(p):
        out = []
        for e in p.calls():
            if (e[1] or '').endswith('::copy_from_slice') and len(e[2]) == 2:
                out.append((prefix_of(e[2][0], is_dst), prefix_of(e[2][1], is_src_bytes)))
        return out

    def fits_known(p):
        """True: the path knows src.len() <= dst.len(); False: knows the opposite; None: unknown"""
        for e in p.conds():
            ce, t = e[1], e[2]
            if ce[0] == 'bin' and ce[1] in ('Le', 'Lt', 'Ge', 'Gt') and isinstance(t, bool):
                op, x, y = ce[1], ce[2], ce[3]
                if op in ('Ge', 'Gt'):
                    op, x, y = {'Ge': 'Le', 'Gt': 'Lt'}[op], y, x
                if op == 'Le' and src_len(x) and dst_len(y):
                    return t
                if op == 'Lt' and dst_len(x) and src_len(y):
                    return not t
        return None
    ok_fit, ok_start = False, True
    why_fit = 'no path handles the input that fits'
    why_start = ''
    for p in pre:
        fk = fits_known(p)
        if p.end[0] == 'return':
            rv = p.env.get(0)
            cp = copies(p)
            good = fk is True and rv is not None and rv[0] == 'agg' and variant_name(rv[2][0]) == 'InputEmpty' and src_len(rv[2][1]) and src_len(rv[2][2]) and \
                len(cp) == 1 and cp[0][1] == 'all' and cp[0][0] is not None and cp[0][0] != 'all' and src_len(cp[0][0])
            ok_fit = good
            if not good:
                why_fit = 'when src.len() <= dst.len() the whole input must be copied to dst[..src.len()] and (InputEmpty, len, len) returned'
        elif p.end[0] == 'stop':
            v = p.env.get(T)
            if not (fk is False and v is not None and dst_len(v)):
                ok_start = False
                why_start = 'the boundary search must start at dst.len() when the input does not fit; it starts at %s' % (expr_str(v, b)[:60] if v is not None else None)
    ob('fits', ok_fit, why_fit)
    ob('start', ok_start and any(p.end[0] == 'stop' for p in pre), why_start or 'the loop is never entered')
    ok_step = ok_cut = True
    why_step = why_cut = ''
    nstep = ncut = 0
    for p in inl:
        conts = []
        for e in p.conds():
            ce, t = e[1], e[2]
            if not (isinstance(t, bool) and isinstance(ce, tuple) and ce[0] == 'bin'):
                continue
            # a test of one byte of the source: is it "continuation byte" (80-BF), however it is computed
            # ((b & 0xC0) == 0x80, (b as i8) < -0x40, 0x80 <= b && b <= 0xBF as one comparison ...)?  Decided by R-RANGE.
            ls = []
            for l_ in leaves(ce):
                if l_ not in ls:
                    ls.append(l_)
            if len(ls) != 1:
                continue
            x = ls[0]
            x = x[1] if x[0] == 'deref' else x
            if not (x[0] == 'idx' and is_src_bytes(x[1])):
                continue
            ra = _mk(f, b, Resolver(b), ls[0], 8, 256)
            ts, fs, us = ra.ev(ce).truth_set()
            if us:
                continue
            if ts == CONT_SET:
                conts.append((expand(x[2]) == t0 or x[2] == t0, t))
            elif fs == CONT_SET:
                conts.append((expand(x[2]) == t0 or x[2] == t0, not t))
        if p.end[0] in ('stop', 'back'):
            nstep += 1
            if not (conts == [(True, True)] and p.env.get(T) == ('bin', 'Sub', t0, C(1)) and not copies(p)):
                ok_step = False
                why_step = 'an iteration that continues must have seen a continuation byte at src[t] and step back by exactly one'
        elif p.end[0] == 'return':
            ncut += 1
            rv = p.env.get(0)
            cp = copies(p)
            good = conts == [(True, False)] and len(cp) == 1 and cp[0] == (t0, t0) and rv is not None and rv[0] == 'agg' and \
                variant_name(rv[2][0]) == 'OutputFull' and rv[2][1] == t0 and rv[2][2] == t0
            if not good:
                ok_cut = False
                why_cut = ('at the boundary t the function must copy src[..t] to dst[..t] and return (OutputFull, t, t); it copies %s and returns %s' %
                           ([(expr_str(a_, b)[:30] if isinstance(a_, tuple) else a_, expr_str(b_, b)[:30] if isinstance(b_, tuple) else b_) for a_, b_ in cp],
                            expr_str(rv, b)[:120] if rv is not None else None))
    ob('step', ok_step and nstep >= 1, why_step or 'no continuing iteration')
    ob('cut', ok_cut and ncut >= 1, why_cut or 'no exit from the boundary search')
    return n
