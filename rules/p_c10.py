"""C10 — BOM sniffing / removal / no-BOM (R-AUTOMATON, DESIGN.md §5, §6 C10, Appendix A.1)."""
from mirlib import *
from paths import *
from shape import *
from ranges import *

MANIFEST = {
    'category': 'other',
    'text': 'The DecoderLifeCycle automaton is extracted from MIR for both sinks by enumerating every path of one dispatch-loop '
            'iteration of Decoder::decode_to_utf{8,16}_without_replacement and of the four helper functions, and compared, '
            'transition by transition, with the reference automaton transcribed from the Standard\'s BOM sniff and the crate '
            'documentation: BOM byte constants EF BB BF / FE FF / FF FE, next states, offset accounting, morph targets (encoding '
            'and variant replaced together), which helper is entered with which arguments, replay arrays ([b], [EF,BB], fed with '
            'last=false before the real input), how read/written/result of the delegate calls are recombined (read overwritten, '
            'written summed, `after` increased by the acknowledged-but-requeued BB), Finished only on last && InputEmpty. Start '
            'states per BOM mode (Decoder::new and the three new_decoder* constructors) and the one-shot siblings (for_bom: three '
            'prefixes with lengths 3/2/2; decode / decode_with_bom_removal strip exactly those) are decided the same way. This '
            'holds for every split of the first bytes because the automaton is checked per state, not per history. Decoding of '
            'the tail is C01/C02.',
    'note': 'Trusted: rustc MIR, mirx, rule library, the reference automaton in rules/p_c10.py (DESIGN.md Appendix A.1), slice::starts_with.',
    'technique': 'automaton extraction by bounded path enumeration over MIR + comparison with a reference transition table',
}
CONFIGS = {'quick': ['default'], 'thorough': ['default', 'noalloc', 'simd']}

SELF, SRC, DST, LAST = ('loc', 1), ('loc', 2), ('loc', 3), ('loc', 4)


def static_of(e):
    """*(&STATIC) -> name"""
    e = strip_ref(e)
    if e[0] == 'cptr':
        import json
        return json.loads(e[1]).get('static')
    return None


def feasible(p):
    """Drop paths taking the false side of a literal `true` (cfg!(debug_assertions)) and debug-assert failures."""
    for e in p.conds():
        if e[1] == ('c', 1, 'bool') and e[2] is False:
            return False
        if e[1] == ('c', 0, 'bool') and e[2] is True:
            return False
    if p.end[0] == 'diverge' and any((c[1] or '').endswith('assert_failed') for c in p.calls()):
        return False
    return True


def is_debug_cond(e):
    """conditions that belong to debug_assert_eq!(..) expansions"""
    if e[1] == ('c', 1, 'bool') or (e[1][0] == 'c' and len(e[1]) == 3 and e[1][2] == 'bool'):
        return True          # a branch on a constant (the executable side was selected by feasible())
    if e[1][0] == 'bin' and e[1][1] == 'Eq' and any(s[0] == 'cptr' for s in walk(e[1])):
        return True
    return False


def same_malformed(x, r0):
    """x is the replay's own Malformed result r0: passed through, or rebuilt from its two payload fields"""
    if x == r0:
        return True
    pay = ('as', r0, 'Malformed')
    return x is not None and x[0] == 'agg' and variant_name(x) == 'Malformed' and tuple(x[2]) == (('fld', pay, '0'), ('fld', pay, '1'))


def variant_decoder_of(v):
    """E if v builds the variant decoder of encoding E: `E.new_variant_decoder()` or, written out, `E.variant.new_variant_decoder()`"""
    if v[0] != 'call' or not v[2]:
        return None
    if v[1] == 'Encoding::new_variant_decoder':
        return v[2][0]
    if v[1] == 'variant::VariantEncoding::new_variant_decoder':
        a = strip_ref(v[2][0])
        while a[0] == 'ref':
            a = strip_ref(a[1])
        if a[0] == 'fld' and a[2] == 'variant' and a[1][0] == 'deref':
            return a[1][1]
    return None


class Norm:
    def __init__(self, b, off_local=None, extra=None):
        self.b = b
        self.off = off_local
        self.names = {SELF: 'self', SRC: 'src', DST: 'dst', LAST: 'last'}
        if extra:
            self.names.update(extra)

    def __call__(self, e):
        b = self.b
        s = strip_ref(e)
        if s in self.names:
            return self.names[s]
        if e in self.names:
            return self.names[e]
        if self.off is not None:
            if s == ('init', self.off):
                return 'o'
            if s == ('bin', 'Add', ('init', self.off), C(1)):
                return 'o+1'
        if s[0] == 'c':
            if s[2] == 'bool':
                return 'true' if s[1] else 'false'
            return '%X' % s[1] if s[2] == 'u8' else str(s[1])
        if s[0] == 'agg' and s[1] == 'array':
            return '[' + ','.join(self(x) for x in s[2]) + ']'
        ix = index_from(s)
        if ix:
            base = self(ix[0])
            if len(ix) == 2:
                return '%s[%s..]' % (base, self(ix[1]))
            return '%s[%s..%s]' % (base, self(ix[1]), self(ix[2]))
        if s[0] == 'call' and 'array' in (s[1] or '') and s[1].endswith('::index'):
            return self(s[2][0]) + '[..]'
        if s[0] == 'fld' and s[1] == ('deref', SELF):
            return 'self.' + s[2]
        if s[0] == 'agg' and variant_name(s):
            if s[2]:
                return variant_name(s) + '(' + ','.join(self(x) for x in s[2]) + ')'
            return variant_name(s)
        if s[0] == 'bin' and s[1] == 'Add':
            return '(' + self(s[2]) + '+' + self(s[3]) + ')'
        if s[0] == 'fld':
            return self(s[1]) + '.' + s[2]
        if s[0] == 'as':
            return self(s[1]) + '@' + s[2]
        st = static_of(s)
        if st:
            return st
        return expr_str(s, b)[:60]


def main_transitions(rep, f, c, sink):
    fn = 'Decoder::decode_to_%s_without_replacement' % sink
    b = f.body(fn)
    if b is None:
        rep.undecidable('C10-D1', fn, 'function not found', None, c)
        return None
    site = sp_str(b.raw['span'])
    heads = loop_heads(b)
    if len(heads) != 1:
        rep.undecidable('C10-D1', fn, 'expected one dispatch loop', site, c)
        return None
    # the offset counter: the usize local that is 0 before the dispatch loop and is compared with src.len() inside it
    offl = []
    r0 = Resolver(b)
    for i, l in enumerate(b.locals):
        if l['ty'] == 'usize' and i > b.arg_count and len(b.defs.get(i, [])) >= 2:
            inits = [d for d in b.defs.get(i, []) if d[2] == 'assign' and r0.rvalue(d[3]['rv']) == C(0) and d[0] not in b.reach_from(heads)]
            cmp_ = any('switch' in blk['t'] and (lambda e: e[0] == 'bin' and e[1] in ('Ge', 'Lt') and e[2] == ('loc', i) and e[3] == ('len', SRC))(Resolver(b).operand(blk['t']['switch'])) for blk in b.blocks)
            if not cmp_:
                # ... or is the position of a checked access `src.get(offset)`
                cmp_ = any((b.callee(t_) or '') == 'core::slice::<impl [T]>::get' and len(t_['args']) == 2 and (op_place(t_['args'][1]) or {}).get('l') == i or
                           ((b.callee(t_) or '') == 'core::slice::<impl [T]>::get' and len(t_['args']) == 2 and Resolver(b).operand(t_['args'][1]) == ('loc', i))
                           for _, t_ in b.calls())
            if inits and cmp_:
                offl.append(i)
    if len(offl) != 1:
        rep.undecidable('C10-D1', fn, 'offset local not found', site, c)
        return None
    off = offl[0]
    # offset starts at 0
    pre = [summarize(b, blks, end) for blks, end in enumerate_block_paths(b, 0, stop=heads)]
    rep.ob('C10-D1.offset-init', fn, all(p.env.get(off) == C(0) for p in pre if p.end[0] == 'stop') and bool(pre),
           'offset is not initialised to 0', site, None, c)
    N = Norm(b, off)
    paths = [p for p in region_paths(b, heads[0]) if feasible(p)]
    rep.count('paths:' + fn, len(paths))
    # The first iteration is also extracted from the function entry: what is decided before the loop (a guard hoisted out of the
    # arms: `if src.is_empty() && matches!(self.life_cycle, AtStart | ..) { return .. }`) is part of its conditions.  Later
    # iterations start in a state that a continuing transition can leave behind; transitions extracted from the loop head alone
    # count only for those states.
    later = _extract_transitions(rep, f, c, fn, b, off, N, paths, sink)
    pre_f = [p for p in pre if feasible(p) and p.end[0] != 'diverge']
    if not (any(p.end[0] == 'return' for p in pre_f) or any(p.conds() for p in pre_f)):
        return later
    if any(p.stores() for p in pre_f):
        rep.undecidable('C10-D1', fn, 'state is modified before the dispatch loop', site, c)
        return later
    pre_t = _extract_transitions(rep, f, c, fn, b, off, N, pre_f, sink, pre_mode=True)
    first = {t_ for t_ in pre_t if t_[3] != 'stop'}
    for s_, g_, eff_, end_ in later:
        for s2, g2, eff2, end2 in pre_t:
            if end2 != 'stop' or s2 != s_:
                continue
            gs = tuple(dict.fromkeys(tuple(g2) + tuple(g_)))
            if any(('!' + x) in gs for x in gs if not x.startswith('!')):
                continue          # contradictory: this first iteration cannot happen
            first.add((s_, gs, eff_, end_))
    after_continue = set()
    for s_, g_, eff_, end_ in first | later:
        if end_ == 'continue':
            nxt = [x[len('state:='):] for x in eff_ if x.startswith('state:=')]
            after_continue.add(nxt[-1] if nxt else s_)
    return first | {t_ for t_ in later if t_[0] in after_continue}


def _extract_transitions(rep, f, c, fn, b, off, N, paths, sink, pre_mode=False):
    out = set()
    _MEMS.clear()
    _MEMS.update({k_: bytes.fromhex(v_['bytes']) for k_, v_ in f.mems.items() if v_.get('size') == 2})
    lc_all = {v_['name'] for v_ in (f.adts.get('DecoderLifeCycle') or {'variants': []})['variants']}
    for p in paths:
        st = [e for e in p.conds() if e[1][0] == 'variant' and e[1][1] == ('fld', ('deref', SELF), 'life_cycle')]
        if p.end[0] == 'diverge' and not p.calls() and 'unreachable' in b.blocks[p.end[1]]['t']:
            continue   # the `unreachable` otherwise-edge of the match
        if len(st) < 1 and not pre_mode:
            rep.undecidable('C10-D1', fn, 'path does not dispatch on life_cycle', sp_str(b.blocks[p.blocks[-1]]['tsp']), c)
            continue
        # an arm shared by several states (`A | B => ..`) may look at the state again inside: the path stands for the states that
        # satisfy all of its matches
        states = set(lc_all) if pre_mode else None
        for e_ in st:
            labs_ = set(e_[2] if isinstance(e_[2], tuple) else (e_[2],))
            if None in labs_:
                # the otherwise edge: every state without an edge of its own at that switch
                listed_ = {variant_of_edge(b, e_[3], l_) for l_, _ in switch_edges(b, e_[3])} - {None}
                labs_ = (labs_ - {None}) | (lc_all - {str(x) for x in listed_})
            states = labs_ if states is None else (states & labs_)
        # `self.life_cycle == X` / `!= X` inside a shared arm narrows the states the same way
        lc_adt = f.adts.get('DecoderLifeCycle')
        lc_eq = []
        for e_ in p.conds():
            ce_ = e_[1]
            if ce_[0] == 'call' and (ce_[1] or '').endswith(('::eq', '::ne')) and len(ce_[2]) == 2 and isinstance(e_[2], bool) and lc_adt is not None:
                a0 = strip_ref(ce_[2][0])
                while a0[0] in ('deref', 'ref'):
                    a0 = strip_ref(a0[1])
                if a0 != ('fld', ('deref', SELF), 'life_cycle'):
                    continue
                a1 = strip_ref(ce_[2][1])
                while a1[0] in ('deref', 'ref'):
                    a1 = strip_ref(a1[1])
                k_ = None
                if a1[0] == 'agg':
                    k_ = variant_name(a1)
                elif a1[0] == 'cptr' and a1[2] == 0:
                    import json as _json
                    tgt_ = _json.loads(a1[1])
                    if 'mem' in tgt_ and str(tgt_['mem']) in f.mems:
                        dv_ = int.from_bytes(f.mem_bytes(tgt_['mem']), 'little')
                        ks_ = [v_['name'] for v_ in lc_adt['variants'] if v_['discr'] == dv_]
                        k_ = ks_[0] if len(ks_) == 1 else None
                if k_ is None:
                    continue
                lc_eq.append(e_)
                is_k = (ce_[1].endswith('::eq')) == e_[2]
                states = (states & {k_}) if is_k else (states - {k_})
        if not states:
            continue            # contradictory matches: not executable
        states = tuple(sorted(states))
        guards = []
        for e in p.conds():
            if any(e is x_ for x_ in st) or any(e is x_ for x_ in lc_eq) or is_debug_cond(e):
                continue
            ce = e[1]
            if ce[0] == 'is_empty' and strip_ref(ce[1]) == SRC:
                guards.append('empty' if e[2] else '!empty')
            elif ce == LAST:
                guards.append('last' if e[2] else '!last')
            elif ce[0] == 'bin' and ce[1] in ('Ge', 'Lt', 'Le', 'Gt') and N(ce[2]) == 'o' and ce[3] == ('len', SRC) and ce[1] in ('Ge', 'Lt'):
                guards.append('end' if e[2] == (ce[1] == 'Ge') else '!end')
            elif ce[0] == 'bin' and ce[1] in ('Le', 'Gt') and N(ce[3]) == 'o' and ce[2] == ('len', SRC):
                # len <= o  /  len > o
                guards.append('end' if e[2] == (ce[1] == 'Le') else '!end')
            elif ce[0] == 'bin' and ce[1] in ('Eq', 'Ne') and {ce[2], ce[3]} == {('len', SRC), C(0)}:
                guards.append('empty' if e[2] == (ce[1] == 'Eq') else '!empty')
            elif ce[0] == 'bin' and ce[1] in ('Eq', 'Ne') and ce[2][0] == 'idx' and strip_ref(ce[2][1]) == SRC and N(ce[2][2]) == 'o' and ce[3][0] == 'c':
                t = e[2] if ce[1] == 'Eq' else (not e[2])
                guards.append('%ssrc[o]=%X' % ('' if t else '!', ce[3][1]))
            elif ce[0] == 'idx' and strip_ref(ce[1]) == SRC and ce[2] == C(0):
                if e[2] == 'else':
                    vals = sorted(v for v, _ in b.blocks[e[3]]['t']['targets'])
                    guards.append('src[0] not in {%s}' % ','.join('%X' % v for v in vals))
                else:
                    guards.append('src[0]=%X' % e[2])
            elif next_byte_test(ce, b, N) is not None and isinstance(e[2], bool):
                kind_, val_ = next_byte_test(ce, b, N)
                if kind_ == 'none':
                    guards.append('end' if e[2] == val_ else '!end')
                else:
                    guards.append('%snext=%X' % ('' if e[2] else '!', val_))
            elif ce[0] == 'call' and (ce[1] or '').endswith('::ne') and strip_ref(ce[2][0]) == ('fld', ('deref', SELF), 'encoding'):
                guards.append('%sencoding!=%s' % ('' if e[2] else '!', static_of(ce[2][1])))
            elif ce[0] == 'call' and (ce[1] or '').endswith('::eq') and strip_ref(ce[2][0]) == ('fld', ('deref', SELF), 'encoding'):
                guards.append('%sencoding!=%s' % ('!' if e[2] else '', static_of(ce[2][1])))
            else:
                guards.append('?' + expr_str(ce, b)[:80] + '=' + str(e[2]))
        effects = []
        for e in p.stores():
            pl = e[1]
            if pl == ('fld', ('deref', SELF), 'life_cycle'):
                effects.append('state:=' + (variant_name(e[2]) or '?'))
            elif pl == ('fld', ('deref', SELF), 'encoding'):
                effects.append('encoding:=' + str(static_of(e[2])))
            elif pl == ('fld', ('deref', SELF), 'variant'):
                v = e[2]
                enc_ = variant_decoder_of(v)
                if enc_ is not None:
                    effects.append('variant:=new(' + str(static_of(enc_)) + ')')
                else:
                    effects.append('variant:=?')
            else:
                effects.append('store?' + expr_str(pl, b)[:60])
        offv = p.env.get(off)
        if offv is not None and N(offv) != 'o':
            # the offset in linear form: o + k however it was computed (`offset += consumed` with consumed = 0 is no change)
            try:
                terms_, k_ = add_terms(offv)
            except Exception:
                terms_, k_ = None, None
            if terms_ == (('init', off),) and isinstance(k_, int):
                if k_ != 0:
                    effects.append('offset:=o+%d' % k_)
            else:
                effects.append('offset:=' + N(offv))
        calls = [e for e in p.calls() if (e[1] or '').startswith('Decoder::')]
        if p.end[0] == 'back':
            end = 'continue'
        elif p.end[0] == 'stop' and pre_mode:
            end = 'stop'
        elif p.end[0] == 'diverge':
            end = 'panic'
        else:
            rv = p.env.get(0)
            if rv is not None and rv[0] == 'call' and (rv[1] or '').startswith('Decoder::'):
                end = 'return %s(%s)' % (rv[1].split('::')[1].replace(sink, 'X'), ','.join(N(a) for a in rv[2]))
            elif rv is not None and rv[0] == 'agg':
                end = 'return (' + ','.join(N(x) for x in rv[2]) + ')'
                # checking_end_with_offset written out: (r, read, w) = checking_end(self, &src[k..], dst, last); return (r, read + k, w)
                if len(rv[2]) == 3 and len(calls) == 1 and calls[0][1] == 'Decoder::decode_to_%s_checking_end' % sink:
                    a_ = calls[0][2]
                    res_ = ('call', calls[0][1], a_, calls[0][3])
                    ix_ = index_from(a_[1])
                    try:
                        tot_ = add_terms(rv[2][1])
                    except Exception:
                        tot_ = None
                    if ix_ is not None and len(ix_) == 2 and strip_ref(ix_[0]) == SRC and strip_ref(a_[0]) == SELF and rv[2][0] == tuple_field(res_, 0) and \
                            rv[2][2] == tuple_field(res_, 2) and tot_ is not None and tot_ == add_terms(('bin', 'Add', tuple_field(res_, 1), ix_[1])):
                        end = 'return decode_to_X_checking_end_with_offset(%s,%s,%s,%s,%s)' % (N(a_[0]), 'src', N(a_[2]), N(a_[3]), N(ix_[1]))
            else:
                end = 'return ?'
            if len(calls) > 1 or (calls and not end.startswith('return decode')):
                end += ' +calls?'
        for s in states:
            out.add((s, tuple(guards), tuple(effects), end))
    return out


def reference_main():
    R = set()
    X = 'decode_to_X'
    R.add(('Converting', (), (), 'return %s_checking_end(self,src,dst,last)' % X))
    R.add(('Finished', (), (), 'panic'))
    starts = {'AtStart': {0xEF: 'SeenUtf8First', 0xFE: 'SeenUtf16BeFirst', 0xFF: 'SeenUtf16LeFirst'},
              'AtUtf8Start': {0xEF: 'SeenUtf8First'}, 'AtUtf16BeStart': {0xFE: 'SeenUtf16BeFirst'}, 'AtUtf16LeStart': {0xFF: 'SeenUtf16LeFirst'}}
    for s, m in starts.items():
        R.add((s, ('empty',), (), 'return (InputEmpty,0,0)'))
        for byte, nxt in m.items():
            R.add((s, ('!empty', 'src[0]=%X' % byte), ('state:=' + nxt, 'offset:=o+1'), 'continue'))
        R.add((s, ('!empty', 'src[0] not in {%s}' % ','.join('%X' % v for v in sorted(m))), ('state:=Converting',), 'continue'))
    # first-byte states
    firsts = {'SeenUtf8First': (0xBB, 0xEF, None), 'SeenUtf16BeFirst': (0xFF, 0xFE, 'UTF_16BE'), 'SeenUtf16LeFirst': (0xFE, 0xFF, 'UTF_16LE')}
    for s, (second, replay, morph) in firsts.items():
        a1 = 'return %s_after_one_potential_bom_byte(self,src,dst,last,o,%X)' % (X, replay)
        R.add((s, ('end', 'last'), (), a1))
        R.add((s, ('end', '!last'), (), 'return (InputEmpty,o,0)'))
        R.add((s, ('!end', '!src[o]=%X' % second), (), a1))
        if morph is None:
            R.add((s, ('!end', 'src[o]=%X' % second), ('state:=SeenUtf8Second', 'offset:=o+1'), 'continue'))
        else:
            wo = 'return %s_checking_end_with_offset(self,src,dst,last,o+1)' % X
            R.add((s, ('!end', 'src[o]=%X' % second, 'encoding!=' + morph), ('state:=Converting', 'encoding:=' + morph, 'variant:=new(%s)' % morph, 'offset:=o+1'), wo))
            R.add((s, ('!end', 'src[o]=%X' % second, '!encoding!=' + morph), ('state:=Converting', 'offset:=o+1'), wo))
    s = 'SeenUtf8Second'
    a2 = 'return %s_after_two_potential_bom_bytes(self,src,dst,last,o)' % X
    R.add((s, ('end', 'last'), (), a2))
    R.add((s, ('end', '!last'), (), 'return (InputEmpty,o,0)'))
    R.add((s, ('!end', '!src[o]=BF'), (), a2))
    wo = 'return %s_checking_end_with_offset(self,src,dst,last,o+1)' % X
    R.add((s, ('!end', 'src[o]=BF', 'encoding!=UTF_8'), ('state:=Converting', 'encoding:=UTF_8', 'variant:=new(UTF_8)', 'offset:=o+1'), wo))
    R.add((s, ('!end', 'src[o]=BF', '!encoding!=UTF_8'), ('state:=Converting', 'offset:=o+1'), wo))
    R.add(('ConvertingWithPendingBB', (), (), 'return %s_after_one_potential_bom_byte(self,src,dst,last,0,BB)' % X))
    return R


def norm_effects(t):
    s, g, e, end = t
    return (s, g, tuple(sorted(e)), end)


def next_byte_test(ce, b, N):
    """tests of `src.get(offset).copied()`: is_none / is_some -> ('none', truth that means "at the end"); == Some(c) -> ('eq', c)"""
    def is_next(x):
        x = strip_ref(x)
        while x[0] in ('deref', 'ref'):
            x = strip_ref(x[1])
        if x[0] == 'call' and (x[1] or '').endswith(('::copied', '::cloned')) and len(x[2]) == 1:
            x = strip_ref(x[2][0])
        return x[0] == 'call' and (x[1] or '') == 'core::slice::<impl [T]>::get' and len(x[2]) == 2 and strip_ref(x[2][0]) == SRC and N(x[2][1]) == 'o'
    if ce[0] != 'call' or not ce[1]:
        return None
    if ce[1].endswith(('Option::<T>::is_none', 'Option::<T>::is_some')) and len(ce[2]) == 1 and is_next(ce[2][0]):
        return ('none', ce[1].endswith('is_none'))
    if ce[1].endswith('PartialEq>::eq') and len(ce[2]) == 2:
        for x_, y_ in ((ce[2][0], ce[2][1]), (ce[2][1], ce[2][0])):
            if not is_next(x_):
                continue
            y0 = strip_ref(y_)
            while y0[0] in ('deref', 'ref'):
                y0 = strip_ref(y0[1])
            if y0[0] == 'agg' and variant_name(y0) == 'Some' and y0[2] and y0[2][0][0] == 'c':
                return ('eq', y0[2][0][1])
            if y0[0] == 'cptr' and y0[2] == 0:
                import json as _json
                tgt = _json.loads(y0[1])
                if 'mem' in tgt and str(tgt['mem']) in b.facts.mems if hasattr(b, 'facts') else False:
                    pass
                raw = _MEMS.get(str(tgt.get('mem')))
                # Option<u8> has no niche: (tag, value), tag 1 = Some
                if raw is not None and len(raw) == 2 and raw[0] == 1:
                    return ('eq', raw[1])
    return None


_MEMS = {}


def parse_guard(g):
    """guard string -> (atom, kind, values): kind 'is' (bool atom, values = truth) / 'in' / 'notin' (byte atoms)"""
    import re as _re
    neg = g.startswith('!')
    body_ = g[1:] if neg else g
    if body_ in ('empty', 'last', 'end'):
        return (body_, 'is', not neg)
    m = _re.match(r'src\[(o|0)\]=([0-9A-F]+)$', body_)
    if m:
        return ('src[%s]' % m.group(1), 'notin' if neg else 'in', frozenset([int(m.group(2), 16)]))
    m = _re.match(r'src\[(o|0)\] not in \{([0-9A-F,]*)\}$', body_)
    if m and not neg:
        return ('src[%s]' % m.group(1), 'notin', frozenset(int(x, 16) for x in m.group(2).split(',') if x))
    m = _re.match(r'next=([0-9A-F]+)$', body_)
    if m:
        # the byte at the offset exists and is this one: a conjunction of the two atoms
        return (('end', 'src[o]'), 'notnext' if neg else 'next', frozenset([int(m.group(1), 16)]))
    m = _re.match(r'encoding!=(\w+)$', body_)
    if m:
        return ('encoding!=' + m.group(1), 'is', not neg)
    # anything else is a free boolean atom: if the outcome really depends on it, no reference transition will agree on both sides
    if g.startswith('?') and g.endswith(('=True', '=False')):
        return (g.rsplit('=', 1)[0], 'is', g.endswith('=True'))
    return (g, 'is', True)


def holds(lit, val):
    atom, kind, v = lit
    if kind in ('next', 'notnext'):
        is_ = (val['end'] is False) and (val['src[o]'] in v)
        return is_ if kind == 'next' else not is_
    x = val[atom]
    if kind == 'is':
        return x == v
    if kind == 'in':
        return x in v
    return x not in v


def decision_table(ref_s, got_s):
    """Compare two sets of guarded transitions of one state as functions of the atoms they mention.
    -> list of (ref transition, valuation, got outcomes) that disagree"""
    import itertools
    R_ = [([parse_guard(g) for g in t[1]], t) for t in ref_s]
    G_ = [([parse_guard(g) for g in t[1]], t) for t in got_s]
    dom = {}
    for lits, _ in R_ + G_:
        for atom, kind, v in lits:
            if kind in ('next', 'notnext'):
                dom.setdefault('end', set()).update([True, False])
                dom.setdefault('src[o]', set()).update(v)
                dom['src[o]'].add('other')
            elif kind == 'is':
                dom.setdefault(atom, set()).update([True, False])
            else:
                dom.setdefault(atom, set()).update(v)
                dom[atom].add('other')
    atoms = sorted(dom)
    bad = []
    n = 0
    for combo in itertools.product(*[sorted(dom[a], key=str) for a in atoms]):
        val = dict(zip(atoms, combo))
        # a byte that does not exist cannot be looked at: keep one representative of those valuations
        if val.get('end') is True and 'src[o]' in val and val['src[o]'] != 'other':
            continue
        if val.get('empty') is True and 'src[0]' in val and val['src[0]'] != 'other':
            continue
        rs = [t for lits, t in R_ if all(holds(l, val) for l in lits)]
        if len(rs) != 1:
            continue          # the reference does not define this combination (or the atom is foreign to it and split it)
        gs = {(t[2], t[3]) for lits, t in G_ if all(holds(l, val) for l in lits)}
        n += 1
        if gs != {(rs[0][2], rs[0][3])}:
            bad.append((rs[0], val, sorted(gs)))
    return bad, n


def d1_main(rep, f, c):
    ref = {norm_effects(t) for t in reference_main()}
    for sink in ('utf8', 'utf16'):
        fn = 'Decoder::decode_to_%s_without_replacement' % sink
        got = main_transitions(rep, f, c, sink)
        if got is None:
            continue
        got = {norm_effects(t) for t in got}
        b = f.body(fn)
        site = sp_str(b.raw['span'])
        states = sorted({t[0] for t in ref})
        ncomb = 0
        failed = {}
        for st in states:
            bad, n = decision_table([t for t in ref if t[0] == st], [t for t in got if t[0] == st])
            ncomb += n
            for rt, val, gs in bad:
                failed.setdefault(rt, (val, gs))
        for t in sorted(ref):
            if t in failed:
                val, gs = failed[t]
                rep.ob('C10-D1.transition', '%s:%s%s' % (fn, t[0], list(t[1])), False,
                       'reference transition not implemented: in %s under %s expected effects %s then `%s`; for %s the implementation does %s' % (
                           t[0], list(t[1]) or 'any input', list(t[2]), t[3],
                           {k_: (('%X' % v_) if isinstance(v_, int) and not isinstance(v_, bool) else v_) for k_, v_ in val.items()},
                           [(list(e_), en_) for e_, en_ in gs] or 'nothing (no path)'), site, None, c)
            else:
                rep.ob('C10-D1.transition', '%s:%s%s' % (fn, t[0], list(t[1])), True, '', site, {'effects': list(t[2]), 'then': t[3]}, c)
        for st in sorted({t[0] for t in got} - set(states)):
            rep.ob('C10-D1.transition', '%s:%s' % (fn, st), False, 'life-cycle state %s is not in the reference automaton' % st, site, None, c)
        rep.count('c10.decision-table-rows:%s:%s' % (sink, c), ncomb)
        rep.floor('C10-D1.transition', 'decision-table rows compared (%s)' % sink, ncomb, 40, c)


# ---------------------------------------------------------------- helper functions
def raw_result(p, raw):
    cs = [e for e in p.calls() if e[1] == raw]
    return cs


def helpers(rep, f, c, sink):
    X = 'decode_to_' + sink
    raw = 'variant::VariantDecoder::%s_raw' % X
    CE = 'Decoder::%s_checking_end' % X
    A1 = 'Decoder::%s_after_one_potential_bom_byte' % X
    A2 = 'Decoder::%s_after_two_potential_bom_bytes' % X
    WO = 'Decoder::%s_checking_end_with_offset' % X
    LC = ('fld', ('deref', SELF), 'life_cycle')
    VAR = ('fld', ('deref', SELF), 'variant')

    def lc_stores(p):
        return [variant_name(e[2]) for e in p.stores() if e[1] == LC]

    # ---- checking_end
    b = f.body(CE)
    if b is None:
        rep.undecidable('C10-D1.helper', CE, 'not found', None, c)
    else:
        site = sp_str(b.raw['span'])
        ok = True
        seen = set()
        for p in [p for p in region_paths(b, 0) if feasible(p)]:
            cs = raw_result(p, raw)
            if len(cs) != 1 or [strip_ref(a) for a in cs[0][2]] != [VAR, SRC, DST, LAST]:
                ok = False
                continue
            res = ('call', raw, cs[0][2], cs[0][3])
            rv = p.env.get(0)
            ok &= rv == ('agg', 'tuple', (tuple_field(res, 0), tuple_field(res, 1), tuple_field(res, 2)))
            lastc = [e for e in p.conds() if e[1] == LAST]
            ie = [e for e in p.conds() if e[1][0] == 'variant' and e[1][1] == tuple_field(res, 0)]
            fin = lc_stores(p)
            is_fin = bool(lastc and lastc[0][2] is True and ie and ie[0][2] == 'InputEmpty')
            ok &= (fin == ['Finished']) == is_fin and (fin in ([], ['Finished']))
            seen.add(is_fin)
        rep.ob('C10-D1.helper', CE, ok and seen == {True, False},
               'checking_end is not: (r,read,written) = variant.raw(src,dst,last); state := Finished iff last && r == InputEmpty; return unchanged',
               site, None, c)
    # ---- checking_end_with_offset
    b = f.body(WO)
    if b is None:
        rep.undecidable('C10-D1.helper', WO, 'not found', None, c)
    else:
        site = sp_str(b.raw['span'])
        ok = True
        n = 0
        OFF = ('loc', 5)
        for p in [p for p in region_paths(b, 0) if feasible(p)]:
            cs = [e for e in p.calls() if e[1] == CE]
            if len(cs) != 1:
                ok = False
                continue
            n += 1
            a = cs[0][2]
            ix = index_from(a[1])
            ok &= strip_ref(a[0]) == SELF and ix is not None and len(ix) == 2 and ix[0] == SRC and ix[1] == OFF and strip_ref(a[2]) == DST and a[3] == LAST
            res = ('call', CE, a, cs[0][3])
            rv = p.env.get(0)
            ok &= rv is not None and rv[0] == 'agg' and rv[2][0] == tuple_field(res, 0) and add_terms(rv[2][1]) == add_terms(('bin', 'Add', tuple_field(res, 1), OFF)) \
                and rv[2][2] == tuple_field(res, 2)
            ok &= not lc_stores(p)
        rep.ob('C10-D1.helper', WO, ok and n >= 1, 'with_offset is not: (r,read,w) = checking_end(&src[offset..],dst,last); return (r, read+offset, w)', site, None, c)

    # ---- replay helpers
    def replay_paths(fn, first_byte_expr):
        b = f.body(fn)
        if b is None:
            rep.undecidable('C10-D1.helper', fn, 'not found', None, c)
            return None, None
        return b, [p for p in region_paths(b, 0) if feasible(p)]

    OFF = ('loc', 5)
    FB = ('loc', 6)
    for fn, arr, nwithheld in ((A1, ('agg', 'array', (FB,)), 1), (A2, ('agg', 'array', (('c', 0xEF, 'u8'), ('c', 0xBB, 'u8'))), 2)):
        b, ps = replay_paths(fn, None)
        if b is None:
            continue
        site = sp_str(b.raw['span'])
        N = Norm(b, None, {OFF: 'offset', FB: 'first_byte'})
        seen = set()
        for p in ps:
            at = sp_str(b.blocks[p.blocks[-1]]['tsp'])
            stores = lc_stores(p)
            first_ok = bool(stores) and stores[0] == 'Converting' and (not p.events or p.events[0][0] == 'store')
            rep.ob('C10-D1.replay.state', fn, first_ok, 'the replay helper must set state := Converting before anything else', at, None, c)
            offc = [(e[1], e[2]) for e in p.conds() if e[1][0] == 'bin' and e[1][1] in ('Eq', 'Ne') and e[1][2] == OFF and e[1][3][0] == 'c' and isinstance(e[2], bool)
                    and not any(s[0] == 'cptr' for s in walk(e[1]))]
            offv = None
            for ce, truth in offc:
                if truth == (ce[1] == 'Eq'):        # offset == k established, however the test is spelled
                    offv = ce[3][1]
            if offv is None:
                offv = 'rest'
            rc = raw_result(p, raw)
            if offv == 0:
                # withheld bytes are not in src: replay the constant array with last = false into the full dst
                ok = len(rc) == 1
                if ok:
                    a = rc[0][2]
                    arr_arg = strip_ref(a[1])
                    ok &= strip_ref(a[0]) == VAR and strip_ref(a[2]) == DST and a[3] == ('c', 0, 'bool')
                    ok &= arr_arg[0] == 'call' and arr_arg[1].endswith('::index') and strip_ref(arr_arg[2][0]) == arr and arr_arg[2][1][0] == 'agg' and 'RangeFull' in arr_arg[2][1][1]
                rep.ob('C10-D1.replay.call', fn, ok, 'withheld bytes must be replayed as variant.raw(&%s[..], dst, false)' % N(arr), at, None, c)
                if not ok:
                    continue
                r1 = ('call', raw, rc[0][2], rc[0][3])
                arm = [e for e in p.conds() if e[1][0] == 'variant' and e[1][1] == tuple_field(r1, 0)]
                if len(arm) != 1:
                    rep.undecidable('C10-D1.replay', fn, 'replay result is not matched exactly once', at, c)
                    continue
                v = arm[0][2]
                rv = p.env.get(0)
                ce = [e for e in p.calls() if e[1] == CE]
                if v == 'InputEmpty':
                    ok = len(ce) == 1 and p.end[0] == 'return'
                    if ok:
                        a = ce[0][2]
                        ix = index_from(a[2])
                        ok &= strip_ref(a[0]) == SELF and strip_ref(a[1]) == SRC and a[3] == LAST and ix is not None and len(ix) == 2 and ix[0] == DST and ix[1] == tuple_field(r1, 2)
                        r2 = ('call', CE, a, ce[0][3])
                        ok &= rv is not None and rv[0] == 'agg' and rv[2][0] == tuple_field(r2, 0) and rv[2][1] == tuple_field(r2, 1) and \
                            add_terms(rv[2][2]) == add_terms(('bin', 'Add', tuple_field(r1, 2), tuple_field(r2, 2)))
                        ok &= stores == ['Converting']
                    rep.ob('C10-D1.replay.chain', fn, ok,
                           'after a clean replay the real input must be decoded with checking_end(src, &mut dst[w1..], last) and (r2, read2 [overwritten, not added], w1+w2) returned',
                           at, None, c)
                    seen.add((0, 'InputEmpty'))
                elif v == 'Malformed':
                    ok = not ce and p.end[0] == 'return' and rv is not None and rv[0] == 'agg' and rv[2][1] == C(0) and rv[2][2] == tuple_field(r1, 2)
                    if nwithheld == 1:
                        ok &= rv is not None and rv[0] == 'agg' and same_malformed(rv[2][0], tuple_field(r1, 0)) and stores == ['Converting']
                        rep.ob('C10-D1.replay.malformed', fn, ok, 'a malformed replayed byte must be reported as (r1, 0, w1) with nothing read from src', at, None, c)
                        seen.add((0, 'Malformed'))
                    else:
                        k1 = [e for e in p.conds() if e[1] == ('bin', 'Eq', tuple_field(r1, 1), C(1))]
                        if len(k1) != 1:
                            rep.undecidable('C10-D1.replay', fn, 'cannot find the `first_read == 1` decision', at, c)
                            continue
                        if k1[0][2]:
                            # EF consumed, BB not: BB is re-queued (ConvertingWithPendingBB) and, having been acknowledged as read in an
                            # earlier call, must be counted in `after` so that the caller can still locate EF.
                            res = rv[2][0] if rv is not None and rv[0] == 'agg' else None
                            pay = ('as', tuple_field(r1, 0), 'Malformed')
                            want = ('agg', 'DecoderResult::Malformed', (('fld', pay, '0'), ('bin', 'Add', ('fld', pay, '1'), ('c', 1, 'u8'))))
                            good = res is not None and res[0] == 'agg' and res[1] == want[1] and res[2][0] == want[2][0] and add_terms(res[2][1]) == add_terms(want[2][1])
                            rep.ob('C10-D3.requeue', fn, ok and stores == ['Converting', 'ConvertingWithPendingBB'],
                                   'when only EF of the replayed EF BB was consumed, BB must be re-queued via ConvertingWithPendingBB and (_, 0, w1) returned', at, None, c)
                            rep.ob('C10-D3.after', fn, good,
                                   'BB was acknowledged as read in an earlier call but is not counted in `after`: the Malformed result is passed through unchanged, '
                                   'so the reported error position is off by one (expected Malformed(len, after + 1), got %s)' % (N(res) if res else '?'), at, None, c)
                            seen.add((0, 'Malformed', 'k=1'))
                        else:
                            ok &= rv is not None and rv[0] == 'agg' and same_malformed(rv[2][0], tuple_field(r1, 0)) and stores == ['Converting']
                            rep.ob('C10-D1.replay.malformed', fn, ok, 'a malformed replay that consumed both bytes must be reported as (r1, 0, w1)', at, None, c)
                            seen.add((0, 'Malformed', 'k=2'))
                elif v == 'OutputFull':
                    # C06-D4 (R-OFPANIC) judges whether this can happen with a documented-minimum sink; here: nothing else happens
                    rep.ob('C10-D1.replay.full', fn, p.end[0] == 'diverge' and not ce, 'OutputFull during replay is neither reported nor a panic', at, None, c)
                    seen.add((0, 'OutputFull'))
            elif offv == 1 and nwithheld == 2:
                # EF withheld earlier, BB is src[0]: replay EF alone, BB is decoded from src
                a1 = [e for e in p.calls() if e[1] == A1]
                rv = p.env.get(0)
                ok = len(a1) == 1 and not rc and [N(x) for x in a1[0][2]] == ['self', 'src', 'dst', 'last', '0', 'EF'] and rv == ('call', A1, a1[0][2], a1[0][3])
                rep.ob('C10-D1.replay.split', fn, ok, 'with one of the two withheld bytes inside src, EF alone must be replayed: after_one(src,dst,last,0,EF)', at, None, c)
                seen.add((1,))
            else:
                # all withheld bytes are still in src: plain decode of src
                ce = [e for e in p.calls() if e[1] == CE]
                rv = p.env.get(0)
                ok = len(ce) == 1 and not rc and [N(x) for x in ce[0][2]] == ['self', 'src', 'dst', 'last'] and rv == ('call', CE, ce[0][2], ce[0][3]) and stores == ['Converting']
                rep.ob('C10-D1.replay.insrc', fn, ok, 'with the withheld bytes still inside src the helper must return checking_end(src,dst,last)', at, None, c)
                seen.add(('rest',))
        want = {(0, 'InputEmpty'), (0, 'OutputFull'), ('rest',)} | ({(0, 'Malformed')} if nwithheld == 1 else {(0, 'Malformed', 'k=1'), (0, 'Malformed', 'k=2'), (1,)})
        rep.ob('C10-D1.replay.cases', fn, seen == want, 'replay helper cases %r differ from the reference %r' % (sorted(map(str, seen)), sorted(map(str, want))), site, None, c)


def replay_retire(rep, f, c, sink, rule='R-PROGRESS.replay-retire'):
    """C08 clause: a replay helper is entered because bytes acknowledged as read in an earlier call are still owed to the decoder.
    Whatever the replay's result, a returning path must leave the life cycle in `Converting` -- the withheld bytes are retired --
    or, in the two-byte helper only, in `ConvertingWithPendingBB` on the path that has established that exactly one of the two
    bytes (EF) was consumed.  Any other final state re-arms the same replay with no input consumed: the caller's loop spins."""
    X = 'decode_to_' + sink
    raw = 'variant::VariantDecoder::%s_raw' % X
    LC = ('fld', ('deref', SELF), 'life_cycle')
    n = 0
    for fn, two in (('Decoder::%s_after_one_potential_bom_byte' % X, False), ('Decoder::%s_after_two_potential_bom_bytes' % X, True)):
        b = f.body(fn)
        if b is None:
            rep.undecidable(rule, fn, 'not found', None, c)
            continue
        for p in [p for p in region_paths(b, 0) if feasible(p)]:
            if p.end[0] != 'return':
                continue
            at = sp_str(b.blocks[p.blocks[-1]]['tsp'])
            stores = [variant_name(e[2]) for e in p.stores() if e[1] == LC]
            fin = stores[-1] if stores else None
            ok = fin == 'Converting'
            if not ok and two and fin == 'ConvertingWithPendingBB':
                rc = raw_result(p, raw)
                if len(rc) == 1:
                    r1 = ('call', raw, rc[0][2], rc[0][3])
                    ok = any(e[1] == ('bin', 'Eq', tuple_field(r1, 1), ('c', 1, 'usize')) and e[2] is True for e in p.conds())
            n += 1
            rep.ob(rule, fn, ok, 'a returning path of the replay helper leaves life_cycle = %s: the withheld byte(s) are not retired, so the next call '
                   'replays them again without consuming input (no progress)' % fin, at, None, c)
    return n


# ---------------------------------------------------------------- start states and one-shot siblings
def start_states(rep, f, c):
    fn = 'Decoder::new'
    b = f.body(fn)
    if b is None:
        rep.undecidable('C10-D1.start', fn, 'not found', None, c)
        return
    site = sp_str(b.raw['span'])
    got = set()
    for p in [p for p in region_paths(b, 0) if feasible(p)]:
        if p.end[0] != 'return':
            continue
        mode = [e for e in p.conds() if e[1][0] == 'variant' and e[1][1] == ('loc', 3)]
        encc = []
        for e in p.conds():
            ce = e[1]
            if ce[0] == 'call' and (ce[1] or '').endswith('::eq') and strip_ref(ce[2][0]) == ('loc', 1):
                encc.append(('%s' if e[2] else '!%s') % static_of(ce[2][1]))
        rv = p.env.get(0)
        lc = None
        if rv is not None and rv[0] == 'agg' and rv[1].startswith('Decoder::'):
            # fields order from the aggregate: find the DecoderLifeCycle operand
            for x in rv[2]:
                if x[0] == 'agg' and x[1].startswith('DecoderLifeCycle::'):
                    lc = variant_name(x)
            ok_fields = ('loc', 1) in rv[2] and ('loc', 2) in rv[2]
        else:
            ok_fields = False
        rep.ob('C10-D1.start.fields', fn, ok_fields, 'Decoder::new does not store its encoding and variant arguments', site, None, c)
        got.add((mode[0][2] if mode else None, tuple(encc), lc))
    want = {('Off', (), 'Converting'), ('Sniff', (), 'AtStart'), ('Remove', ('UTF_8',), 'AtUtf8Start'), ('Remove', ('!UTF_8', 'UTF_16BE'), 'AtUtf16BeStart'),
            ('Remove', ('!UTF_8', '!UTF_16BE', 'UTF_16LE'), 'AtUtf16LeStart'), ('Remove', ('!UTF_8', '!UTF_16BE', '!UTF_16LE'), 'Converting')}
    # semantic comparison: for mode Remove, map each encoding class to its start state
    def sem(s):
        out = {}
        for mode, conds, lc in s:
            if mode != 'Remove':
                out[(mode, '*')] = lc
            else:
                pos = [x for x in conds if not x.startswith('!')]
                neg = {x[1:] for x in conds if x.startswith('!')}
                if pos:
                    out[(mode, pos[0])] = lc
                else:
                    out[(mode, 'other:' + ','.join(sorted(neg)))] = lc
        return out
    rep.ob('C10-D1.start', fn, sem(got) == sem(want), 'start states per BOM mode differ from the reference: %r' % sorted(sem(got).items()), site,
           {'start_states': sorted(map(str, sem(got).items()))}, c)
    for ctor, mode in (('Encoding::new_decoder', 'Sniff'), ('Encoding::new_decoder_with_bom_removal', 'Remove'), ('Encoding::new_decoder_without_bom_handling', 'Off')):
        b2 = f.body(ctor)
        if b2 is None:
            rep.undecidable('C10-D1.ctor', ctor, 'not found', None, c)
            continue
        r = Resolver(b2)
        cs = [t for bi, t in b2.calls() if b2.callee(t) == 'Decoder::new']
        ok = len(cs) == 1
        if ok:
            a = [r.operand(x) for x in cs[0]['args']]
            ve_ = variant_decoder_of(a[1])
            ok = strip_ref(a[0]) == ('loc', 1) and ve_ is not None and strip_ref(ve_) == ('loc', 1) and variant_name(a[2]) == mode
        rep.ob('C10-D1.ctor', ctor, ok, 'constructor is not Decoder::new(self, self.new_variant_decoder(), BomHandling::%s)' % mode, sp_str(b2.raw['span']), None, c)


BOMS = {'UTF_8': bytes([0xEF, 0xBB, 0xBF]), 'UTF_16LE': bytes([0xFF, 0xFE]), 'UTF_16BE': bytes([0xFE, 0xFF])}


def const_bytes(f, e):
    e0 = e
    e = strip_ref(e)
    while e[0] == 'cast':
        e = strip_ref(e[2])
    if e[0] == 'cptr':
        import json
        tgt = json.loads(e[1])
        if 'mem' in tgt:
            return f.mem_bytes(tgt['mem'])
    return None


def one_shot(rep, f, c):
    fn = 'Encoding::for_bom'
    b = f.body(fn)
    if b is None:
        rep.undecidable('C10-D2', fn, 'not found', None, c)
    else:
        site = sp_str(b.raw['span'])
        # for_bom as a function of the buffer's length class and first three bytes: every guard on a path is evaluated on each
        # representative buffer (lengths 0..4, bytes drawn from the BOM bytes and one other value); exactly one path may accept
        # it, and its answer must be the reference's.  Guards may be starts_with(prefix), length comparisons, byte comparisons or
        # switches on buffer[i] (slice patterns), in any combination.
        BUF = ('loc', 1)
        paths = [p for p in region_paths(b, 0) if feasible(p) and p.end[0] == 'return']
        extra = []

        def is_buf(e):
            e = strip_ref(e)
            while e[0] in ('deref', 'ref'):
                e = strip_ref(e[1])
            return e == BUF

        def guard(e, buf):
            """truth value / switch value of one path condition on the concrete representative `buf`; None = not understood"""
            ce, lab = e[1], e[2]
            if ce[0] == 'c':
                return True
            val = None
            if ce[0] == 'call' and (ce[1] or '').endswith('::starts_with') and is_buf(ce[2][0]):
                pre = const_bytes(f, ce[2][1])
                if pre is None:
                    return None
                val = buf[:len(pre)] == pre
            elif ce[0] == 'is_empty' and is_buf(ce[1]):
                val = len(buf) == 0
            elif ce[0] == 'bin' and ce[1] in ('Lt', 'Le', 'Gt', 'Ge', 'Eq', 'Ne'):
                def num(x):
                    x = cast_inner(x)
                    if x[0] == 'c' and isinstance(x[1], int):
                        return x[1]
                    if x[0] == 'len' and is_buf(x[1]):
                        return len(buf)
                    if x[0] == 'idx' and is_buf(x[1]) and x[2][0] == 'c':
                        return buf[x[2][1]] if x[2][1] < len(buf) else 'oob'
                    return None
                a_, b_ = num(ce[2]), num(ce[3])
                if a_ is None or b_ is None:
                    return None
                if 'oob' in (a_, b_):
                    return 'oob'
                val = {'Lt': a_ < b_, 'Le': a_ <= b_, 'Gt': a_ > b_, 'Ge': a_ >= b_, 'Eq': a_ == b_, 'Ne': a_ != b_}[ce[1]]
            elif ce[0] == 'idx' and is_buf(ce[1]) and ce[2][0] == 'c':
                if ce[2][1] >= len(buf):
                    return 'oob'
                v = buf[ce[2][1]]
                vals = [x for x, _ in b.blocks[e[3]]['t']['targets']]
                labs = lab if isinstance(lab, tuple) else (lab,)
                return any((l_ == 'else' and v not in vals) or l_ == v for l_ in labs)
            else:
                return None
            return val == lab if isinstance(lab, bool) else None

        reps = [b'']
        alphabet = [0xEF, 0xBB, 0xBF, 0xFF, 0xFE, 0x41]
        import itertools as _it
        for n_ in (1, 2, 3, 4):
            for combo in _it.product(alphabet, repeat=min(n_, 3)):
                reps.append(bytes(combo) + b'\x41' * (n_ - min(n_, 3)))
        bad = []
        nrows = 0
        for buf in reps:
            want_ = None
            for enc_, bom in BOMS.items():
                if buf[:len(bom)] == bom:
                    want_ = (enc_, len(bom))
            answers = []
            for p in paths:
                ts = [guard(e, buf) for e in p.conds()]
                if any(t is None for t in ts):
                    extra.append([expr_str(e[1], b)[:80] for e, t in zip(p.conds(), ts) if t is None][0])
                    continue
                if 'oob' in ts or not all(ts):
                    continue
                rv = p.env.get(0)
                if rv is not None and variant_name(rv) == 'Some':
                    tup = rv[2][0]
                    answers.append((static_of(tup[2][0]), tup[2][1][1] if tup[2][1][0] == 'c' else None))
                elif rv is not None and variant_name(rv) == 'None':
                    answers.append(None)
                else:
                    answers.append('?')
            nrows += 1
            if answers != [want_]:
                bad.append((buf.hex(), want_, answers))
        rep.ob('C10-D2.for_bom.only-prefix-tests', fn, not extra,
               'for_bom\'s answer depends on a condition that is not a test of the buffer\'s length or first bytes: %s' % sorted(set(extra))[:2], site, None, c)
        rep.ob('C10-D2.for_bom', fn, not bad and nrows >= 200 and bool(paths),
               'for_bom does not recognise exactly EF BB BF -> (UTF_8,3), FF FE -> (UTF_16LE,2), FE FF -> (UTF_16BE,2) for buffers of every length: '
               'for the buffer %s the reference answer is %s, the paths give %s' % (bad[0] if bad else ('', '', '')),
               site, {'representative_buffers': nrows, 'paths': len(paths)}, c)
    if c == 'noalloc':
        return
    fn = 'Encoding::decode_with_bom_removal'
    b = f.body(fn)
    if b is None:
        rep.undecidable('C10-D2', fn, 'not found', None, c)
    else:
        site = sp_str(b.raw['span'])
        # decode_with_bom_removal as a function of (which encoding self is, how the buffer starts): every guard of a path is
        # evaluated on each combination; exactly one path accepts it and must pass &bytes[k..] with k = the length of self's own
        # BOM if the buffer starts with it, else 0.  Guards may compare self with the encodings, test prefixes, or go through
        # Encoding::for_bom (decided separately above), in any arrangement.
        import itertools as _it
        ok = True
        cases = set()
        why_ = ''
        paths = [p for p in region_paths(b, 0) if feasible(p) and p.end[0] == 'return']

        def ref_for_bom(buf):
            for enc_, bom in BOMS.items():
                if buf[:len(bom)] == bom:
                    return (enc_, len(bom))
            return None

        def is_for_bom(e):
            return e[0] == 'call' and e[1] == 'Encoding::for_bom' and strip_ref(e[2][0]) == ('loc', 2)

        def enc_of(e, me, buf):
            e = strip_ref(e)
            while e[0] in ('deref', 'ref'):
                e = strip_ref(e[1])
            if e == ('loc', 1):
                return me
            st_ = static_of(e)
            if st_:
                return st_
            if e[0] == 'fld' and e[2] == '0' and e[1][0] == 'fld' and e[1][2] == '0' and e[1][1][0] == 'as' and e[1][1][2] == 'Some' and is_for_bom(e[1][1][1]):
                r_ = ref_for_bom(buf)
                return r_[0] if r_ else 'invalid'
            return None

        def guard2(e, me, buf):
            ce, lab = e[1], e[2]
            if ce[0] == 'c':
                return bool(ce[1]) == lab if isinstance(lab, bool) else True
            if ce[0] == 'variant' and is_for_bom(ce[1]):
                return (ref_for_bom(buf) is not None) == (lab == 'Some')
            if ce[0] == 'call' and (ce[1] or '').endswith(('::eq', '::ne')) and len(ce[2]) == 2 and isinstance(lab, bool):
                a_, b_ = enc_of(ce[2][0], me, buf), enc_of(ce[2][1], me, buf)
                if a_ is None or b_ is None:
                    return None
                return ((a_ == b_) == ce[1].endswith('::eq')) == lab
            if ce[0] == 'call' and (ce[1] or '').endswith('::starts_with') and strip_ref(ce[2][0]) == ('loc', 2) and isinstance(lab, bool):
                pre = const_bytes(f, ce[2][1])
                return None if pre is None else ((buf[:len(pre)] == pre) == lab)
            return None

        bufs = [b'', b'\x41', b'\xEF\xBB', b'\xEF\xBB\xBF', b'\xEF\xBB\xBFA', b'\xFF\xFE', b'\xFF\xFEA\x00', b'\xFE\xFF', b'\xFE\xFF\x00A', b'\xFF', b'\xFE', b'AB\xEF\xBB\xBF']
        nrows = 0
        for me, buf in _it.product(['UTF_8', 'UTF_16LE', 'UTF_16BE', 'WINDOWS_1252'], bufs):
            want_k = len(BOMS[me]) if me in BOMS and buf[:len(BOMS[me])] == BOMS[me] else 0
            got_ = []
            for p in paths:
                ts = [guard2(e, me, buf) for e in p.conds()]
                if any(t is None for t in ts):
                    ok = False
                    why_ = 'a condition is not a test of self, the buffer prefix or for_bom: %s' % [expr_str(e[1], b)[:80] for e, t in zip(p.conds(), ts) if t is None][:1]
                    continue
                if not all(ts):
                    continue
                dc = [e for e in p.calls() if e[1] == 'Encoding::decode_without_bom_handling']
                if len(dc) != 1 or strip_ref(dc[0][2][0]) != ('loc', 1):
                    got_.append('?')
                    continue
                arg = dc[0][2][1]
                ix = index_from(arg)
                if ix is not None and len(ix) == 2 and strip_ref(ix[0]) == ('loc', 2):
                    off = ix[1]
                    if off[0] == 'c':
                        got_.append(off[1])
                    elif off[0] == 'fld' and off[2] == '1' and off[1][0] == 'fld' and off[1][1][0] == 'as' and is_for_bom(off[1][1][1]) and ref_for_bom(buf):
                        got_.append(ref_for_bom(buf)[1])
                    else:
                        got_.append('?')
                elif strip_ref(arg) == ('loc', 2):
                    got_.append(0)
                else:
                    got_.append('?')
            nrows += 1
            cases.add(me if want_k else 'none')
            if got_ != [want_k]:
                ok = False
                why_ = why_ or 'for self = %s and a buffer starting %s the input must be decoded from offset %d; the paths give %s' % (me, buf.hex() or '(empty)', want_k, got_)
        rep.ob('C10-D2.bom_removal', fn, ok and cases == {'UTF_8', 'UTF_16LE', 'UTF_16BE', 'none'} and bool(paths),
               'decode_with_bom_removal does not strip exactly its own encoding\'s BOM: %s' % why_, site, {'rows': nrows, 'paths': len(paths)}, c)
    fn = 'Encoding::decode'
    b = f.body(fn)
    if b is None:
        rep.undecidable('C10-D2', fn, 'not found', None, c)
    else:
        site = sp_str(b.raw['span'])
        ok = True
        kinds = set()
        for p in [p for p in region_paths(b, 0) if feasible(p) and p.end[0] == 'return']:
            fb = [e for e in p.calls() if e[1] == 'Encoding::for_bom']
            dc = [e for e in p.calls() if e[1] == 'Encoding::decode_without_bom_handling']
            if len(fb) != 1 or len(dc) != 1 or strip_ref(fb[0][2][0]) != ('loc', 2):
                ok = False
                continue
            res = ('call', 'Encoding::for_bom', fb[0][2], fb[0][3])
            arm = [e for e in p.conds() if e[1][0] == 'variant' and e[1][1] == res]
            if len(arm) != 1:
                ok = False
                continue
            enc_arg, bytes_arg = strip_ref(dc[0][2][0]), dc[0][2][1]
            rv = p.env.get(0)
            if arm[0][2] == 'Some':
                pay = ('fld', ('as', res, 'Some'), '0')
                ok &= enc_arg == ('fld', pay, '0') and slice_nf(bytes_arg, ('loc', 2)) == (('fld', pay, '1'), None)
                ok &= rv is not None and rv[0] == 'agg' and strip_ref(rv[2][1]) == ('fld', pay, '0')
                kinds.add('bom')
            else:
                ok &= enc_arg == ('loc', 1) and strip_ref(bytes_arg) == ('loc', 2)
                ok &= rv is not None and rv[0] == 'agg' and strip_ref(rv[2][1]) == ('loc', 1)
                kinds.add('nobom')
        rep.ob('C10-D2.decode', fn, ok and kinds == {'bom', 'nobom'},
               'Encoding::decode does not (a) switch to for_bom()\'s encoding and skip exactly its length, (b) otherwise decode all bytes in the nominal encoding, reporting the encoding used',
               site, None, c)


def run(rep, facts, tier):
    for c, f in facts.items():
        d1_main(rep, f, c)
        for sink in ('utf8', 'utf16'):
            helpers(rep, f, c, sink)
        start_states(rep, f, c)
        one_shot(rep, f, c)
    return ('other', MANIFEST['text'], ['reference automaton of DESIGN.md Appendix A.1'])
