"""Byte classes of the decoders (C01-D2/D3): for every byte fetched by ByteReadHandle::read (and for the non-ASCII byte
delivered by the ASCII fast path) the exact set of byte values that can reach each Malformed construction, with how the
`read` count of that result is produced (unread = byte pushed back, consumed = byte included)."""
from mirlib import *
from paths import loop_heads
from shape import *
from ranges import *

BYTE = ISet.of((0, 255))
NONASCII = ISet.of((0x80, 0xFF))


def malformed_in_block(b, bi, r):
    out = []
    for st in b.blocks[bi]['s']:
        if 'assign' in st and 'aggregate' in st['rv'] and isinstance(st['rv']['aggregate'], dict) and st['rv']['aggregate'].get('variant') == 'Malformed' \
                and st['rv']['aggregate'].get('adt') == 'DecoderResult':
            ops = [r.operand(o) for o in st['rv']['ops']]
            out.append((st['assign']['l'], tuple(o[1] if o[0] == 'c' else None for o in ops)))
    return out


def read_component_kind(b, bi, r):
    """How is the `read` component of the tuple returned from this block produced?"""
    # find `_0 = (status, read, written)` in this block or its straight-line successors
    x = bi
    seen = set()
    while x not in seen:
        seen.add(x)
        for st in b.blocks[x]['s']:
            if 'assign' in st and st['assign']['l'] == 0 and not st['assign']['p'] and st['rv'].get('aggregate') == 'tuple':
                e = Resolver(b).operand(st['rv']['ops'][1])
                if e[0] == 'call':
                    fn = e[1] or ''
                    if fn.endswith('UnreadHandle::unread'):
                        return 'unread'
                    if fn.endswith('::consumed'):
                        return 'consumed'
                if e[0] == 'as' or e[0] == 'fld':
                    return 'source-full'
                return 'other'
        if len(b.succ[x]) != 1:
            return None
        x = b.succ[x][0]
    return None


def fetch_sites(b):
    """[(kind, entry_block, xkey-set, domain)]"""
    out = []
    r = Resolver(b)
    for bi, t in b.calls():
        fn = b.callee(t) or ''
        if fn.endswith('ByteReadHandle::read') and t['target'] is not None:
            res = r.local(t['dest']['l'])
            out.append(('read@' + (b.locals[t['dest']['l']].get('name') or ''), t['target'], {('fld', res, '0')}, BYTE, bi))
    # the non-ASCII byte of the ASCII fast path: locals named non_ascii
    for i in non_ascii_locals(b):
        ents = [d[0] for d in b.defs.get(i, []) if d[2] == 'assign']
        if ents:
            out.append(('non_ascii', ents, {('loc', i)}, NONASCII, None))
    return out


def non_ascii_locals(b):
    """u8 locals that receive the non-ASCII byte of the ASCII fast path: one of their definitions is component 0 of the GoOn payload
    of a copy_ascii_from_check_space_* result (found structurally, not by name)."""
    out = []
    r = Resolver(b)
    for i, l in enumerate(b.locals):
        if l['ty'] != 'u8' or i <= b.arg_count:
            continue
        for d in b.defs.get(i, []):
            if d[2] != 'assign':
                continue
            v = r.rvalue(d[3]['rv'])
            if v[0] == 'fld' and v[2] == '0' and v[1][0] == 'fld' and v[1][1][0] == 'as' and v[1][1][2] == 'GoOn':
                out.append(i)
                break
    return out


def classes(f, b):
    """[(fetch kind, entry, {(malformed consts, read kind): ISet}, mixed)]"""
    r = Resolver(b)
    heads = set(loop_heads(b))
    reads = {bi for bi, t in b.calls() if (b.callee(t) or '').endswith(('ByteReadHandle::read', 'ByteSource::check_available'))
             or 'copy_ascii_from' in (b.callee(t) or '') or 'copy_utf' in (b.callee(t) or '')}
    na_defs = set()
    for i in non_ascii_locals(b):
        na_defs |= {d[0] for d in b.defs.get(i, []) if d[2] == 'assign'}
    reads = reads | na_defs      # a byte handed over to the lead-byte logic is classified there
    res = []
    for kind, entry, xk, dom, rbi in fetch_sites(b):
        entries = entry if isinstance(entry, list) else [entry]
        stop = reads - set(entries)
        ra = RangeAnalysis(f, b, xk, 8, dom, entries=entries, stop=stop, opaque_ok=True, N=256)
        ev = {}
        for bi in range(len(b.blocks)):
            reach = ra.reach_of(bi) & dom
            if not reach or bi in stop:
                continue
            for loc, consts in malformed_in_block(b, bi, r):
                rk = read_component_kind(b, bi, r)
                ev[(consts, rk)] = ev.get((consts, rk), ISet()) | reach
            # constant stores to decoder state fields (e.g. UTF-8 bytes_needed / boundaries)
            for st in b.blocks[bi]['s']:
                if 'assign' in st and st['assign']['l'] == 1 and st['assign']['p'] and st['assign']['p'][0] == 'deref':
                    fl = [e['field'] for e in st['assign']['p'] if isinstance(e, dict) and 'field' in e]
                    val = r.rvalue(st['rv'])
                    if fl and val[0] == 'c':
                        k2 = ('store', fl[0], val[1])
                        ev[k2] = ev.get(k2, ISet()) | reach
                    elif fl and val[0] == 'agg' and variant_name(val):
                        k2 = ('store', fl[0], variant_name(val))
                        ev[k2] = ev.get(k2, ISet()) | reach
        res.append((kind, entries, ev, ra.mixed, rbi))
    return res


def state_classes(f, b, state_field):
    """Per value of an enum state field of self: {outcome: ISet} for the byte fetched by the (single) read site.
    Outcomes: Malformed tuples, 'ascii:b' (write_ascii of the byte itself), 'write:<fn>:<const>', ('to', state), ('store', field, 'b')."""
    r = Resolver(b)
    sites = [x for x in fetch_sites(b) if x[0].startswith('read@')]
    if len(sites) != 1:
        return None
    kind, entry, xk, dom, rbi = sites[0]
    xkey = next(iter(xk))
    reads = {bi for bi, t in b.calls() if (b.callee(t) or '').endswith(('ByteReadHandle::read', 'ByteSource::check_available'))}
    ra = RangeAnalysis(f, b, xk, 8, dom, entries=[entry], stop=reads, opaque_ok=True, N=256)
    SF = ('fld', ('deref', ('loc', 1)), state_field)
    out = {}
    # per-state evaluation: with the state fixed, every match on it takes one arm, wherever in the body the matches are (a test
    # hoisted in front of the dispatch, `if b == 0x1B && matches!(state, A | B) { .. }`, is attributed to the right states)
    adt_name = None
    for nm_, a_ in f.adts.items():
        if a_.get('kind') == 'enum' and b.raw.get('impl_self') and nm_.split('::')[0] == b.raw.get('impl_self').split('::')[0]:
            for st_ in ('struct',):
                pass
    sty = None
    sa = f.adts.get(b.raw.get('impl_self') or '')
    if sa:
        for v_ in sa.get('variants', []):
            for fd_ in v_.get('fields', []):
                if fd_['name'] == state_field:
                    sty = fd_['ty']
    states = [v_['name'] for v_ in f.adts.get(sty, {}).get('variants', [])] if sty in f.adts else []
    per_state = {}
    for s_name in states:
        per_state[s_name] = RangeAnalysis(f, b, xk, 8, dom, entries=[entry], stop=reads, opaque_ok=True, N=256, assume_variant={SF: s_name})
    for bi, blk in enumerate(b.blocks):
        if bi in reads:
            continue
        # only blocks whose execution depends on the state: the bytes that reach them differ between states (a block every state
        # reaches with the same bytes is common code, not part of any state's classification)
        rs_ = [repr(per_state[s_].reach_of(bi) & dom) for s_ in states]
        if len(set(rs_)) <= 1:
            continue
        for s_name in (states or [None]):
            if s_name is None:
                break
            reach = per_state[s_name].reach_of(bi) & dom
            if not reach:
                continue
            arm = out.setdefault(s_name, {})
            _collect(b, bi, blk, r, arm, reach, state_field, xkey)
    if states:
        return out, ra.mixed
    for bi, blk in enumerate(b.blocks):
        reach = ra.reach_of(bi) & dom
        if not reach or bi in reads:
            continue
        st = [v for k, e, v, S in block_conditions(b, bi, r) if k == 'variant' and e == SF]
        if len(st) != 1:
            continue
        arm = out.setdefault(st[0], {})
        _collect(b, bi, blk, r, arm, reach, state_field, xkey)
    return out, ra.mixed


def _collect(b, bi, blk, r, arm, reach, state_field, xkey):
    if True:

        def add(k):
            arm[k] = arm.get(k, ISet()) | reach
        for loc, consts in malformed_in_block(b, bi, r):
            add(('malformed', consts, read_component_kind(b, bi, r)))
        for s_ in blk['s']:
            if 'assign' in s_ and s_['assign']['l'] == 1 and s_['assign']['p'] and s_['assign']['p'][0] == 'deref':
                fl = [e['field'] for e in s_['assign']['p'] if isinstance(e, dict) and 'field' in e]
                val = r.rvalue(s_['rv'])
                if fl == [state_field] and val[0] == 'agg':
                    add(('to', variant_name(val)))
                elif fl and val == xkey:
                    add(('store', fl[0], 'b'))
                elif fl and fl != [state_field] and val[0] == 'c':
                    add(('set', fl[0], val[1]))
                elif fl and fl != [state_field] and val[0] == 'fld' and val[1] == ('deref', ('loc', 1)):
                    add(('set', fl[0], 'self.' + val[2]))
                if fl == [state_field] and val[0] == 'fld' and val[1] == ('deref', ('loc', 1)):
                    add(('to', 'self.' + val[2]))
        t = blk['t']
        if 'call' in t:
            fn = b.callee(t) or ''
            if 'Handle::write_' in fn:
                a = r.operand(t['args'][1])
                w = fn.rsplit('::', 1)[-1]
                if a == xkey:
                    add((w, 'b'))
                elif a[0] == 'c':
                    add((w, a[1]))
                else:
                    add((w, 'expr'))


def validator_reject_set(f, fn):
    """Exact set of byte values at which a byte-wise validator stops (returns the index)."""
    b = f.body(fn)
    if b is None:
        return None
    preds = [p for p in scalar_predicates(f, b) if p['bits'] == 8 and p['true_set'] is not None]
    # the validator returns early on the union of its byte tests (a chain of ||): the blocks returning `i`
    r = Resolver(b)
    if not preds:
        # the same with a combinator: bytes.iter().position(|&b| reject(b)).unwrap_or(bytes.len())
        rv = r.local(0)
        if rv == ('loc', 0):
            ds0 = b.defs.get(0, [])
            rv = r.call(ds0[0][3], ds0[0][0], 0) if len(ds0) == 1 and ds0[0][2] == 'call' else rv
        if rv[0] == 'call' and (rv[1] or '').endswith('Option::<T>::unwrap_or') and len(rv[2]) == 2 and rv[2][1] == ('len', ('loc', 1)):
            pos = rv[2][0]
            if pos[0] == 'call' and (pos[1] or '').endswith('::position') and len(pos[2]) == 2:
                import r_kernel
                if r_kernel.iter_roots(pos[2][0]) == [('arg', 1)]:
                    for cname, cb in f.bodies.items():
                        if cname.startswith(fn + '::{closure#') and cb.arg_count == 2:
                            ra = RangeAnalysis(f, cb, {('deref', ('loc', 2)), ('loc', 2)}, 8, ISet.of((0, 255)), N=256)
                            if ra.mixed:
                                return None
                            ts, fs, us = ra.return_value().truth_set()
                            return ts if not us else None
        return None
    # x = the byte loaded in the loop: the common leaf of the predicates
    leafs = {repr(p['leaf']) for p in preds}
    if len(leafs) != 1 or not preds:
        return None
    leaf = preds[0]['leaf']
    heads = {h for _, h in b.back_edges()}
    # entry: the block where the leaf is first available = the block of the first predicate
    first = min(p['bb'] for p in preds)
    ra = RangeAnalysis(f, b, {leaf}, 8, ISet.of((0, 255)), entries=[first], stop=heads - {first}, N=256)
    if ra.mixed:
        return None
    # blocks that return without reaching the loop head again
    rej = ISet()
    for bi in range(len(b.blocks)):
        reach = ra.reach_of(bi)
        if not reach:
            continue
        if 'return' in b.blocks[bi]['t'] or any('return' in b.blocks[s]['t'] for s in b.succ[bi]) and not (set(b.succ[bi]) & heads):
            pass
    # simpler: x values that can flow back to a loop head are accepted; the rest are rejected
    acc = ISet()
    for h in heads:
        if h != first:
            acc = acc | ra.reach_of(h)
    for (x, h) in b.back_edges():
        acc = acc | ra.reach_of(x)
    return ISet.of((0, 255)) - acc
