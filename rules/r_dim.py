"""R-DIM — dimension (unit-of-measure) inference for index arithmetic in the slice-to-slice converters.

In a function that takes a source slice and a destination slice, every usize quantity is a position/length in the source (S),
a position/length in the destination (D), a count valid in both (N: a difference of two positions of one buffer, the count an
ASCII kernel copied 1:1, the minimum of an S and a D quantity) or a constant (C).  The dimension of every expression is inferred
from the MIR (least fixpoint over the multiply-assigned locals):

    len(source..) = S   len(destination..) = D   c = C
    a - b : S-S, D-D -> N;  X-N, X-C -> X;  S-D, D-S -> conflict          a + b : X+N, X+C -> X;  S+D -> conflict
    min(S, D) = N   kernel(..) as Some).0.1 = N   validator(source) = S   converter(src, dst).0 / .1 = S / D

Obligations: no additive expression mixes S and D; the source is only indexed/re-sliced with C, N or S quantities and the
destination only with C, N or D quantities; a (read, written) result returns an S quantity first and a D quantity second.
Comparisons between S and D are capacity tests and are not constrained.  This decides a necessary condition of the read/written
and partial-output contracts: a position of one buffer is never used where a position of the other is meant.
"""
from mirlib import *
from shape import *

C, N, S, D, B, Q, TOP = 'C', 'N', 'S', 'D', 'B', '?', 'T'
KERNEL_N = ('ascii::ascii_to_ascii', 'ascii::ascii_to_basic_latin', 'ascii::basic_latin_to_ascii')
VALIDATORS_S = ('ascii::validate_ascii', 'utf_8::utf8_valid_up_to', 'ascii::ascii_valid_up_to', 'mem::utf16_valid_up_to', 'mem::utf8_latin1_up_to',
                'mem::str_latin1_up_to', 'mem::is_utf8_latin1_impl', 'mem::is_str_latin1_impl')


def join(a, b):
    if a == Q or b == Q:
        return Q
    if a == TOP or b == TOP:
        return TOP
    if a == C:
        return b
    if b == C:
        return a
    if a == N:
        return b
    if b == N:
        return a
    if a == B:
        return b
    if b == B:
        return a
    return a if a == b else TOP


def sub(a, b):
    if a == Q or b == Q:
        return Q
    if a in (S, D, B) and (a == b or B in (a, b)) and b in (S, D, B):
        return N
    if b in (C, N):
        return a if a != C else b
    if a in (C, N):
        return b            # c - position: odd but dimensionally that buffer's
    return TOP


def is_src_ty(ty):
    t = ty.replace(' ', '')
    return (t.startswith('&[') or t == '&str' or (t.startswith("&'") and ('[' in t or 'str' in t))) and 'mut' not in t


def is_dst_ty(ty):
    t = ty.replace(' ', '')
    return t.startswith('&mut[') or t == '&mutstr' or (t.startswith("&'") and 'mut' in t and ('[' in t or 'str' in t))


class Dim:
    def __init__(self, f, b):
        self.f, self.b = f, b
        self.r = Resolver(b)
        self.src = {i for i in range(1, b.arg_count + 1) if is_src_ty(b.locals[i]['ty'])}
        self.dst = {i for i in range(1, b.arg_count + 1) if is_dst_ty(b.locals[i]['ty'])}
        self.var = {}
        self.conflicts = []

    def root_dim(self, e, _seen=None):
        """dimension of the buffer a slice expression is cut from"""
        _seen = _seen if _seen is not None else set()
        e = strip_ref(e)
        while True:
            if e[0] in ('deref', 'ref'):
                e = strip_ref(e[1])
            elif e[0] == 'call' and short(e[1]) in ('index', 'index_mut', 'as_bytes', 'as_bytes_mut', 'get_unchecked', 'get_unchecked_mut', 'as_mut_ptr', 'as_ptr') and e[2]:
                e = strip_ref(e[2][0])
            elif e[0] == 'cast':
                e = strip_ref(e[2])
            else:
                break
        if e[0] == 'loc':
            if e[1] in self.src:
                return S
            if e[1] in self.dst:
                return D
            # a local re-slice of an argument (let mut src = buffer;), possibly re-sliced from itself in a loop
            # (src = &src[n..]): the definitions that lead back to the local itself add nothing
            if e[1] in _seen:
                return None
            _seen = _seen | {e[1]}
            ds = self.b.defs.get(e[1], [])
            dims = set()
            for d in ds:
                if d[2] == 'assign':
                    v = self.r.rvalue(d[3]['rv'])
                    if v != e:
                        dims.add(self.root_dim(v, _seen))
                elif d[2] == 'call':
                    v = self.r.call(d[3], d[0], 0)
                    dims.add(self.root_dim(v, _seen))
            dims.discard(None)
            if len(dims) == 1:
                return dims.pop()
        return None

    def len_dim(self, x, depth):
        """len of the whole buffer is that buffer's end position; len of buf[a..] is a count (end - a); len of buf[..b] is b"""
        x = strip_ref(x)
        while x[0] in ('deref', 'ref'):
            x = strip_ref(x[1])
        if x[0] == 'call' and short(x[1]) in ('index', 'index_mut') and len(x[2]) == 2:
            rng = x[2][1]
            if rng[0] == 'agg' and rng[1].endswith('RangeFrom::RangeFrom'):
                return sub(self.len_dim(x[2][0], depth + 1), self.dim(rng[2][0], depth + 1))
            if rng[0] == 'agg' and rng[1].endswith('RangeTo::RangeTo'):
                return self.dim(rng[2][0], depth + 1)
            if rng[0] == 'agg' and rng[1].endswith('Range::Range'):
                return sub(self.dim(rng[2][1], depth + 1), self.dim(rng[2][0], depth + 1))
        if x[0] == 'call' and short(x[1]) in ('as_bytes', 'as_bytes_mut') and x[2]:
            return self.len_dim(x[2][0], depth + 1)
        if x[0] == 'loc' and x[1] > self.b.arg_count:
            ds = self.b.defs.get(x[1], [])
            if len(ds) >= 2 and depth < 50:
                # a cursor kept as a shrinking slice (rest = &rest[n..]): its length is what is left of the buffer, a count
                for d in ds:
                    if d[2] == 'assign':
                        v = strip_ref(self.r.rvalue(d[3]['rv']))
                        while v[0] in ('deref', 'ref'):
                            v = strip_ref(v[1])
                        if v[0] == 'call' and short(v[1]) in ('index', 'index_mut') and len(v[2]) == 2 and v[2][1][0] == 'agg' and \
                                v[2][1][1].endswith('RangeFrom::RangeFrom'):
                            base = strip_ref(v[2][0])
                            while base[0] in ('deref', 'ref'):
                                base = strip_ref(base[1])
                            if base == x:
                                return N
            if len(ds) == 1 and depth < 50:
                d = ds[0]
                v = self.r.rvalue(d[3]['rv']) if d[2] == 'assign' else self.r.call(d[3], d[0], 0)
                if v != x:
                    return self.len_dim(v, depth + 1)
        return self.root_dim(x) or Q

    def dim(self, e, depth=0):
        k = e[0]
        if depth > 60:
            return Q
        if k == 'c':
            return C
        if k == 'len':
            return self.len_dim(e[1], depth + 1)
        if k == 'loc':
            l = e[1]
            if l <= self.b.arg_count:
                return Q
            if self.b.locals[l]['ty'] != 'usize':
                return Q
            return self.var.get(l, C)
        if k in ('bin', 'ovf'):
            op = e[1]
            a, c_ = self.dim(e[2], depth + 1), self.dim(e[3], depth + 1)
            if op in ('Add', 'AddUnchecked'):
                r_ = join(a, c_)
            elif op in ('Sub', 'SubUnchecked'):
                r_ = sub(a, c_)
            elif op in ('Mul', 'Div', 'Shl', 'Shr', 'Rem', 'BitAnd'):
                r_ = a if c_ in (C, Q) else (c_ if a == C else join(a, c_))
            else:
                return Q
            if r_ == TOP and a != TOP and c_ != TOP:
                self.conflicts.append((e, a, c_))
            return r_
        if k == 'cast':
            return self.dim(e[2], depth + 1)
        if k == 'call':
            fn = e[1] or ''
            s = short(fn)
            if s in ('min', 'max') and len(e[2]) == 2:
                a, c_ = self.dim(e[2][0], depth + 1), self.dim(e[2][1], depth + 1)
                if {a, c_} == {S, D}:
                    return N
                if N in (a, c_) and s == 'min':
                    return N
                return join(a, c_)
            if s == 'unwrap' and len(e[2]) == 1:
                return self.dim(e[2][0], depth + 1)
            if fn.startswith('core::num::') and s in ('checked_add', 'wrapping_add', 'saturating_add'):
                a, c_ = self.dim(e[2][0], depth + 1), self.dim(e[2][1], depth + 1)
                r_ = join(a, c_)
                if r_ == TOP and TOP not in (a, c_):
                    self.conflicts.append((e, a, c_))
                return r_
            if fn.startswith('core::num::') and s in ('checked_sub', 'wrapping_sub', 'saturating_sub'):
                a, c_ = self.dim(e[2][0], depth + 1), self.dim(e[2][1], depth + 1)
                r_ = sub(a, c_)
                if r_ == TOP and TOP not in (a, c_):
                    self.conflicts.append((e, a, c_))
                return r_
            if fn in VALIDATORS_S and e[2]:
                return self.root_dim(e[2][0]) or Q
            return Q
        if k == 'fld':
            x = e[1]
            # (kernel(..) as Some).0.1
            if e[2] == '1' and x[0] == 'fld' and x[2] == '0' and x[1][0] == 'as' and x[1][1][0] == 'call':
                fn = x[1][1][1] or ''
                if fn in KERNEL_N:
                    return N
                if fn in VALIDATORS_S:
                    return self.root_dim(x[1][1][2][0]) or Q
            # (validator(..) as Some).0  (Option<usize>)
            if e[2] == '0' and x[0] == 'as' and x[1][0] == 'call' and (x[1][1] or '') in VALIDATORS_S:
                return self.root_dim(x[1][2][0]) or Q
            # converter(src, dst).0 / .1 for crate functions returning (usize, usize) after a source and a destination slice
            if x[0] == 'call' and e[2] in ('0', '1') and len(x[2]) >= 2:
                cb = self.f.body(x[1]) if x[1] else None
                if cb is not None and cb.raw.get('ret', '').replace(' ', '') == '(usize,usize)':
                    a0, a1 = self.root_dim(x[2][0]), self.root_dim(x[2][1])
                    if a0 and a1:
                        return a0 if e[2] == '0' else a1
            return Q
        return Q

    def min_select(self, l):
        """is local l min(x, y) written as a branch (mirlib.min_select)?"""
        if not hasattr(self, '_cd'):
            self._cd = control_dependence(self.b)
        return min_select(self.b, l, self.r, self._cd) is not None

    def solve(self):
        b = self.b
        locs = [i for i, l in enumerate(b.locals) if i > b.arg_count and l['ty'] == 'usize' and len(b.defs.get(i, [])) >= 2]
        # usage seeds: a loop-carried local that is itself used as an index / range bound of a buffer is a position in that buffer
        # (it starts at 0 and accumulates counts, so assignments alone would only make it a count)
        self.index_uses = {}

        def seed(base, idx):
            rd = self.root_dim(base)
            if idx[0] == 'loc':
                self.index_uses.setdefault(idx[1], []).append(base)
            if rd in (S, D) and idx[0] == 'loc' and idx[1] in locs and not self.min_select(idx[1]):
                cur_ = self.var.get(idx[1], C)
                # indexing both buffers with the same local: a position valid in both (1:1 conversions)
                self.var[idx[1]] = B if (cur_ in (S, D, B) and cur_ != rd) else join(cur_, rd)
        for bi, blk in enumerate(b.blocks):
            t = blk['t']
            if 'call' in t:
                s_ = short(b.callee(t) or '')
                if s_ in ('index', 'index_mut', 'get_unchecked', 'get_unchecked_mut') and len(t['args']) == 2:
                    a0, a1 = self.r.operand(t['args'][0]), self.r.operand(t['args'][1])
                    for pe in (list(a1[2]) if a1[0] == 'agg' and 'Range' in a1[1] else [a1]):
                        seed(a0, pe)
            for st in blk['s']:
                for pl in places_of(st):
                    ix = [i for i, pe in enumerate(pl['p']) if isinstance(pe, dict) and 'index' in pe]
                    if ix:
                        base = self.r.place({'l': pl['l'], 'p': pl['p'][:ix[0]]}, record=False)
                        seed(base, self.r.local(pl['p'][ix[0]]['index']))
        for _ in range(12):
            changed = False
            for l in locs:
                d = self.var.get(l, C)
                for (bi, si, k, nd) in b.defs[l]:
                    if k == 'assign':
                        v = self.r.rvalue(nd['rv'])
                    else:
                        v = self.r.call(nd, bi, 0)
                    # a multiply-assigned local resolves to ('loc', l) itself inside its own update
                    dv = self.dim(v)
                    if dv == Q:
                        continue
                    # assigning a source length in one arm and a destination length in the other is a select (the smaller one):
                    # a position valid in both buffers, not a mix
                    if {d, dv} == {S, D}:
                        d = N if self.min_select(l) else B        # min(S, D) written as a branch is a count valid in both, like cmp::min
                    else:
                        d = join(d, dv)
                if d != self.var.get(l, C):
                    self.var[l] = d
                    changed = True
            if not changed:
                break
        self.conflicts = []


def short(fn):
    return (fn or '').rsplit('::', 1)[-1]


# functions in which one local legitimately indexes both buffers (confirmed by reading; one line of reason each)
SHARED_OK = {
    'single_byte::SingleByteDecoder::decode_to_utf16_raw': 'one byte -> one UTF-16 unit; both buffers are cut to min(src, dst) and walked with `converted`',
    'single_byte::SingleByteEncoder::encode_from_utf16_raw': 'one UTF-16 unit -> one byte; same `converted` index over min(src, dst)',
    'utf_8::Utf8Encoder::encode_from_utf8_raw': 'UTF-8 -> UTF-8 is a copy of the first `to_write` bytes; `to_write` is a length of both',
}


def in_scope(f, name, b):
    if b.kind not in ('fn', 'assoc_fn'):
        return False
    if not name.startswith(('mem::', 'utf_8::', 'ascii::', 'single_byte::', 'x_user_defined::', 'handles::convert_unaligned', 'handles::copy_unaligned')):
        return False
    tys = [b.locals[i]['ty'] for i in range(1, b.arg_count + 1)]
    return any(is_src_ty(t) for t in tys) and any(is_dst_ty(t) for t in tys)


def run(rep, f, c, rule='R-DIM'):
    nb = nchk = 0
    for name, b in sorted(f.bodies.items()):
        if not in_scope(f, name, b):
            continue
        nb += 1
        dm = Dim(f, b)
        dm.solve()
        r = dm.r
        seen = set()
        shared = sorted(l for l, d in dm.var.items() if d == B)

        def len_sig(base):
            """what fixes the length of an indexed buffer: ('arr', N) for [T; N] (through references), ('cut', k) for x[..k] / x[a..k]"""
            e = strip_ref(base)
            while e[0] in ('deref', 'ref'):
                e = strip_ref(e[1])
            if e[0] == 'call' and short(e[1]) in ('index', 'index_mut') and len(e[2]) == 2 and e[2][1][0] == 'agg':
                if e[2][1][1].endswith('RangeTo::RangeTo'):
                    return ('cut', e[2][1][2][0])
                if e[2][1][1].endswith('Range::Range'):
                    return ('cut', e[2][1][2][1])
            if e[0] == 'loc':
                import re as _re
                m = _re.search(r'\[[^;\[\]]+;\s*(\d+)\]$', b.locals[e[1]]['ty'].strip())
                if m:
                    return ('arr', int(m.group(1)))
                sd = b.single_def(e[1])
                if sd is not None and sd[2] == 'assign':
                    v = r.rvalue(sd[3]['rv'])
                    if v != e:
                        return len_sig(v)
            return None
        # one index over several buffers is the natural form of a unit-for-unit copy: legitimate when all of them have the same
        # length by construction (fixed arrays of one size, slices cut to one common length)
        lockstep = []
        for l in list(shared):
            sigs = {repr(len_sig(x)) for x in dm.index_uses.get(l, [])}
            if len(sigs) == 1 and 'None' not in sigs:
                lockstep.append(l)
                shared.remove(l)
        base_name = name.split('::')
        fn_key = name
        for k_ in SHARED_OK:
            if name == k_ or name.startswith(k_ + '::'):
                fn_key = k_
        nchk += 1
        rep.ob(rule + '.shared', name, not shared or fn_key in SHARED_OK,
               'the local(s) %s index both the source and the destination; outside the 1:1 conversions (%s) each buffer has its own position' %
               ([b.locals[l].get('name') or '_%d' % l for l in shared], ', '.join(sorted(x.split('::')[-1] for x in SHARED_OK))), sp_str(b.raw['span']), None, c)

        if fn_key in SHARED_OK and name.startswith('utf_8::Utf8Encoder::'):
            continue        # UTF-8 -> UTF-8: source and destination positions are the same quantity; the function is decided exactly by R-UTF8ENC

        def report(kind, key, ok, msg, site):
            nonlocal nchk
            k2 = '%s:%s:%s' % (name, kind, key)
            if k2 in seen and ok:
                return
            seen.add(k2)
            nchk += 1
            rep.ob(rule + '.' + kind, '%s:%s' % (name, key), ok, msg, site, None, c)
        # 1. every arithmetic rvalue / call
        for bi, blk in enumerate(b.blocks):
            for st in blk['s']:
                if 'assign' not in st:
                    continue
                rv = st['rv']
                if 'bin' in rv and rv['bin'].replace('WithOverflow', '') in ('Add', 'Sub'):
                    dm.conflicts = []
                    e = r.rvalue(rv)
                    e = ('bin', e[1], e[2], e[3]) if e[0] == 'ovf' else e
                    d = dm.dim(e)
                    top = [x for x in dm.conflicts]
                    report('mix', '%s' % expr_str(e, b)[:70], not top,
                           'a %s quantity and a %s quantity are %s: a position of one buffer is used where a position of the other is meant (%s)' %
                           (dict(S='source', D='destination').get(top[0][1], top[0][1]) if top else '', dict(S='source', D='destination').get(top[0][2], top[0][2]) if top else '',
                            'subtracted' if 'Sub' in rv['bin'] else 'added', expr_str(e, b)[:100]), sp_str(st['sp']))
            t = blk['t']
            # 2. indexing / re-slicing
            if 'call' in t:
                fn = b.callee(t) or ''
                s = short(fn)
                args = [r.operand(a) for a in t['args']]
                if s in ('index', 'index_mut', 'get_unchecked', 'get_unchecked_mut') and len(args) == 2:
                    rd = dm.root_dim(args[0])
                    if rd in (S, D):
                        idx = args[1]
                        parts = list(idx[2]) if idx[0] == 'agg' and 'Range' in idx[1] else [idx]
                        for pe in parts:
                            dm.conflicts = []
                            d = dm.dim(pe)
                            bad = d in (S, D) and d != rd
                            report('index', '%s[%s]' % ('src' if rd == S else 'dst', expr_str(pe, b)[:50]), not bad and d != TOP,
                                   'the %s is indexed with a %s quantity: %s' % ('source' if rd == S else 'destination', 'destination' if d == D else 'source' if d == S else 'mixed', expr_str(pe, b)[:100]),
                                   sp_str(blk['tsp']))
        for bi, blk in enumerate(b.blocks):
            for st in blk['s']:
                # place projections x[i] on loads/stores
                for pl in places_of(st):
                    idxs = [pe['index'] for pe in pl['p'] if isinstance(pe, dict) and 'index' in pe]
                    if not idxs:
                        continue
                    base = r.place({'l': pl['l'], 'p': pl['p'][:[i for i, pe in enumerate(pl['p']) if isinstance(pe, dict) and 'index' in pe][0]]}, record=False)
                    rd = dm.root_dim(base)
                    if rd not in (S, D):
                        continue
                    d = dm.dim(r.local(idxs[0]))
                    bad = d in (S, D) and d != rd
                    report('index', '%s[%s]' % ('src' if rd == S else 'dst', expr_str(r.local(idxs[0]), b)[:50]), not bad and d != TOP,
                           'the %s is indexed with a %s quantity: %s' % ('source' if rd == S else 'destination', 'destination' if d == D else 'source' if d == S else 'mixed', expr_str(r.local(idxs[0]), b)[:100]),
                           sp_str(st['sp']))
        # 3. (read, written) results
        ret = b.raw.get('ret', '').replace(' ', '')
        if ret == '(usize,usize)' or ret.endswith(',usize,usize)'):
            for bi, blk in enumerate(b.blocks):
                for st in blk['s']:
                    if 'assign' in st and st['assign']['l'] == 0 and not st['assign']['p'] and st['rv'].get('aggregate') == 'tuple':
                        ops = [r.operand(o) for o in st['rv']['ops']]
                        rd_, wr_ = ops[-2], ops[-1]
                        d0, d1 = dm.dim(rd_), dm.dim(wr_)
                        report('result', 'read', d0 not in (D, TOP), 'the `read` result is a %s quantity: %s' % ('destination' if d0 == D else 'mixed', expr_str(rd_, b)[:100]), sp_str(st['sp']))
                        report('result', 'written', d1 not in (S, TOP), 'the `written` result is a %s quantity: %s' % ('source' if d1 == S else 'mixed', expr_str(wr_, b)[:100]), sp_str(st['sp']))
    rep.floor(rule, 'slice-to-slice converter bodies analysed', nb, 35, c)
    nchk += consumed_without_output(rep, f, c, rule)
    nrel = relative_index(rep, f, c, rule)
    rep.floor(rule + '.relative', 'indices checked against the running position of their loop', nrel, 200, c)
    nchk += nrel
    rep.count('dim.bodies:%s' % c, nb)
    rep.count('dim.checks:%s' % c, nchk)
    return nb, nchk


def consumed_without_output(rep, f, c, rule):
    """a path that advances a source position and returns must also have produced output (advanced a destination position or stored
    into the destination): the converters never consume a unit silently (lossy forms write a replacement)"""
    from paths import region_paths, loop_heads
    n = 0
    for name, b in sorted(f.bodies.items()):
        if not in_scope(f, name, b):
            continue
        ret = b.raw.get('ret', '').replace(' ', '')
        if not (ret == '(usize,usize)' or ret.endswith(',usize,usize)')):
            continue
        dm = Dim(f, b)
        dm.solve()
        S_l = [l for l, d in dm.var.items() if d == S]
        D_l = [l for l, d in dm.var.items() if d in (D, B)]
        if not S_l or not D_l:
            continue
        heads = set(loop_heads(b))
        bad = None
        npaths = 0
        try:
            regions = [(h, region_paths(b, h, stop=heads)) for h in sorted(heads)]
        except OverflowError:
            continue
        for h, paths in regions:
            for p in paths:
                if p.end[0] != 'return':
                    continue
                npaths += 1

                def delta(l):
                    v = p.env.get(l)
                    if v is None:
                        return 0
                    terms, k = add_terms(v)
                    return k if terms == (('init', l),) else None
                ds = [delta(l) for l in S_l]
                dd = [delta(l) for l in D_l]
                if any(x is None for x in ds + dd):
                    continue
                stores = [e for e in p.events if e[0] == 'store' and dm.root_dim(e[1][1] if e[1][0] in ('idx', 'deref') else e[1]) == D]
                wcalls = [e for e in p.events if e[0] == 'call' and any(dm.root_dim(a) == D for a in e[2])]
                if sum(ds) > 0 and sum(dd) == 0 and not stores and not wcalls:
                    bad = (p.blocks[-1], sum(ds))
        n += 1
        rep.ob(rule + '.consume', name, bad is None,
               'a path advances the source position by %d and returns without storing anything or advancing the destination position: a unit is consumed silently' % (bad[1] if bad else 0),
               sp_str(b.blocks[bad[0]]['tsp']) if bad else sp_str(b.raw['span']), {'return_paths': npaths}, c)
    return n


def relative_index(rep, f, c, rule):
    """inside a loop that walks a buffer with a loop-carried position, every index into that buffer is relative to a loop-carried
    position (it mentions one): an index built from a count alone addresses the start of the window, not the current place"""
    from paths import loop_heads
    n = 0
    for name, b in sorted(f.bodies.items()):
        if b.kind not in ('fn', 'assoc_fn') or not name.startswith(('handles::', 'mem::', 'utf_8::', 'single_byte::', 'x_user_defined::', 'ascii::')):
            continue
        heads = loop_heads(b)
        if not heads:
            continue
        r = Resolver(b)
        multi = {i for i, l in enumerate(b.locals) if i > b.arg_count and l['ty'] == 'usize' and len(b.defs.get(i, [])) >= 2}
        if not multi:
            continue
        uses = []           # (block, buffer root, index expr, site)

        def buf_local(l, depth=0):
            """follow copies / reborrows of a slice reference back to a named local or an argument"""
            while depth < 12:
                depth += 1
                if l <= b.arg_count or b.locals[l].get('name'):
                    return l
                sd = b.single_def(l)
                if sd is None or sd[2] != 'assign':
                    return l
                rv = sd[3]['rv']
                pl_ = None
                if 'use' in rv:
                    pl_ = op_place(rv['use'])
                elif 'ref' in rv or 'rawptr' in rv:
                    pl_ = rv.get('place')
                elif 'cast' in rv:
                    pl_ = op_place(rv['x'])
                if pl_ is None or any(pe != 'deref' for pe in pl_['p']):
                    return l
                l = pl_['l']
            return l

        def root_of_buf(e):
            return e if e[0] == 'loc' else None
        for bi, blk in enumerate(b.blocks):
            t = blk['t']
            if 'call' in t:
                s_ = short(b.callee(t) or '')
                if s_ in ('index', 'index_mut', 'get_unchecked', 'get_unchecked_mut') and len(t['args']) == 2:
                    a1 = r.operand(t['args'][1])
                    p0 = op_place(t['args'][0])
                    rt = ('loc', buf_local(p0['l'])) if p0 is not None else None
                    if rt is not None:
                        parts = list(a1[2]) if a1[0] == 'agg' and 'Range' in a1[1] else [a1]
                        # only the start of a range is a position to check; the end may be a length
                        if a1[0] == 'agg' and a1[1].endswith(('Range::Range', 'RangeFrom::RangeFrom')):
                            parts = [a1[2][0]]
                        elif a1[0] == 'agg' and 'RangeTo' in a1[1]:
                            parts = []
                        for pe in parts:
                            uses.append((bi, rt, pe, sp_str(blk['tsp'])))
            for st in blk['s']:
                for pl in places_of(st):
                    ix = [i for i, pe in enumerate(pl['p']) if isinstance(pe, dict) and 'index' in pe]
                    if ix:
                        rt = ('loc', buf_local(pl['l']))
                        uses.append((bi, rt, r.local(pl['p'][ix[0]]['index']), sp_str(st['sp'])))
        if not uses:
            continue
        for h in heads:
            loop = _natural_loop(b, h)
            carried = {l for l in multi if any(d[0] in loop for d in b.defs[l])}
            by_buf = {}
            for bi, rt, idx, site in uses:
                if bi in loop:
                    by_buf.setdefault(rt, []).append((idx, site))
            for rt, items in by_buf.items():
                if 'usize' in b.locals[rt[1]]['ty'] or '[' not in b.locals[rt[1]]['ty']:
                    continue
                pos = set()
                for idx, site in items:
                    pos |= arith_locals(idx) & carried
                if not pos:
                    continue
                for idx, site in items:
                    mentions = bool(arith_locals(idx) & pos)
                    n += 1
                    rep.ob(rule + '.relative', '%s:%s[%s]' % (name, b.locals[rt[1]].get('name') or '_%d' % rt[1], expr_str(idx, b)[:40]), mentions,
                           'inside the loop that walks `%s` with the position(s) %s this index does not depend on any of them: %s' %
                           (b.locals[rt[1]].get('name') or '_%d' % rt[1], [b.locals[l].get('name') or '_%d' % l for l in sorted(pos)], expr_str(idx, b)[:80]), site, None, c)
    return n


def arith_locals(e):
    """locals an index expression depends on arithmetically (through + - * casts), not through the arguments of a call whose
    result it uses"""
    out = set()
    if not isinstance(e, tuple) or not e:
        return out
    if e[0] == 'loc':
        out.add(e[1])
    elif e[0] in ('bin', 'ovf'):
        out |= arith_locals(e[2]) | arith_locals(e[3])
    elif e[0] == 'cast':
        out |= arith_locals(e[2])
    elif e[0] == 'call' and short(e[1]) in ('unwrap', 'min', 'max', 'checked_add', 'wrapping_add', 'checked_sub', 'wrapping_sub'):
        for a in e[2]:
            out |= arith_locals(a)
    return out


def _natural_loop(body, h):
    loop = {h}
    stack = [x for (x, hh) in body.back_edges() if hh == h]
    while stack:
        x = stack.pop()
        if x in loop:
            continue
        loop.add(x)
        stack.extend(body.pred[x])
    return loop


def places_of(st):
    out = []

    def walk_(x):
        if isinstance(x, dict):
            if 'l' in x and 'p' in x and isinstance(x['l'], int):
                out.append(x)
                return
            for v in x.values():
                walk_(v)
        elif isinstance(x, list):
            for v in x:
                walk_(v)
    walk_(st)
    return out
