"""C09 — replacement modes equal the documented manual error-recovery procedure."""
from mirlib import *
from paths import *
from shape import *
from ranges import *

MANIFEST = {
    'category': 'other',
    'text': 'Every path through one iteration of the four with-replacement wrappers (Decoder::decode_to_utf8/utf16, '
            'Encoder::encode_from_utf8/utf16) is enumerated from MIR and summarised symbolically; the rules decide, for all '
            'inputs and call histories at once, that each iteration makes exactly one without-replacement call on '
            'src[total_read..] / dst[total_written..(effective_dst_len)] with the caller\'s `last`, that totals accumulate the '
            'inner counts, that the error flag starts false and becomes true only in the Malformed/Unmappable arm, that this '
            'arm stores exactly EF BF BD (resp. FFFD) or the NCR at dst[total_written..] and advances by exactly what it stored, '
            'and that InputEmpty/OutputFull are passed through with the accumulated totals. write_ncr\'s length table is '
            'extracted exactly (interval propagation over all scalar values) and equals digits+3 with the &# ; frame. The inner '
            'converters\' own semantics (C01-C04) and the digit loop arithmetic are not decided here.',
    'note': 'Trusted: rustc MIR, mirx, rule library, slice indexing semantics.',
    'technique': 'bounded path enumeration with symbolic summaries over rustc MIR + exact interval extraction (write_ncr)',
}
CONFIGS = {'quick': ['default'], 'thorough': ['default', 'noalloc', 'simd']}

WRAPPERS = [
    # fn, inner, error variant, enum of inner result, replacement units, is_encoder
    ('Decoder::decode_to_utf8', 'Decoder::decode_to_utf8_without_replacement', 'Malformed', [0xEF, 0xBF, 0xBD], False),
    ('Decoder::decode_to_utf16', 'Decoder::decode_to_utf16_without_replacement', 'Malformed', [0xFFFD], False),
    ('Encoder::encode_from_utf8', 'Encoder::encode_from_utf8_without_replacement', 'Unmappable', None, True),
    ('Encoder::encode_from_utf16', 'Encoder::encode_from_utf16_without_replacement', 'Unmappable', None, True),
]


def named(b, name):
    ls = [i for i, l in enumerate(b.locals) if l.get('name') == name]
    return ls[0] if len(ls) == 1 else None


def wrapper(rep, f, c, fn, inner, errvar, repl, is_enc):
    b = f.body(fn)
    if b is None:
        rep.undecidable('C09-D1', fn, 'function not found', None, c)
        return
    site = sp_str(b.raw['span'])
    heads = loop_heads(b)
    if len(heads) != 1:
        rep.undecidable('C09-D1', fn, 'expected exactly one loop, found %d' % len(heads), site, c)
        return
    H = heads[0]
    # roles are discovered structurally (robust to renamed locals): the loop-carried locals used to slice src / dst for the inner
    # call, and the bool that is false before the loop and set to true inside it
    flag = TRl = TWl = effl0 = None
    try:
        probe = region_paths(b, H)
    except OverflowError as e:
        rep.undecidable('C09-D1', fn, str(e), site, c)
        return
    for p_ in probe:
        ic_ = [e for e in p_.calls() if e[1] == inner]
        if len(ic_) == 1:
            s_ix, d_ix = index_from(ic_[0][2][1]), index_from(ic_[0][2][2])
            if s_ix and s_ix[1][0] == 'init':
                TRl = s_ix[1][1]
            if d_ix and d_ix[1][0] == 'init':
                TWl = d_ix[1][1]
            if d_ix and len(d_ix) == 3 and d_ix[2][0] == 'init':
                effl0 = d_ix[2][1]
    in_loop = b.reach_from([H])
    for i, l in enumerate(b.locals):
        if l['ty'] == 'bool' and i > b.arg_count:
            ds = [d for d in b.defs.get(i, []) if d[2] == 'assign' and 'use' in d[3]['rv'] and op_int(d[3]['rv']['use']) is not None]
            vals = sorted((op_int(d[3]['rv']['use']), d[0] in in_loop and d[0] != 0) for d in ds)
            if len(b.defs.get(i, [])) == 2 and [v for v, _ in vals] == [0, 1] and any(v == 1 and inl for v, inl in vals):
                flag = i
    if None in (flag, TRl, TWl):
        rep.undecidable('C09-D1', fn, 'accumulators (read/written totals, error flag) not found', site, c)
        return
    SRC, DST, LAST = ('loc', 2), ('loc', 3), ('loc', 4)
    TR, TW, FL = ('init', TRl), ('init', TWl), ('init', flag)

    def ob(name, ok, msg, at=None, ex=None):
        return rep.ob('C09-D1.' + name, fn, ok, msg, at or site, ex, c)

    # --- initialisation on every path from entry to the loop head
    try:
        pre = [summarize(b, blks, end) for blks, end in enumerate_block_paths(b, 0, stop=[H])]
    except OverflowError as e:
        rep.undecidable('C09-D1', fn, str(e), site, c)
        return
    to_head = [p for p in pre if p.end == ('stop', H)]
    ok_init = bool(to_head) and all(p.env.get(flag) == ('c', 0, 'bool') and p.env.get(TRl) == C(0) and p.env.get(TWl) == C(0) for p in to_head)
    ob('init', ok_init, 'flag/total_read/total_written are not initialised to false/0/0 before the loop')
    eff = None
    if is_enc:
        effl = effl0
        eff = ('init', effl) if effl is not None else None
        # effective_dst_len: dst_len when can_encode_everything, dst_len - NCR_EXTRA otherwise
        ncr = f.consts.get('NCR_EXTRA', {}).get('int')
        good = True
        seen_kinds = set()
        for p in to_head:
            v = p.env.get(effl)
            cee = [e for e in p.conds() if is_call(e[1], 'Encoding::can_encode_everything')]
            if len(cee) != 1:
                good = False
                continue
            if cee[0][2] is True:
                good &= v == ('len', DST)
                seen_kinds.add('all')
            else:
                good &= v == ('bin', 'Sub', ('len', DST), C(ncr))
                # guarded by !(dst_len < NCR_EXTRA)
                g = [e for e in p.conds() if e[1] == ('bin', 'Lt', ('len', DST), C(ncr)) and e[2] is False]
                good &= len(g) == 1
                seen_kinds.add('ncr')
        ob('effective-len', good and seen_kinds == {'all', 'ncr'} and ncr == 10,
           'effective_dst_len is not dst.len() (can_encode_everything) / dst.len() - NCR_EXTRA (otherwise, guarded by dst.len() >= NCR_EXTRA)',
           None, {'NCR_EXTRA': ncr})
        # early exits (dst_len < NCR_EXTRA): no conversion call, counts 0,0,false; InputEmpty only if src empty and no pending state at end
        early = [p for p in pre if p.end[0] == 'return']
        ok_early = True
        for p in early:
            rv = p.env.get(0)
            ok_early &= not p.calls(inner.rsplit('::', 1)[-1])
            ok_early &= rv is not None and rv[0] == 'agg' and rv[2][1:] == (C(0), C(0), ('c', 0, 'bool'))
            g = [e for e in p.conds() if e[1] == ('bin', 'Lt', ('len', DST), C(ncr)) and e[2] is True]
            ok_early &= len(g) == 1
            if rv is not None and rv[0] == 'agg' and variant_name(rv[2][0]) == 'InputEmpty':
                emp = [e for e in p.conds() if e[1][0] == 'is_empty' and e[2] is True]
                pend_ok = any((e[1] == LAST and e[2] is False) for e in p.conds()) or \
                    any(is_call(e[1], 'Encoder::has_pending_state') and e[2] is False for e in p.conds())
                ok_early &= len(emp) == 1 and pend_ok
        ob('early-exit', ok_early and len(early) >= 2,
           'the dst.len() < NCR_EXTRA exits do not have the documented shape (no conversion, (_,0,0,false), InputEmpty only for empty input without pending state)')

    # --- one loop iteration
    try:
        paths = region_paths(b, H)
    except OverflowError as e:
        rep.undecidable('C09-D1', fn, str(e), site, c)
        return
    live = [p for p in paths if p.end[0] != 'diverge']
    rep.count('paths:' + fn, len(live))
    res_expr = None
    kinds = {'InputEmpty': 0, 'OutputFull': 0, errvar: 0}
    for p in live:
        ic = p.calls(inner.rsplit('::', 1)[-1])
        ic = [e for e in ic if e[1] == inner]
        at = sp_str(b.blocks[p.blocks[-1]]['tsp'])
        if not ob('one-inner-call', len(ic) == 1, 'an iteration makes %d calls of %s (must be exactly one)' % (len(ic), inner), at):
            continue
        call = ic[0]
        args = call[2]
        res = ('call', inner, args, call[3])
        a_self = strip_ref(args[0]) == ('loc', 1)
        s_ix = index_from(args[1])
        d_ix = index_from(args[2])
        ok_src = s_ix is not None and len(s_ix) == 2 and s_ix[0] == SRC and s_ix[1] == TR
        if is_enc:
            ok_dst = d_ix is not None and len(d_ix) == 3 and d_ix[0] == DST and d_ix[1] == TW and d_ix[2] == eff
        else:
            ok_dst = d_ix is not None and len(d_ix) == 2 and d_ix[0] == DST and d_ix[1] == TW
        ob('inner-args', a_self and ok_src and ok_dst and args[3] == LAST,
           'inner call is not (self, &src[total_read..], &mut dst[total_written..%s], last)' % ('effective_dst_len' if is_enc else ''), at,
           {'src': expr_str(args[1], b)[:120], 'dst': expr_str(args[2], b)[:160]})
        # which arm?
        arm = [e for e in p.conds() if e[1][0] == 'variant' and e[1][1] == tuple_field(res, 0)]
        if not ob('match-on-result', len(arm) == 1 and arm[0][2] in kinds, 'iteration does not match on the inner result exactly once', at):
            continue
        v = arm[0][2]
        kinds[v] += 1
        TR1 = ('bin', 'Add', TR, tuple_field(res, 1))
        TW1 = ('bin', 'Add', TW, tuple_field(res, 2))
        flag_sets = [e for e in p.events if e[0] == 'set' and e[1] == flag]
        if v in ('InputEmpty', 'OutputFull'):
            rv = p.env.get(0)
            ok = p.end[0] == 'return' and rv is not None and rv[0] == 'agg' and len(rv[2]) == 4 and \
                variant_name(rv[2][0]) == v and rv[2][1] == TR1 and rv[2][2] == TW1 and rv[2][3] == FL
            ob('passthrough-' + v, ok and not flag_sets and not p.stores(),
               '%s arm does not return (CoderResult::%s, total_read+read, total_written+written, flag) unchanged' % (v, v), at)
            continue
        # error arm
        ob('flag-set', len(flag_sets) == 1 and flag_sets[0][2] == ('c', 1, 'bool'), 'the error arm does not set the flag to true exactly once', at)
        if not is_enc:
            st = [e for e in p.stores()]
            want = []
            ok = len(st) == len(repl) and p.end[0] == 'back'
            for i, e in enumerate(st):
                if i >= len(repl):
                    break
                place, val = e[1], e[2]
                pidx = None
                if place[0] == 'idx' and strip_ref(place[1]) == DST:
                    pidx = place[2]
                ok &= pidx is not None and add_terms(pidx) == add_terms(('bin', 'Add', TW1, C(i))) and is_c(val, repl[i])
            ok &= add_terms(p.env.get(TWl)) == add_terms(('bin', 'Add', TW1, C(len(repl)))) and p.env.get(TRl) == TR1
            ob('replacement-units', ok, 'the Malformed arm does not store exactly %s at dst[total_written..] and advance by %d' % (['%X' % x for x in repl], len(repl)), at,
               {'stores': [(expr_str(e[1], b)[:60], expr_str(e[2], b)) for e in st]})
        else:
            nc = [e for e in p.calls('write_ncr') if e[1] == 'write_ncr']
            ok = len(nc) == 1 and not p.stores()
            if ok:
                a = nc[0][2]
                payload = ('fld', ('as', tuple_field(res, 0), 'Unmappable'), '0')
                d2 = index_from(a[1])
                ok &= a[0] == payload and d2 is not None and len(d2) == 2 and d2[0] == DST and d2[1] == TW1
                ncr_res = ('call', 'write_ncr', a, nc[0][3])
                TW2 = p.env.get(TWl)
                ok &= add_terms(TW2) == add_terms(('bin', 'Add', TW1, ncr_res)) and p.env.get(TRl) == TR1
                # continuation decision
                ge = [e for e in p.conds() if e[1][0] == 'bin' and e[1][1] in ('Ge', 'Lt') and add_terms(e[1][2]) == add_terms(TW2) and e[1][3] == eff]
                if len(ge) != 1:
                    ok = False
                else:
                    full = (ge[0][2] is True) if ge[0][1][1] == 'Ge' else (ge[0][2] is False)
                    if not full:
                        ok &= p.end[0] == 'back'
                    else:
                        rv = p.env.get(0)
                        ok &= p.end[0] == 'return' and rv is not None and rv[0] == 'agg' and rv[2][1] == TR1 and add_terms(rv[2][2]) == add_terms(TW2) \
                            and rv[2][3] == ('c', 1, 'bool')
                        if ok:
                            vn = variant_name(rv[2][0])
                            eqc = [e for e in p.conds() if e[1][0] == 'bin' and e[1][1] == 'Eq' and e[1][2] == TR1 and e[1][3] == ('len', SRC)]
                            lastc = [e for e in p.conds() if e[1] == LAST]
                            pend = [e for e in p.conds() if is_call(e[1], 'Encoder::has_pending_state')]
                            if vn == 'InputEmpty':
                                ok &= len(eqc) == 1 and eqc[0][2] is True and ((lastc and lastc[0][2] is False) or (pend and pend[0][2] is False))
                            elif vn == 'OutputFull':
                                ok &= (len(eqc) == 1 and eqc[0][2] is False) or (lastc and lastc[0][2] is True and pend and pend[0][2] is True)
                            else:
                                ok = False
            ob('ncr-arm', ok, 'the Unmappable arm does not write one NCR for the reported character at dst[total_written..], advance by its length, '
               'and decide InputEmpty/OutputFull as documented', at)
    ob('arms', all(kinds[k] >= 1 for k in kinds), 'not every result kind is handled: %r' % kinds, None, dict(kinds))
    # the flag is assigned nowhere else
    all_sets = [(bi, s) for bi, si, k, s in b.defs.get(flag, [])]
    ob('flag-writes', len(all_sets) == 2, 'the flag is assigned %d times (expected: initialisation and the error arm)' % len(all_sets))


def write_ncr(rep, f, c):
    fn = 'write_ncr'
    b = f.body(fn)
    if b is None:
        rep.undecidable('C09-D2', fn, 'function not found', None, c)
        return
    site = sp_str(b.raw['span'])
    r00 = Resolver(b)
    rv00 = r00.local(0)
    if rv00 == ('loc', 0):
        ds00 = b.defs.get(0, [])
        rv00 = r00.rvalue(ds00[0][3]['rv']) if len(ds00) == 1 and ds00[0][2] == 'assign' else rv00
    lenl = rv00[1] if rv00[0] == 'loc' else None          # the local that is returned
    CHAR = ISet.of((0, 0xD7FF), (0xE000, 0x10FFFF))
    heads = loop_heads(b)
    numl = None
    for i, l in enumerate(b.locals):
        if l['ty'] == 'u32' and len(b.defs.get(i, [])) >= 2 and any(d[2] == 'assign' and Resolver(b).rvalue(d[3]['rv']) == ('cast', 'IntToInt', ('loc', 1), 'u32') for d in b.defs.get(i, [])):
            numl = i
    if lenl is None or numl is None:
        rep.undecidable('C09-D2', fn, 'length / number locals not found', site, c)
        return
    # before the digit loop `number` is exactly `unmappable as u32` (its only other definition is inside the loop)
    r0 = Resolver(b)
    pre_defs = [r0.rvalue(n['rv']) for bi, si, k, n in b.defs.get(numl, []) if k == 'assign' and bi not in b.reach_from(heads)]
    if pre_defs != [('cast', 'IntToInt', ('loc', 1), 'u32')]:
        rep.undecidable('C09-D2', fn, 'number is not initialised as `unmappable as u32`', site, c)
        return
    ra = RangeAnalysis(f, b, {('cast', 'IntToInt', ('loc', 1), 'u32'), ('loc', 1), ('loc', numl)}, 32, CHAR, stop=heads)
    if ra.mixed:
        rep.undecidable('C09-D2', fn, 'length selection is not a pure comparison tree: %r' % ra.mixed[:1], site, c)
        return
    table = ra.set_where_local_const(lenl) if lenl is not None else {}
    want = {}
    for lo, hi in CHAR.iv:
        for d in range(1, 8):
            a, z = max(lo, 10 ** (d - 1) if d > 1 else 0), min(hi, 10 ** d - 1)
            if a <= z:
                want[d + 3] = want.get(d + 3, ISet()) | ISet.of((a, z))
    # the function is only ever given unmappable (hence non-ASCII, >= 128) characters; below 100 the table says 5
    ok = True
    detail = {}
    for L, s in table.items():
        detail[L] = repr(s)
    for L in sorted(want):
        if L < 5:
            continue
        got = table.get(L, ISet())
        exp = want[L]
        if L == 5:
            exp = want.get(5, ISet()) | want.get(4, ISet())   # 0..99 all take the shortest form; unreachable below 128
            ok &= (got & ISet.of((10, 0x10FFFF))) == (exp & ISet.of((10, 0x10FFFF)))
        else:
            ok &= got == exp
    rep.ob('C09-D2.length', fn, ok and bool(table), 'NCR length table is not digits+3: %r' % detail, site, {'table': detail}, c)
    # frame: dst[len-1] = ';', dst[1] = '#', dst[0] = '&', return len
    r = Resolver(b)
    stores = []
    for bi, blk in enumerate(b.blocks):
        for st in blk['s']:
            if 'assign' in st and st['assign']['p'] and st['assign']['p'][0] == 'deref' and st['assign']['l'] == 2:
                pe = st['assign']['p'][1] if len(st['assign']['p']) > 1 else None
                if isinstance(pe, dict) and 'index' in pe:
                    stores.append((bi, r.local(pe['index']), r.rvalue(st['rv']), st))
    amp = [s for s in stores if s[1] == C(0) and is_c(s[2], 0x26)]
    hsh = [s for s in stores if s[1] == C(1) and is_c(s[2], 0x23)]
    semi = [s for s in stores if is_c(s[2], 0x3B)]
    rep.ob('C09-D2.frame', fn, len(amp) == 1 and len(hsh) == 1 and len(semi) == 1 and len(stores) == 4,
           'frame is not dst[0]=&, dst[1]=#, dst[len-1]=; plus one digit store', site,
           {'stores': [(expr_str(s[1], b), expr_str(s[2], b)[:60]) for s in stores]}, c)
    if semi:
        # index of ';' is len - 1 at that point: the reaching value of pos is Sub(len, 1)
        posl = semi[0][1][1] if semi[0][1][0] == 'loc' else None
        pd = [r.rvalue(n['rv']) for bi, si, k, n in b.defs.get(posl, []) if k == 'assign']
        rep.ob('C09-D2.semicolon', fn, ('bin', 'Sub', ('loc', lenl), C(1)) in pd and semi[0][1] == ('loc', posl) and
               reaching_defs(b, posl)[semi[0][0]] and all(r.rvalue(b.blocks[d[0]]['s'][d[1]]['rv']) == ('bin', 'Sub', ('loc', lenl), C(1))
                                                          for d in reaching_defs(b, posl)[semi[0][0]] if d[0] != 'arg'),
               '; is not stored at dst[len - 1]', sp_str(semi[0][3]['sp']), None, c)
    # digit store: (number % 10) as u8 + b'0', number /= 10
    dig = [s for s in stores if s not in amp + hsh + semi]
    okd = False
    if len(dig) == 1:
        v = dig[0][2]
        if v[0] == 'bin' and v[1] == 'Add' and is_c(v[3], 0x30):
            inner = cast_inner(v[2])
            okd = inner[0] == 'bin' and inner[1] == 'Rem' and is_c(inner[3], 10)
    nd = [r.rvalue(n['rv']) for bi, si, k, n in b.defs.get(numl, []) if k == 'assign']
    okdiv = any(e[0] == 'bin' and e[1] == 'Div' and e[2] == ('loc', numl) and is_c(e[3], 10) for e in nd)
    rep.ob('C09-D2.digits', fn, okd and okdiv, 'digit loop is not (number % 10) + b\'0\' with number /= 10', site, None, c)
    rv = r.local(0)
    if rv == ('loc', 0):
        ds = b.defs.get(0, [])
        rv = r.rvalue(ds[0][3]['rv']) if len(ds) == 1 and ds[0][2] == 'assign' else rv
    rep.ob('C09-D2.return', fn, rv == ('loc', lenl), 'write_ncr does not return the NCR length', site, None, c)


def run(rep, facts, tier):
    for c, f in facts.items():
        for w in WRAPPERS:
            wrapper(rep, f, c, *w)
        write_ncr(rep, f, c)
    return ('other', MANIFEST['text'], [])
