"""C09 — replacement modes equal the documented manual error-recovery procedure."""
import os
from mirlib import *
from paths import *
from shape import *
from ranges import *

MANIFEST = {
    'category': 'other',
    'text': 'The four with-replacement wrappers (Decoder::decode_to_utf8/utf16, Encoder::encode_from_utf8/utf16) are decided against the '
            'documented manual procedure by a ghost-state run over every path from the entry to the loop head and through the loop, summarised '
            'symbolically from MIR (all inputs and call histories at once): ghosts R (read so far), W (written so far), F (something was '
            'replaced), K (inner result not yet acted upon) and, for the encoders, E (effective destination length: dst.len() when everything '
            'is encodable, dst.len() - NCR_EXTRA behind its guard otherwise, and no conversion at all below NCR_EXTRA). Every inner call must be '
            '(self, &src[R..], &mut dst[W..(E)], last); InputEmpty/OutputFull are returned with (R, W, F); a Malformed result is followed by '
            'exactly EF BF BD (resp. FFFD) stored at dst[W..] and an Unmappable one by write_ncr(c, &mut dst[W..]), W advancing by exactly what was '
            'stored and F becoming true exactly there; after an NCR the wrapper returns only when W >= E, with InputEmpty exactly when the input '
            'is exhausted and not (last and pending state) for every completion of the facts the path fixes. At the loop head the ghosts must be '
            'held by locals (inductive invariant local = ghost; candidates are the locals holding the ghost value on entry), which makes the '
            'check independent of whether the inner call sits at the top of the loop, at its bottom or once before it. write_ncr\'s length table is '
            'extracted exactly (interval propagation over all scalar values) and equals digits+3 with the &# ; frame; its digit loop is decided by '
            'verification conditions over its acyclic paths. The inner converters\' own semantics (C01-C04) are not decided here. Also run here: R-STATE pairing incl. has_pending_state(), which the wrappers\' end-of-stream reservation consults.',
    'note': 'Trusted: rustc MIR, mirx, rule library, slice indexing semantics.',
    'technique': 'ghost-state procedure check over bounded path enumeration with symbolic summaries (rustc MIR) and an inferred loop-head invariant + exact interval extraction (write_ncr)',
}
CONFIGS = {'quick': ['default'], 'thorough': ['default', 'noalloc', 'simd']}

WRAPPERS = [
    # fn, inner, error variant, enum of inner result, replacement units, is_encoder
    ('Decoder::decode_to_utf8', 'Decoder::decode_to_utf8_without_replacement', 'Malformed', [0xEF, 0xBF, 0xBD], False),
    ('Decoder::decode_to_utf16', 'Decoder::decode_to_utf16_without_replacement', 'Malformed', [0xFFFD], False),
    ('Encoder::encode_from_utf8', 'Encoder::encode_from_utf8_without_replacement', 'Unmappable', None, True),
    ('Encoder::encode_from_utf16', 'Encoder::encode_from_utf16_without_replacement', 'Unmappable', None, True),
]


def named(b, name):
    ls = [i for i, l in enumerate(b.locals) if l.get('name') == name]
    return ls[0] if len(ls) == 1 else None


def unchecked_sub(v):
    """(a.checked_sub(b) as Some).0  ->  a - b"""
    if v is not None and v[0] == 'fld' and v[2] == '0' and v[1][0] == 'as' and v[1][2] == 'Some' and v[1][1][0] == 'call' and \
            (v[1][1][1] or '').startswith('core::num::') and (v[1][1][1] or '').endswith('::checked_sub') and len(v[1][1][2]) == 2:
        return ('bin', 'Sub', v[1][1][2][0], v[1][1][2][1])
    return v


def fits(p, a, k):
    """does path p establish a >= k (truth True) / a < k (truth False)?  `a < k` tested either way round, or a.checked_sub(k) matched"""
    out = []
    for e in p.conds():
        ce, t = e[1], e[2]
        if ce[0] == 'bin' and ce[1] in ('Lt', 'Le', 'Gt', 'Ge') and isinstance(t, bool):
            op, x, y = ce[1], ce[2], ce[3]
            if op in ('Gt', 'Ge'):
                op, x, y = {'Gt': 'Lt', 'Ge': 'Le'}[op], y, x
            if op == 'Lt' and x == a and y == k:            # a < k
                out.append(not t)
            elif op == 'Le' and x == k and y == a:          # k <= a
                out.append(t)
        elif ce[0] == 'variant' and ce[1][0] == 'call' and (ce[1][1] or '').endswith('::checked_sub') and len(ce[1][2]) == 2 and ce[1][2][0] == a and ce[1][2][1] == k:
            out.append(t == 'Some')
    return out


def decides_input_empty(p, exhausted_atoms, LAST, variant):
    """On path p the result kind is `variant`.  Documented: InputEmpty exactly when the input is exhausted and not (last and the
    encoder has pending state), OutputFull otherwise.  The path's conditions fix some of the three facts; the kind must be right
    for every way of completing them (so any arrangement of the tests — De Morgan, nested, reordered — is accepted)."""
    import itertools
    known = {}
    for e in p.conds():
        ce, t = e[1], e[2]
        if not isinstance(t, bool):
            continue
        neg = False
        while ce[0] == 'un' and ce[1] == 'Not':
            ce, neg = ce[2], not neg
        tv = t != neg
        for form, pol in exhausted_atoms:
            if ce == form:
                known['x'] = tv == pol
        if ce == LAST:
            known['l'] = tv
        if is_call(ce, 'Encoder::has_pending_state'):
            known['p'] = tv
    for x, l, pnd in itertools.product((False, True), repeat=3):
        if any(known.get(k_) is not None and known[k_] != v_ for k_, v_ in (('x', x), ('l', l), ('p', pnd))):
            continue
        want = 'InputEmpty' if (x and not (l and pnd)) else 'OutputFull'
        if want != variant:
            return False
    return True


def _nf(e):
    try:
        return add_terms(e)
    except Exception:
        return None


def _bare(e):
    e = strip_ref(e)
    while e[0] in ('deref', 'ref'):
        e = strip_ref(e[1])
    return e


def _slice_from(e, data):
    """e = &data[lo..] (or data itself: lo = 0) -> lo; None for anything else"""
    e = _bare(e)
    if e == data:
        return C(0)
    ix = index_from(e)
    if ix is not None and len(ix) == 2 and _bare(ix[0]) == data:
        return ix[1]
    return None


def dec_wrapper(rep, f, c, fn, inner, errvar, repl):
    """The decoder wrappers, decided against the documented procedure by ghost state instead of by a fixed loop shape.
    Ghosts: R (input consumed so far), W (output produced so far), F (a malformed sequence was replaced), K (the result of the
    latest inner call, not yet acted upon; None when there is none).  The procedure is
        inner(self, &src[R..], &mut dst[W..], last) -> (k, r, w);  R += r;  W += w;  K = k
        K = InputEmpty/OutputFull: return (K, R, W, F)
        K = Malformed: dst[W..W+n] = replacement;  W += n;  F = true;  K = none;  call again
    Every path from the entry to the loop head and every path through the loop (to the back edge or a return) is run through
    this machine: each inner call, each store and each return must be the next step of the procedure.  At the loop head the
    ghosts must be held by program locals (an inductive invariant `local = ghost`, found by trying the locals that hold the
    ghost's value on entry): this is what makes the check independent of whether the call sits at the top of the loop, at its
    bottom, or once before it."""
    b = f.body(fn)
    if b is None:
        rep.undecidable('C09-D1', fn, 'function not found', None, c)
        return
    site = sp_str(b.raw['span'])
    heads = loop_heads(b)
    if len(heads) != 1:
        rep.undecidable('C09-D1', fn, 'expected exactly one loop, found %d' % len(heads), site, c)
        return
    H = heads[0]
    SRC, DST, LAST = ('loc', 2), ('loc', 3), ('loc', 4)
    adt = f.adts.get('DecoderResult')
    if adt is None:
        rep.undecidable('C09-D1', fn, 'DecoderResult not found', site, c)
        return
    ALLK = frozenset(v['name'] for v in adt['variants'])
    n = len(repl)
    TRUE, FALSE = ('c', 1, 'bool'), ('c', 0, 'bool')

    def const_variant(e):
        e = _bare(e)
        if e[0] == 'agg':
            return variant_name(e)
        if e[0] == 'cptr' and e[2] == 0 and all(fl['ty'] in ('u8', 'u16', 'u32', 'u64', 'usize') for v in adt['variants'] for fl in v['fields']):
            # the tag of an enum whose payloads have no niche is its first byte
            import json as _json
            tgt = _json.loads(e[1])
            if 'mem' in tgt and str(tgt['mem']) in f.mems:
                mb = f.mem_bytes(tgt['mem'])
                ks = [v['name'] for v in adt['variants'] if mb and v['discr'] == mb[0]]
                return ks[0] if len(ks) == 1 else None
        return None

    def machine(p, g):
        """run the procedure along path p from ghost state g; returns (ghost state at the end, failures, facts)"""
        R, W, F, K = g['R'], g['W'], g['F'], g['K']
        poss = set(ALLK)
        S = 0
        fails = []
        facts = {'calls': 0, 'folds': 0, 'returns': set()}

        def at(e):
            return sp_str(b.blocks[e[-1] if isinstance(e[-1], int) else p.blocks[-1]]['tsp']) if e is not None else sp_str(b.blocks[p.blocks[-1]]['tsp'])

        def fold():
            nonlocal W, F, K, S
            if K is not None and poss == {errvar} and S == n:
                W = ('bin', 'Add', W, C(n))
                F = TRUE
                K = None
                S = 0
                facts['folds'] += 1
                return True
            return False

        for e in p.events:
            if e[0] == 'cond':
                ce = e[1]
                if K is None:
                    continue
                if ce[0] == 'variant' and _bare(ce[1]) == _bare(K):
                    names = e[2] if isinstance(e[2], tuple) else (e[2],)
                    if None in names or 'None' in names:
                        listed = {variant_of_edge(b, e[3], l_) for l_, _ in switch_edges(b, e[3])} - {None}
                        poss -= {str(x) for x in listed}
                    else:
                        poss &= {str(x) for x in names}
                elif ce[0] == 'call' and (ce[1] or '').endswith(('PartialEq>::eq', 'PartialEq>::ne')) and len(ce[2]) == 2 and isinstance(e[2], bool):
                    a0, a1 = ce[2]
                    k_ = None
                    if _bare(a0) == _bare(K):
                        k_ = const_variant(a1)
                    elif _bare(a1) == _bare(K):
                        k_ = const_variant(a0)
                    if k_ is not None and not next((v for v in adt['variants'] if v['name'] == k_))['fields']:
                        is_k = ce[1].endswith('::eq') == e[2]
                        if is_k:
                            poss &= {k_}
                        else:
                            poss -= {k_}
            elif e[0] == 'call' and e[1] == inner:
                if K is not None and not fold():
                    fails.append(('one-inner-call', 'a second call of %s is made although the previous result is not a handled %s '
                                  '(possible results here: %s; %d of %d replacement units stored)' % (inner, errvar, sorted(poss), S, n), at(e)))
                args = e[2]
                lo_s, lo_d = _slice_from(args[1], SRC), _slice_from(args[2], DST)
                ok = _bare(args[0]) == ('loc', 1) and lo_s is not None and _nf(lo_s) == _nf(R) and lo_d is not None and _nf(lo_d) == _nf(W) and args[3] == LAST
                if not ok:
                    fails.append(('inner-args', 'the inner call is not (self, &src[total_read..], &mut dst[total_written..], last) with the totals of '
                                  'everything read and written so far: src %s dst %s' % (expr_str(args[1], b)[:120], expr_str(args[2], b)[:160]), at(e)))
                res = ('call', inner, args, e[3])
                R = ('bin', 'Add', R, tuple_field(res, 1))
                W = ('bin', 'Add', W, tuple_field(res, 2))
                K = tuple_field(res, 0)
                poss = set(ALLK)
                S = 0
                facts['calls'] += 1
            elif e[0] == 'store':
                place, val = e[1], e[2]
                pidx = place[2] if place[0] == 'idx' and _bare(place[1]) == DST else None
                if pidx is None:
                    fails.append(('replacement-units', 'a store to something other than dst: %s' % expr_str(place, b)[:80], at(e)))
                    continue
                if K is None or poss != {errvar}:
                    fails.append(('replacement-units', 'dst is written although the latest inner result is not known to be %s (possible: %s)'
                                  % (errvar, 'none pending' if K is None else sorted(poss)), at(e)))
                    continue
                if S >= n or _nf(pidx) != _nf(('bin', 'Add', W, C(S))) or not is_c(val, repl[S]):
                    fails.append(('replacement-units', 'replacement unit %d must be %X stored at dst[total_written + %d]; found %s = %s'
                                  % (S, repl[min(S, n - 1)], S, expr_str(place, b)[:80], expr_str(val, b)[:40]), at(e)))
                S += 1
        end = p.end
        if end[0] == 'return':
            rv = p.env.get(0)
            v = variant_name(rv[2][0]) if rv is not None and rv[0] == 'agg' and len(rv[2]) == 4 else None
            if K is None or S != 0 or v not in ('InputEmpty', 'OutputFull') or poss != {v}:
                fails.append(('passthrough', 'returns %s where the latest inner result can be %s%s' % (v, 'none' if K is None else sorted(poss),
                              '' if S == 0 else ' and replacement units were stored'), at(None)))
            elif not (_nf(rv[2][1]) == _nf(R) and _nf(rv[2][2]) == _nf(W) and rv[2][3] == F):
                fails.append(('passthrough-' + v, 'the %s return is not (CoderResult::%s, everything read, everything written, whether anything was replaced): '
                              'found (%s, %s, %s)' % (v, v, expr_str(rv[2][1], b)[:80], expr_str(rv[2][2], b)[:80], expr_str(rv[2][3], b)[:40]), at(None)))
            else:
                facts['returns'].add(v)
        else:
            fold()
            if S != 0:
                fails.append(('replacement-units', '%d of %d replacement units stored when the iteration ends' % (S, n), at(None)))
        return {'R': R, 'W': W, 'F': F, 'K': K}, fails, facts

    try:
        pre = [summarize(b, blks, end) for blks, end in enumerate_block_paths(b, 0, stop=[H])]
        loop = region_paths(b, H)
    except OverflowError as e:
        rep.undecidable('C09-D1', fn, str(e), site, c)
        return
    pre = [p for p in pre if p.end[0] != 'diverge']
    loop = [p for p in loop if p.end[0] != 'diverge']
    rep.count('paths:' + fn, len(loop) + len(pre))
    g0 = {'R': C(0), 'W': C(0), 'F': FALSE, 'K': None}
    fails0, facts_all, ends = [], [], []
    for p in pre:
        g, fl, fa = machine(p, g0)
        fails0 += fl
        facts_all.append(fa)
        if p.end[0] != 'return':
            ends.append((p, g))

    def ob(name, ok, msg, at=None, ex=None):
        return rep.ob('C09-D1.' + name, fn, ok, msg, at or site, ex, c)

    if not ends:
        ob('init', False, 'no path from the entry reaches the loop')
        return
    in_loop = b.reach_from([H])
    carried = [i for i, l in enumerate(b.locals) if i > b.arg_count and any(d[0] in in_loop for d in b.defs.get(i, []))
               and all(i in p.env for p, _ in ends)]
    cand = {}
    for X in ('R', 'W'):
        cand[X] = [l for l in carried if b.locals[l]['ty'] == 'usize' and all(_nf(p.env[l]) == _nf(g[X]) for p, g in ends)]
    cand['F'] = [l for l in carried if b.locals[l]['ty'] == 'bool' and all(p.env[l] == g['F'] for p, g in ends)]
    live_k = {g['K'] is not None for _, g in ends}
    if live_k == {False}:
        cand['K'] = [None]
    elif live_k == {True}:
        cand['K'] = [l for l in carried if all(_bare(p.env[l]) == _bare(g['K']) for p, g in ends)]
    else:
        cand['K'] = []
    for d in fails0:
        ob(d[0], False, d[1], d[2])
    ob('init', all(cand[X] for X in cand), 'at the loop head no local holds ' + ', '.join(
        {'R': 'the total read so far', 'W': 'the total written so far', 'F': 'the error flag', 'K': 'the pending inner result'}[X] for X in cand if not cand[X])
        + ' (total_read/total_written/flag must be 0/0/false before the first inner call)', None, {X: [b.locals[l].get('name') if l is not None else None for l in cand[X]] for X in cand})
    if not all(cand[X] for X in cand):
        return
    import itertools
    best = None
    for lR, lW, lF, lK in itertools.product(cand['R'], cand['W'], cand['F'], cand['K']):
        if lR == lW:
            continue
        gh = {'R': ('init', lR), 'W': ('init', lW), 'F': ('init', lF), 'K': ('init', lK) if lK is not None else None}
        fails, fas = [], []
        for p in loop:
            g, fl, fa = machine(p, gh)
            fails += fl
            fas.append(fa)
            if p.end[0] == 'return':
                continue
            tsp = sp_str(b.blocks[p.blocks[-1]]['tsp'])
            bad = []
            if _nf(p.env.get(lR, ('init', lR))) != _nf(g['R']):
                bad.append('total read (%s)' % b.locals[lR].get('name'))
            if _nf(p.env.get(lW, ('init', lW))) != _nf(g['W']):
                bad.append('total written (%s)' % b.locals[lW].get('name'))
            if p.env.get(lF, ('init', lF)) != g['F']:
                bad.append('error flag (%s)' % b.locals[lF].get('name'))
            if (lK is None) != (g['K'] is None) or (lK is not None and _bare(p.env.get(lK, ('init', lK))) != _bare(g['K'])):
                bad.append('pending result')
            if bad:
                fails.append(('accumulate', 'after this iteration the %s no longer hold%s what the procedure requires (totals accumulate the inner counts '
                              'and the replacement units; the flag becomes true exactly when a malformed sequence is replaced)'
                              % (', '.join(bad), 's' if len(bad) == 1 else ''), tsp))
        if best is None or len(fails) < len(best[0]):
            best = (fails, fas, (lR, lW, lF, lK))
        if not fails:
            break
    fails, fas, mp = best if best is not None else ([('init', 'no consistent assignment of locals to the totals', site)], [], None)
    seen = set()
    for d in fails:
        if d not in seen:
            seen.add(d)
            ob(d[0], False, d[1], d[2])
    allf = facts_all + fas
    rets = set().union(*[fa['returns'] for fa in allf]) if allf else set()
    ob('arms', not fails and not fails0 and rets == {'InputEmpty', 'OutputFull'} and sum(fa['folds'] for fa in allf) >= 1 and sum(fa['calls'] for fa in allf) >= 1,
       'not every result kind is handled: returns %s, replacement arms %d' % (sorted(rets), sum(fa['folds'] for fa in allf)), None,
       {'returns': sorted(rets), 'invariant': {k: (b.locals[l].get('name') if l is not None else None) for k, l in zip('RWFK', mp)} if mp else None})
    # positive obligations for the evidence: one per path that went through the machine without a failure
    if not fails and not fails0:
        for i, p in enumerate(pre + loop):
            ob('path', True, 'path %d follows the procedure' % i, sp_str(b.blocks[p.blocks[-1]]['tsp']))



def enc_wrapper(rep, f, c, fn, inner):
    """The encoder wrappers, decided like the decoder wrappers by a ghost-state run of the documented procedure:
        eff = dst.len() if can_encode_everything() else dst.len() - NCR_EXTRA   (dst.len() < NCR_EXTRA: no conversion at all)
        inner(self, &src[R..], &mut dst[W..eff], last) -> (k, r, w);  R += r;  W += w;  K = k
        K = InputEmpty/OutputFull: return (K, R, W, F)
        K = Unmappable(c): n = write_ncr(c, &mut dst[W..]);  W += n;  F = true;
                           W >= eff: return (InputEmpty iff R == src.len() and not (last and pending state) else OutputFull, R, W, true)
                           else call again
    Ghosts R, W, F, K as for the decoders plus E (the effective length); at the loop head they must be held by locals."""
    b = f.body(fn)
    if b is None:
        rep.undecidable('C09-D1', fn, 'function not found', None, c)
        return
    site = sp_str(b.raw['span'])
    heads = loop_heads(b)
    if len(heads) != 1:
        rep.undecidable('C09-D1', fn, 'expected exactly one loop, found %d' % len(heads), site, c)
        return
    H = heads[0]
    SRC, DST, LAST = ('loc', 2), ('loc', 3), ('loc', 4)
    adt = f.adts.get('EncoderResult')
    ncr = f.consts.get('NCR_EXTRA', {}).get('int')
    if adt is None or ncr is None:
        rep.undecidable('C09-D1', fn, 'EncoderResult / NCR_EXTRA not found', site, c)
        return
    ALLK = frozenset(v['name'] for v in adt['variants'])
    TRUE, FALSE = ('c', 1, 'bool'), ('c', 0, 'bool')
    LEN_D = ('len', DST)

    def ob(name, ok, msg, at=None, ex=None):
        return rep.ob('C09-D1.' + name, fn, ok, msg, at or site, ex, c)

    def slice3(e):
        """&mut dst[lo..hi] -> (lo, hi); &mut dst[lo..] -> (lo, None)"""
        e0 = _bare(e)
        ix = index_from(e0)
        if ix is not None and _bare(ix[0]) == DST:
            return (ix[1], ix[2] if len(ix) == 3 else None)
        # dst[..hi][lo..] and the like
        if ix is not None:
            inner_ = slice3(ix[0])
            if inner_ is not None and inner_[0] == C(0) and len(ix) == 2:
                return (ix[1], inner_[1])
        return None

    def eff_ok(p, E):
        """E is the effective length the path's own conditions justify: dst.len() when everything is encodable, dst.len() - NCR_EXTRA otherwise"""
        cee = [e for e in p.conds() if is_call(e[1], 'Encoding::can_encode_everything') or (e[1][0] == 'call' and (e[1][1] or '').endswith('can_encode_everything'))]
        if len(cee) != 1 or not isinstance(cee[0][2], bool):
            return None
        if cee[0][2] is True:
            return 'all' if E == LEN_D else False
        g = fits(p, LEN_D, C(ncr))
        return 'ncr' if unchecked_sub(E) == ('bin', 'Sub', LEN_D, C(ncr)) and bool(g) and all(g) else False

    def machine(p, g, entry):
        R, W, F, K, E = g['R'], g['W'], g['F'], g['K'], g['E']
        poss = set(ALLK)
        fails = []
        facts = {'calls': 0, 'ncr': 0, 'returns': set(), 'eff': set(), 'early': 0}
        after_ncr = False

        def at(e=None):
            bi = e[3] if e is not None and len(e) > 3 and isinstance(e[3], int) else p.blocks[-1]
            return sp_str(b.blocks[bi]['tsp'])

        def full_known():
            """truth of W >= E established on this path (None: not tested)"""
            out = []
            for e in p.conds():
                ce = e[1]
                if ce[0] == 'bin' and ce[1] in ('Ge', 'Lt', 'Le', 'Gt') and isinstance(e[2], bool):
                    op_, x_, y_ = ce[1], ce[2], ce[3]
                    if op_ in ('Le', 'Gt'):
                        op_, x_, y_ = {'Le': 'Ge', 'Gt': 'Lt'}[op_], y_, x_
                    if _nf(x_) is not None and _nf(x_) == _nf(W) and E is not None and y_ == E:
                        out.append((e[2] is True) if op_ == 'Ge' else (e[2] is False))
            return out[0] if len(out) == 1 else None
        for e in p.events:
            if e[0] == 'cond':
                ce = e[1]
                if K is None:
                    continue
                if ce[0] == 'variant' and _bare(ce[1]) == _bare(K):
                    names = e[2] if isinstance(e[2], tuple) else (e[2],)
                    if None in names or 'None' in names:
                        listed = {variant_of_edge(b, e[3], l_) for l_, _ in switch_edges(b, e[3])} - {None}
                        poss -= {str(x) for x in listed}
                    else:
                        poss &= {str(x) for x in names}
            elif e[0] == 'call' and e[1] == inner:
                if K is not None:
                    fails.append(('one-inner-call', 'a second call of %s is made although the previous result has not been handled' % inner, at(e)))
                if after_ncr and full_known() is not False:
                    fails.append(('ncr-arm', 'the conversion is resumed after an NCR without having established total_written < effective_dst_len', at(e)))
                after_ncr = False
                args = e[2]
                lo_s = _slice_from(args[1], SRC)
                d3 = slice3(args[2])
                if E is None and d3 is not None and d3[1] is not None and entry:
                    E = d3[1]
                    k_ = eff_ok(p, E)
                    if not k_:
                        fails.append(('effective-len', 'effective_dst_len is not dst.len() (can_encode_everything) / dst.len() - NCR_EXTRA (otherwise, guarded by '
                                      'dst.len() >= NCR_EXTRA): %s' % expr_str(E, b)[:80], at(e)))
                    else:
                        facts['eff'].add(k_)
                ok = _bare(args[0]) == ('loc', 1) and lo_s is not None and _nf(lo_s) == _nf(R) and d3 is not None and _nf(d3[0]) == _nf(W) and \
                    d3[1] is not None and d3[1] == E and args[3] == LAST
                if not ok:
                    fails.append(('inner-args', 'the inner call is not (self, &src[total_read..], &mut dst[total_written..effective_dst_len], last): src %s dst %s'
                                  % (expr_str(args[1], b)[:100], expr_str(args[2], b)[:140]), at(e)))
                res = ('call', inner, args, e[3])
                R = ('bin', 'Add', R, tuple_field(res, 1))
                W = ('bin', 'Add', W, tuple_field(res, 2))
                K = tuple_field(res, 0)
                poss = set(ALLK)
                facts['calls'] += 1
            elif e[0] == 'call' and e[1] == 'write_ncr':
                a = e[2]
                d2 = slice3(a[1])
                good = K is not None and poss == {'Unmappable'} and a[0] == ('fld', ('as', K, 'Unmappable'), '0') and d2 is not None and d2[1] is None and _nf(d2[0]) == _nf(W)
                if not good:
                    fails.append(('ncr-arm', 'write_ncr is not called with the character the inner call reported unmappable and &mut dst[total_written..] '
                                  '(possible inner results here: %s)' % ('none pending' if K is None else sorted(poss)), at(e)))
                W = ('bin', 'Add', W, ('call', 'write_ncr', a, e[3]))
                F = TRUE
                K = None
                after_ncr = True
                facts['ncr'] += 1
            elif e[0] == 'store':
                fails.append(('ncr-arm', 'a store outside write_ncr and the inner call: %s' % expr_str(e[1], b)[:80], at(e)))
        end = p.end
        if end[0] == 'return':
            rv = p.env.get(0)
            v = variant_name(rv[2][0]) if rv is not None and rv[0] == 'agg' and len(rv[2]) == 4 else None
            if v not in ('InputEmpty', 'OutputFull'):
                fails.append(('passthrough', 'returns something other than (CoderResult::InputEmpty/OutputFull, read, written, had_unmappables)', at()))
            elif facts['calls'] == 0 and entry and K is None and not after_ncr:
                # no conversion at all: only when dst.len() < NCR_EXTRA and not everything is encodable
                g_ = fits(p, LEN_D, C(ncr))
                good = rv[2][1:] == (C(0), C(0), FALSE) and bool(g_) and not any(g_) and \
                    decides_input_empty(p, [(('is_empty', SRC), True), (('bin', 'Eq', ('len', SRC), C(0)), True), (('bin', 'Ne', ('len', SRC), C(0)), False)], LAST, v)
                if not good:
                    fails.append(('early-exit', 'an exit without conversion must be (_, 0, 0, false) behind dst.len() < NCR_EXTRA, InputEmpty only for empty input without pending state', at()))
                else:
                    facts['early'] += 1
            elif after_ncr:
                Rn = R
                good = full_known() is True and _nf(rv[2][1]) == _nf(R) and _nf(rv[2][2]) == _nf(W) and rv[2][3] == TRUE and \
                    decides_input_empty(p, [(('bin', 'Eq', x_, y_), True) for x_, y_ in ((Rn, ('len', SRC)), (('len', SRC), Rn))] +
                                        [(('bin', 'Ne', x_, y_), False) for x_, y_ in ((Rn, ('len', SRC)), (('len', SRC), Rn))] +
                                        [(ce_[1], pol_) for ce_ in p.conds() for pol_ in ()], LAST, v)
                # the exhaustion test may be written on the accumulated local or on its value: compare in normal form
                if not good and full_known() is True and _nf(rv[2][1]) == _nf(R) and _nf(rv[2][2]) == _nf(W) and rv[2][3] == TRUE:
                    atoms = []
                    for e_ in p.conds():
                        ce_ = e_[1]
                        while ce_[0] == 'un' and ce_[1] == 'Not':
                            ce_ = ce_[2]
                        if ce_[0] == 'bin' and ce_[1] in ('Eq', 'Ne'):
                            for x_, y_ in ((ce_[2], ce_[3]), (ce_[3], ce_[2])):
                                if y_ == ('len', SRC) and _nf(x_) is not None and _nf(x_) == _nf(R):
                                    atoms.append((ce_, ce_[1] == 'Eq'))
                    good = bool(atoms) and decides_input_empty(p, atoms, LAST, v) or (not atoms and decides_input_empty(p, [], LAST, v))
                if not good:
                    fails.append(('ncr-arm', 'after an NCR the wrapper may return only when total_written >= effective_dst_len, with (InputEmpty iff the input is exhausted and '
                                  'not (last and pending state), total_read, total_written, true)', at()))
                else:
                    facts['returns'].add('ncr-' + v)
            else:
                if K is None or poss != {v}:
                    fails.append(('passthrough', 'returns %s where the latest inner result can be %s' % (v, 'none' if K is None else sorted(poss)), at()))
                elif not (_nf(rv[2][1]) == _nf(R) and _nf(rv[2][2]) == _nf(W) and rv[2][3] == F):
                    fails.append(('passthrough-' + v, 'the %s return is not (CoderResult::%s, everything read, everything written, whether anything was replaced)' % (v, v), at()))
                else:
                    facts['returns'].add(v)
        else:
            if after_ncr and full_known() is not False:
                fails.append(('ncr-arm', 'the loop continues after an NCR without having established total_written < effective_dst_len', at()))
        return {'R': R, 'W': W, 'F': F, 'K': K, 'E': E}, fails, facts

    try:
        pre = [summarize(b, blks, end) for blks, end in enumerate_block_paths(b, 0, stop=[H])]
        loop = region_paths(b, H)
    except OverflowError as e:
        rep.undecidable('C09-D1', fn, str(e), site, c)
        return
    pre = [p for p in pre if p.end[0] != 'diverge']
    loop = [p for p in loop if p.end[0] != 'diverge']
    rep.count('paths:' + fn, len(loop) + len(pre))
    fails0, facts_all, ends = [], [], []
    for p in pre:
        g, fl, fa = machine(p, {'R': C(0), 'W': C(0), 'F': FALSE, 'K': None, 'E': None}, True)
        fails0 += fl
        facts_all.append(fa)
        if p.end[0] != 'return':
            ends.append((p, g))
    if not ends:
        ob('init', False, 'no path from the entry reaches the loop')
        return
    in_loop = b.reach_from([H])
    carried = [i for i, l in enumerate(b.locals) if i > b.arg_count and any(d[0] in in_loop for d in b.defs.get(i, [])) and all(i in p.env for p, _ in ends)]
    cand = {}
    for X in ('R', 'W'):
        cand[X] = [l for l in carried if b.locals[l]['ty'] == 'usize' and all(_nf(p.env[l]) == _nf(g[X]) for p, g in ends)]
    cand['F'] = [l for l in carried if b.locals[l]['ty'] == 'bool' and all(p.env[l] == g['F'] for p, g in ends)]
    live_k = {g['K'] is not None for _, g in ends}
    cand['K'] = [None] if live_k == {False} else ([l for l in carried if all(_bare(p.env[l]) == _bare(g['K']) for p, g in ends)] if live_k == {True} else [])
    # the effective length: a usize local, not assigned in the loop, that holds dst.len() / dst.len() - NCR_EXTRA as the entry path justifies
    # (when the first call is made before the loop its third index component has been checked there and must be the same local)
    cand['E'] = []
    for l, lc in enumerate(b.locals):
        if l <= b.arg_count or lc['ty'] != 'usize' or any(d[0] in in_loop for d in b.defs.get(l, [])) or not all(l in p.env for p, _ in ends):
            continue
        kinds = [eff_ok(p, p.env[l]) for p, _ in ends]
        if all(kinds) and all(g['E'] is None or g['E'] == p.env[l] for p, g in ends):
            cand['E'].append((l, frozenset(kinds)))
    for d in fails0:
        ob(d[0], False, d[1], d[2])
    names = {'R': 'the total read so far', 'W': 'the total written so far', 'F': 'the unmappable flag', 'K': 'the pending inner result', 'E': 'the effective destination length'}
    ob('init', all(cand[X] for X in cand), 'at the loop head no local holds ' + ', '.join(names[X] for X in cand if not cand[X]) +
       ' (totals and flag must be 0/0/false before the first inner call; effective_dst_len = dst.len() or dst.len() - NCR_EXTRA behind its guard)', None,
       {X: [(b.locals[l[0] if isinstance(l, tuple) else l].get('name') if l is not None else None) for l in cand[X]] for X in cand})
    if not all(cand[X] for X in cand):
        return
    import itertools
    best = None
    for lR, lW, lF, lK, (lE, ekinds) in itertools.product(cand['R'], cand['W'], cand['F'], cand['K'], cand['E']):
        if len({lR, lW, lE}) < 3:
            continue
        gh = {'R': ('init', lR), 'W': ('init', lW), 'F': ('init', lF), 'K': ('init', lK) if lK is not None else None, 'E': ('init', lE)}
        fails, fas = [], []
        for p in loop:
            g, fl, fa = machine(p, gh, False)
            fails += fl
            fas.append(fa)
            if p.end[0] == 'return':
                continue
            tsp = sp_str(b.blocks[p.blocks[-1]]['tsp'])
            bad = []
            if _nf(p.env.get(lR, ('init', lR))) != _nf(g['R']):
                bad.append('total read')
            if _nf(p.env.get(lW, ('init', lW))) != _nf(g['W']):
                bad.append('total written')
            if p.env.get(lF, ('init', lF)) != g['F']:
                bad.append('unmappable flag')
            if (lK is None) != (g['K'] is None) or (lK is not None and _bare(p.env.get(lK, ('init', lK))) != _bare(g['K'])):
                bad.append('pending result')
            if bad:
                fails.append(('accumulate', 'after this iteration the %s no longer hold%s what the procedure requires (totals accumulate the inner counts and the NCR lengths; '
                              'the flag becomes true exactly when an NCR is written)' % (', '.join(bad), 's' if len(bad) == 1 else ''), tsp))
        if best is None or len(fails) < len(best[0]):
            best = (fails, fas, (lR, lW, lF, lK, lE), ekinds)
        if not fails:
            break
    fails, fas, mp, ekinds = best if best is not None else ([('init', 'no consistent assignment of locals to the totals', site)], [], None, frozenset())
    seen = set()
    for d in fails:
        if d not in seen:
            seen.add(d)
            ob(d[0], False, d[1], d[2])
    allf = facts_all + fas
    rets = set().union(*[fa['returns'] for fa in allf]) if allf else set()
    effk = set(ekinds) | set().union(*[fa['eff'] for fa in allf])
    ob('arms', not fails and not fails0 and {'InputEmpty', 'OutputFull'} <= rets and any(r_.startswith('ncr-') for r_ in rets) and sum(fa['ncr'] for fa in allf) >= 1,
       'not every result kind is handled: returns %s, NCR arms %d' % (sorted(rets), sum(fa['ncr'] for fa in allf)), None, {'returns': sorted(rets)})
    ob('effective-len', effk == {'all', 'ncr'}, 'both forms of the effective length (dst.len() when everything is encodable, dst.len() - NCR_EXTRA otherwise) must occur: %s' % sorted(effk),
       None, {'NCR_EXTRA': ncr})
    ob('early-exit', sum(fa['early'] for fa in allf) >= 2, 'the dst.len() < NCR_EXTRA exits (InputEmpty for empty input without pending state, OutputFull otherwise) were not both found')
    if not fails and not fails0:
        for i, p in enumerate(pre + loop):
            ob('path', True, 'path %d follows the procedure' % i, sp_str(b.blocks[p.blocks[-1]]['tsp']))



def wrapper(rep, f, c, fn, inner, errvar, repl, is_enc):
    if is_enc:
        return enc_wrapper(rep, f, c, fn, inner)
    return dec_wrapper(rep, f, c, fn, inner, errvar, repl)


def write_ncr(rep, f, c):
    fn = 'write_ncr'
    b = f.body(fn)
    if b is None:
        rep.undecidable('C09-D2', fn, 'function not found', None, c)
        return
    site = sp_str(b.raw['span'])
    r00 = Resolver(b)
    rv00 = r00.local(0)
    if rv00 == ('loc', 0):
        ds00 = b.defs.get(0, [])
        rv00 = r00.rvalue(ds00[0][3]['rv']) if len(ds00) == 1 and ds00[0][2] == 'assign' else rv00
    lenl = rv00[1] if rv00[0] == 'loc' else None          # the local that is returned
    CHAR = ISet.of((0, 0xD7FF), (0xE000, 0x10FFFF))
    heads = loop_heads(b)
    numl = None
    for i, l in enumerate(b.locals):
        if l['ty'] == 'u32' and len(b.defs.get(i, [])) >= 2 and any(d[2] == 'assign' and Resolver(b).rvalue(d[3]['rv']) == ('cast', 'IntToInt', ('loc', 1), 'u32') for d in b.defs.get(i, [])):
            numl = i
    if lenl is None or numl is None:
        rep.undecidable('C09-D2', fn, 'length / number locals not found', site, c)
        return
    # before the digit loop `number` is exactly `unmappable as u32` (its only other definition is inside the loop)
    r0 = Resolver(b)
    pre_defs = [r0.rvalue(n['rv']) for bi, si, k, n in b.defs.get(numl, []) if k == 'assign' and bi not in b.reach_from(heads)]
    if pre_defs != [('cast', 'IntToInt', ('loc', 1), 'u32')]:
        rep.undecidable('C09-D2', fn, 'number is not initialised as `unmappable as u32`', site, c)
        return
    ra = RangeAnalysis(f, b, {('cast', 'IntToInt', ('loc', 1), 'u32'), ('loc', 1), ('loc', numl)}, 32, CHAR, stop=heads)
    if ra.mixed:
        rep.undecidable('C09-D2', fn, 'length selection is not a pure comparison tree: %r' % ra.mixed[:1], site, c)
        return
    table = ra.set_where_local_const(lenl) if lenl is not None else {}
    want = {}
    for lo, hi in CHAR.iv:
        for d in range(1, 8):
            a, z = max(lo, 10 ** (d - 1) if d > 1 else 0), min(hi, 10 ** d - 1)
            if a <= z:
                want[d + 3] = want.get(d + 3, ISet()) | ISet.of((a, z))
    # the function is only ever given unmappable (hence non-ASCII, >= 128) characters; below 100 the table says 5
    ok = True
    detail = {}
    for L, s in table.items():
        detail[L] = repr(s)
    for L in sorted(want):
        if L < 5:
            continue
        got = table.get(L, ISet())
        exp = want[L]
        if L == 5:
            exp = want.get(5, ISet()) | want.get(4, ISet())   # 0..99 all take the shortest form; unreachable below 128
            ok &= (got & ISet.of((10, 0x10FFFF))) == (exp & ISet.of((10, 0x10FFFF)))
        else:
            ok &= got == exp
    rep.ob('C09-D2.length', fn, ok and bool(table), 'NCR length table is not digits+3: %r' % detail, site, {'table': detail}, c)
    # ---- frame and digits: verification conditions over the acyclic paths, whatever the loop is written as.
    # With n, p the values of `number` and `pos` at the loop head, the invariant  n = N div 10^k, p = len - 2 - k  (k digits stored)
    # is established by the prologue (n = N, p = len - 2, ';' stored at len - 1), kept by every iteration (one store of the digit of
    # n at p, then n / 10 and p - 1) and, on leaving with n < 10, one more store of the digit of n at p completes digits(N) digits
    # ending at len - 2; len = digits(N) + 3 (C09-D2.length) puts the first digit at index 2, next to dst[0] = '&' and dst[1] = '#'.
    if len(heads) != 1:
        rep.undecidable('C09-D2', fn, 'expected exactly one digit loop, found %d' % len(heads), site, c)
        return
    H = heads[0]
    posl = [i for i, l in enumerate(b.locals) if l['ty'] == 'usize' and i > b.arg_count and len(b.defs.get(i, [])) >= 2 and i != lenl
            and any(bi in natural_loop_blocks(b, H) for bi, _, _, _ in b.defs[i])]
    if len(posl) != 1:
        rep.undecidable('C09-D2', fn, 'write position local not found (%d candidates)' % len(posl), site, c)
        return
    posl = posl[0]
    n0, p0 = ('init', numl), ('init', posl)
    DST = ('deref', ('loc', 2))

    def dst_stores(p):
        return [(e[1][2], e[2], e[3]) for e in p.events if e[0] == 'store' and e[1][0] == 'idx' and e[1][1] == DST]

    def lin_of(e):
        try:
            t, k = add_terms(e)
        except Exception:
            return None
        return tuple(sorted(t, key=repr)), k

    def sub_terms(e):
        """linear form with Sub: ({term: coeff}, const)"""
        if e[0] == 'c' and isinstance(e[1], int):
            return {}, e[1]
        if e[0] == 'bin' and e[1] in ('Add', 'Sub'):
            a, ka = sub_terms(e[2])
            c_, kc = sub_terms(e[3])
            sg = 1 if e[1] == 'Add' else -1
            out = dict(a)
            for t_, v_ in c_.items():
                out[t_] = out.get(t_, 0) + sg * v_
                if out[t_] == 0:
                    del out[t_]
            return out, ka + sg * kc
        return {e: 1}, 0

    def is_digit(v, n, small):
        """v == (n % 10) as u8 + b'0'   (or n as u8 + b'0' where n < 10 is known)"""
        if v[0] == 'cast':
            v = ('bin', 'Add', cast_inner(v)[2], cast_inner(v)[3]) if cast_inner(v)[0] == 'bin' and cast_inner(v)[1] == 'Add' else v
        if not (v[0] == 'bin' and v[1] == 'Add'):
            return False
        a, c_ = (v[2], v[3]) if is_c(v[3], 0x30) else (v[3], v[2]) if is_c(v[2], 0x30) else (None, None)
        if a is None:
            return False
        a = cast_inner(a)
        if a[0] == 'bin' and a[1] == 'Rem' and cast_inner(a[2]) == n and is_c(a[3], 10):
            return True
        return small and a == n

    def known_small(p):
        for e in p.events:
            if e[0] != 'cond' or not isinstance(e[1], tuple) or e[1][0] != 'bin' or not isinstance(e[2], bool):
                continue
            op, x, y = e[1][1], cast_inner(e[1][2]), cast_inner(e[1][3])
            t_ = e[2]
            if x == n0 and y[0] == 'c':
                if (op, y[1], t_) in (('Lt', 10, True), ('Ge', 10, False), ('Le', 9, True), ('Gt', 9, False)):
                    return True
            if y == n0 and x[0] == 'c':
                if (op, x[1], t_) in (('Gt', 10, True), ('Le', 10, False), ('Ge', 9, True), ('Lt', 9, False)):
                    return True
        return False

    def shifted(e, k):
        t_, k0 = sub_terms(e)
        return t_, k0 + k

    def frame_kind(idx, val, lenp=('init', lenl)):
        il = sub_terms(idx)
        if is_c(val, 0x26) and il == ({}, 0):
            return '&'
        if is_c(val, 0x23) and il == ({}, 1):
            return '#'
        if is_c(val, 0x3B) and il in (shifted(lenp, -1), shifted(('init', lenl), -1), shifted(('loc', lenl), -1)):
            return ';'
        return None

    try:
        pro = [p for p in region_paths(b, 0, stop=[H]) if p.end[0] != 'diverge']
        inl = [p for p in region_paths(b, H, stop=[H]) if p.end[0] != 'diverge']
    except OverflowError:
        rep.undecidable('C09-D2', fn, 'path bound exceeded', site, c)
        return
    infeasible = lambda p: any(e[0] == 'cond' and isinstance(e[1], tuple) and e[1][0] == 'c' and isinstance(e[2], bool) and bool(e[1][1]) != e[2] for e in p.events)
    pro = [p for p in pro if not infeasible(p)]
    inl = [p for p in inl if not infeasible(p)]
    frames = {'pro': [], 'exit': []}
    ok_pro = bool(pro)
    why_pro = ''
    lenv = lambda e: e if e != ('init', lenl) else ('loc', lenl)
    for p in pro:
        if p.end[0] != 'stop':
            ok_pro, why_pro = False, 'a path returns before the digit loop'
            continue
        fr = []
        lenp = p.env.get(lenl, ('init', lenl))         # the length as it is on this path (a constant per arm of the selection)
        for idx, val, bb in dst_stores(p):
            k_ = frame_kind(idx, val, lenp)
            if k_ is None:
                ok_pro, why_pro = False, 'store %s = %s before the digits' % (expr_str(idx, b)[:40], expr_str(val, b)[:40])
            fr.append(k_)
        frames['pro'].append(tuple(sorted(x for x in fr if x)))
        pv, nv = p.env.get(posl), p.env.get(numl)
        if pv is None or sub_terms(pv) != shifted(lenp, -2):
            ok_pro, why_pro = False, 'the first digit position is %s, not len - 2' % (expr_str(pv, b)[:60] if pv else None)
        if nv is None or cast_inner(nv) != ('loc', 1):
            ok_pro, why_pro = False, 'the number is not the scalar value of the character when the digits start'
    ok_loop, why_loop = True, ''
    ok_exit, why_exit = True, ''
    nloop = nexit = 0
    for p in inl:
        st = dst_stores(p)
        digs = [(i_, v_) for i_, v_, _ in st if frame_kind(i_, v_) is None]
        fr = tuple(sorted(frame_kind(i_, v_) for i_, v_, _ in st if frame_kind(i_, v_)))
        small = known_small(p)
        if p.end[0] in ('back', 'stop'):
            nloop += 1
            pv, nv = p.env.get(posl, p0), p.env.get(numl, n0)
            if fr:
                ok_loop, why_loop = False, 'a frame byte is stored inside the digit loop'
            if len(digs) != 1 or digs[0][0] != p0 or not is_digit(digs[0][1], n0, small):
                ok_loop, why_loop = False, 'an iteration does not store exactly the digit (number %% 10) + b\'0\' at pos: %s' % [(expr_str(i_, b)[:30], expr_str(v_, b)[:60]) for i_, v_ in digs]
            if sub_terms(pv) != ({p0: 1}, -1):
                ok_loop, why_loop = False, 'an iteration moves pos by %s instead of - 1' % expr_str(pv, b)[:60]
            if not (nv[0] == 'bin' and nv[1] == 'Div' and nv[2] == n0 and is_c(nv[3], 10)):
                ok_loop, why_loop = False, 'an iteration continues with number = %s instead of number / 10' % expr_str(nv, b)[:60]
        elif p.end[0] == 'return':
            nexit += 1
            frames['exit'].append(fr)
            if len(digs) != 1 or digs[0][0] != p0 or not is_digit(digs[0][1], n0, small):
                ok_exit, why_exit = False, 'the most significant digit is not stored at pos as number + b\'0\' (number < 10): %s' % [(expr_str(i_, b)[:30], expr_str(v_, b)[:60]) for i_, v_ in digs]
            if not small:
                ok_exit, why_exit = False, 'the digit loop is left without number < 10 being established'
            rvp = p.env.get(0)
            if rvp is None or rvp not in (('loc', lenl), ('init', lenl)):
                ok_exit, why_exit = False, 'the value returned is not the NCR length'
    fp, fx = set(frames['pro']), set(frames['exit'])
    ok_frame = len(fp) == 1 and len(fx) == 1 and sorted(list(fp)[0] + list(fx)[0]) == sorted(['&', '#', ';'])
    rep.ob('C09-D2.frame', fn, ok_pro and ok_frame and nexit >= 1,
           why_pro or 'every call must store exactly dst[0]=&, dst[1]=#, dst[len-1]=; around the digits; found %s before and %s after the digit loop' % (sorted(fp), sorted(fx)),
           site, {'before_loop': [list(x) for x in fp], 'after_loop': [list(x) for x in fx], 'prologue_paths': len(pro)}, c)
    rep.ob('C09-D2.semicolon', fn, ok_pro, why_pro or '', site, None, c)
    rep.ob('C09-D2.digits', fn, ok_loop and ok_exit and nloop >= 1 and nexit >= 1, why_loop or why_exit or 'no digit loop paths', site,
           {'loop_paths': nloop, 'exit_paths': nexit}, c)
    rv = r00.local(0)
    if rv == ('loc', 0):
        ds = b.defs.get(0, [])
        rv = r00.rvalue(ds[0][3]['rv']) if len(ds) == 1 and ds[0][2] == 'assign' else rv
    rep.ob('C09-D2.return', fn, rv == ('loc', lenl), 'write_ncr does not return the NCR length', site, None, c)


def natural_loop_blocks(body, h):
    loop = {h}
    stack = [x for (x, hh) in body.back_edges() if hh == h]
    while stack:
        x = stack.pop()
        if x in loop:
            continue
        loop.add(x)
        stack.extend(body.pred[x])
    return loop


def run(rep, facts, tier):
    for c, f in facts.items():
        for w in WRAPPERS:
            wrapper(rep, f, c, *w)
        write_ncr(rep, f, c)
        import r_state
        r_state.pairing(rep, f, c, 'R-STATE')     # has_pending_state(), which the wrappers' end-of-stream reservation consults
    return ('other', MANIFEST['text'], [])
