"""Generic helpers over mirx fact files: loading, pretty-printing, CFG utilities,
operand resolution, dominators.  Python 3 standard library only."""
import json, sys
from collections import defaultdict, deque


class Facts:
    def __init__(self, path):
        with open(path) as f:
            d = json.load(f)
        self.raw = d
        import inline
        self.spliced = inline.normalise(d)        # helpers that are not in the confirmed inventory are analysed inside their callers
        self.bodies = {n: Body(n, b, self) for n, b in d['bodies'].items()}
        self.adts = d['adts']
        self.statics = d['statics']
        self.consts = d['consts']
        self.mems = d['mems']
        self.impls = d['impls']
        self.cfg = d['cfg']

    def body(self, name):
        return self.bodies.get(name)

    def static_bytes(self, name):
        a = self.statics[name]['alloc']
        return bytes.fromhex(a['bytes'])

    def mem_bytes(self, mid):
        return bytes.fromhex(self.mems[str(mid)]['bytes'])


def place_str(p, body=None):
    s = '_%d' % p['l']
    if body is not None:
        n = body.locals[p['l']].get('name')
        if n:
            s = '%s/*%s*/' % (s, n)
    for e in p['p']:
        if e == 'deref':
            s = '(*%s)' % s
        elif isinstance(e, dict):
            if 'field' in e:
                s += '.' + e['field']
            elif 'index' in e:
                s += '[_%d]' % e['index']
            elif 'const_index' in e:
                s += '[%s%d]' % ('-' if e.get('from_end') else '', e['const_index'])
            elif 'downcast' in e:
                s = '(%s as %s)' % (s, e['downcast'])
            elif 'subslice' in e:
                s += '[%d..%d]' % tuple(e['subslice'])
        else:
            s += '.<%s>' % e
    return s


def const_str(c):
    if 'fn' in c:
        return 'fn:%s' % c['fn']
    if 'int' in c:
        if c['ty'] == 'char':
            return "'U+%04X'" % c['int']
        if c['ty'] == 'bool':
            return 'true' if c['int'] else 'false'
        return '%d_%s' % (c.get('sint', c['int']), c['ty'])
    if 'str' in c:
        return json.dumps(c['str'])
    if 'ptr' in c:
        return '&%s+%d' % (json.dumps(c['ptr']), c.get('off', 0))
    if 'indirect' in c:
        return 'indirect(%s+%d)' % (json.dumps(c['indirect']), c.get('off', 0))
    if 'zst' in c:
        return '<%s>' % c['ty']
    if 'bytes' in c:
        return 'bytes:' + c['bytes']
    return 'other(%s)' % c.get('other')


def op_str(o, body=None):
    if 'copy' in o:
        return place_str(o['copy'], body)
    if 'move' in o:
        return 'move ' + place_str(o['move'], body)
    return const_str(o['const'])


def rv_str(rv, body=None):
    if 'use' in rv:
        return op_str(rv['use'], body)
    if 'bin' in rv:
        return '%s(%s, %s)' % (rv['bin'], op_str(rv['l'], body), op_str(rv['r'], body))
    if 'un' in rv:
        return '%s(%s)' % (rv['un'], op_str(rv['x'], body))
    if 'cast' in rv:
        return '%s as %s [%s]' % (op_str(rv['x'], body), rv['to'], rv['cast'])
    if 'ref' in rv:
        return '&%s %s' % (rv['ref'], place_str(rv['place'], body))
    if 'rawptr' in rv:
        return '&raw %s %s' % (rv['rawptr'], place_str(rv['place'], body))
    if 'discriminant' in rv:
        return 'discriminant(%s)' % place_str(rv['discriminant'], body)
    if 'aggregate' in rv:
        k = rv['aggregate']
        if isinstance(k, dict) and 'adt' in k:
            ks = '%s::%s' % (k['adt'], k['variant'])
        elif isinstance(k, dict):
            ks = json.dumps(k)
        else:
            ks = k
        return '%s{%s}' % (ks, ', '.join(op_str(o, body) for o in rv['ops']))
    if 'repeat' in rv:
        return '[%s; %s]' % (op_str(rv['repeat'], body), rv['n'])
    return 'other(%s)' % rv.get('other')


def sp_str(sp):
    if not sp or not sp.get('at'):
        return ''
    s = '%s:%d' % (sp['at'][0], sp['at'][1])
    if sp.get('cs'):
        s += ' <- %s:%d' % (sp['cs'][0], sp['cs'][1])
    return s


class Body:
    def __init__(self, name, raw, facts):
        self.name = name
        self.raw = raw
        self.facts = facts
        self.locals = raw['locals']
        self.blocks = raw['blocks']
        self.arg_count = raw['arg_count']
        self.kind = raw['kind']
        self._succ = None
        self._pred = None
        self._dom = None
        self._defs = None

    # ------------------------------------------------------------ printing
    def dump(self, out=sys.stdout):
        out.write('fn %s  [%s]  %s\n' % (self.name, self.kind, sp_str(self.raw['span'])))
        for i, l in enumerate(self.locals):
            out.write('  let _%d: %s%s\n' % (i, l['ty'], ('  // ' + l['name']) if l.get('name') else ''))
        for i, b in enumerate(self.blocks):
            out.write(' bb%d%s:\n' % (i, ' (cleanup)' if b['cleanup'] else ''))
            for s in b['s']:
                if 'assign' in s:
                    out.write('    %s = %s;   // %s\n' % (place_str(s['assign'], self), rv_str(s['rv'], self), sp_str(s['sp'])))
                elif 'set_discr' in s:
                    out.write('    discr(%s) = %s;\n' % (place_str(s['set_discr'], self), s['variant']))
                else:
                    out.write('    %s\n' % json.dumps(s)[:100])
            out.write('    %s   // %s\n' % (self.term_str(b['t']), sp_str(b['tsp'])))

    def term_str(self, t):
        if 'goto' in t:
            return 'goto bb%d' % t['goto']
        if 'switch' in t:
            names = t.get('variants')
            ts = []
            for v, b in t['targets']:
                lab = names.get(str(v), str(v)) if names else str(v)
                ts.append('%s->bb%d' % (lab, b))
            return 'switch(%s)[%s, else->bb%d]' % (op_str(t['switch'], self), ', '.join(ts), t['otherwise'])
        if 'call' in t:
            f = t['call']
            fn = f.get('fn') or ('indirect ' + json.dumps(f.get('indirect')))
            g = f.get('generic')
            return '%s = call %s%s(%s) -> %s' % (
                place_str(t['dest'], self), fn, ('<%s>' % ','.join(g)) if g else '',
                ', '.join(op_str(a, self) for a in t['args']),
                ('bb%d' % t['target']) if t['target'] is not None else '!')
        if 'assert' in t:
            return 'assert(%s == %s, %s) -> bb%d' % (op_str(t['assert'], self), t['expected'], t['msg'], t['target'])
        if 'return' in t:
            return 'return'
        if 'drop' in t:
            return 'drop(%s) -> bb%d' % (place_str(t['drop'], self), t['target'])
        if 'unreachable' in t:
            return 'unreachable'
        if 'resume' in t:
            return 'resume'
        return json.dumps(t)[:120]

    # ------------------------------------------------------------ CFG
    def succs(self, i, unwind=False):
        t = self.blocks[i]['t']
        out = []
        if 'goto' in t:
            out = [t['goto']]
        elif 'switch' in t:
            out = [b for _, b in t['targets']] + [t['otherwise']]
        elif 'call' in t:
            if t['target'] is not None:
                out = [t['target']]
            if unwind and isinstance(t.get('unwind'), int):
                out.append(t['unwind'])
        elif 'assert' in t:
            out = [t['target']]
            if unwind and isinstance(t.get('unwind'), int):
                out.append(t['unwind'])
        elif 'drop' in t:
            out = [t['target']]
            if unwind and isinstance(t.get('unwind'), int):
                out.append(t['unwind'])
        elif 'asm' in t:
            out = list(t['targets'])
        seen = []
        for b in out:
            if b not in seen:
                seen.append(b)
        return seen

    @property
    def succ(self):
        if self._succ is None:
            self._succ = [self.succs(i) for i in range(len(self.blocks))]
        return self._succ

    @property
    def pred(self):
        if self._pred is None:
            p = [[] for _ in self.blocks]
            for i, ss in enumerate(self.succ):
                for s in ss:
                    p[s].append(i)
            self._pred = p
        return self._pred

    def reachable(self, start=0):
        seen = {start}
        q = deque([start])
        while q:
            b = q.popleft()
            for s in self.succ[b]:
                if s not in seen:
                    seen.add(s)
                    q.append(s)
        return seen

    def reach_from(self, starts, stop=()):
        seen = set()
        q = deque(starts)
        while q:
            b = q.popleft()
            if b in seen or b in stop:
                continue
            seen.add(b)
            for s in self.succ[b]:
                q.append(s)
        return seen

    @property
    def dom(self):
        """dom[b] = set of blocks dominating b (normal edges only)."""
        if self._dom is None:
            n = len(self.blocks)
            reach = self.reachable()
            order = self.rpo()
            dom = {b: set(reach) for b in reach}
            dom[0] = {0}
            changed = True
            while changed:
                changed = False
                for b in order:
                    if b == 0:
                        continue
                    ps = [p for p in self.pred[b] if p in reach]
                    new = set(reach)
                    for p in ps:
                        new &= dom[p]
                    new.add(b)
                    if new != dom[b]:
                        dom[b] = new
                        changed = True
            self._dom = dom
        return self._dom

    def rpo(self):
        seen = set()
        order = []

        def dfs(b):
            stack = [(b, iter(self.succ[b]))]
            seen.add(b)
            while stack:
                node, it = stack[-1]
                adv = False
                for s in it:
                    if s not in seen:
                        seen.add(s)
                        stack.append((s, iter(self.succ[s])))
                        adv = True
                        break
                if not adv:
                    order.append(node)
                    stack.pop()
        dfs(0)
        order.reverse()
        return order

    def back_edges(self):
        dom = self.dom
        out = []
        for b in dom:
            for s in self.succ[b]:
                if s in dom[b]:
                    out.append((b, s))
        return out

    # ------------------------------------------------------------ defs
    @property
    def defs(self):
        """local -> list of (bb, stmt_index|'t', kind, payload) for whole-local assignments."""
        if self._defs is None:
            d = defaultdict(list)
            for bi, b in enumerate(self.blocks):
                for si, s in enumerate(b['s']):
                    if 'assign' in s:
                        p = s['assign']
                        if p['p'] and p['p'][0] == 'deref':
                            continue  # store through a pointer: not a definition of the local
                        d[p['l']].append((bi, si, 'assign' if not p['p'] else 'partial', s))
                    elif 'set_discr' in s:
                        d[s['set_discr']['l']].append((bi, si, 'partial', s))
                t = b['t']
                if 'call' in t:
                    p = t['dest']
                    if not (p['p'] and p['p'][0] == 'deref'):
                        d[p['l']].append((bi, 't', 'call' if not p['p'] else 'partial', t))
            self._defs = d
        return self._defs

    def single_def(self, l):
        ds = self.defs.get(l, [])
        if len(ds) == 1 and ds[0][2] in ('assign', 'call'):
            return ds[0]
        return None

    def calls(self):
        for bi, b in enumerate(self.blocks):
            t = b['t']
            if 'call' in t:
                yield bi, t

    def callee(self, t):
        return t['call'].get('fn')


def op_place(o):
    if 'copy' in o:
        return o['copy']
    if 'move' in o:
        return o['move']
    return None


def op_const(o):
    return o.get('const')


def op_int(o):
    c = o.get('const')
    if c is not None and 'int' in c:
        return c['int']
    return None


def is_local(p, l=None):
    return p is not None and not p['p'] and (l is None or p['l'] == l)


if __name__ == '__main__':
    f = Facts(sys.argv[1])
    for n in sys.argv[2:]:
        if n in f.bodies:
            f.bodies[n].dump()
        else:
            for k in f.bodies:
                if n in k:
                    print(k)


# ---------------------------------------------------------------- expressions
# Symbolic resolution of MIR temporaries (Appendix B.1 of DESIGN.md).  A local
# that is not an argument and has exactly one whole-local definition is replaced
# by its defining rvalue; everything else stays ('loc', n).

LEN_FNS = ('core::slice::<impl [T]>::len', 'core::str::<impl str>::len', 'alloc::vec::Vec::<T, A>::len',
           'alloc::string::String::len')


IS_EMPTY_FNS = ('core::slice::<impl [T]>::is_empty', 'core::str::<impl str>::is_empty')


def is_option_branch(e):
    return isinstance(e, tuple) and e and e[0] == 'call' and (e[1] or '').startswith('<core::option::Option<T> as core::ops::Try>::branch') and len(e[2]) == 1


def untry(scrut, label):
    """a match on Try::branch(opt) is a match on opt: Continue <-> Some, Break <-> None"""
    if is_option_branch(scrut):
        m = {'Continue': 'Some', 'Break': 'None'}
        if isinstance(label, tuple):
            label = tuple(m.get(x, x) for x in label)
        else:
            label = m.get(label, label)
        return scrut[2][0], label
    return scrut, label


class Resolver:
    def __init__(self, body, max_depth=40):
        self.b = body
        self.max_depth = max_depth
        self.cache = {}
        self.cur = None      # position (bb, si) of the statement being resolved
        self.loads = []      # (position, root local, field name) of every memory read through a deref

    def operand(self, o, d=0):
        if 'const' in o:
            c = o['const']
            if 'int' in c:
                return ('c', c['int'], c['ty'])
            if 'fn' in c:
                return ('cfn', c['fn'])
            if 'str' in c:
                return ('cs', c['str'])
            if 'ptr' in c:
                return ('cptr', json.dumps(c['ptr'], sort_keys=True), c.get('off', 0))
            if 'indirect' in c:
                return ('cptr', json.dumps(c['indirect'], sort_keys=True), c.get('off', 0))
            if 'zst' in c:
                return ('czst', c['ty'])
            return ('cother', json.dumps(c, sort_keys=True))
        return self.place(op_place(o), d)

    def local(self, l, d=0):
        if l in self.cache:
            return self.cache[l]
        r = ('loc', l)
        if getattr(self, 'stop_named', False) and self.b.locals[l].get('name'):
            # express values over the program's own variables: a named local is a leaf
            self.cache[l] = r
            return r
        if l > self.b.arg_count and d < self.max_depth:
            sd = self.b.single_def(l)
            if sd is not None:
                self.cache[l] = r  # cycle guard
                bi, si, kind, node = sd
                saved = self.cur
                self.cur = (bi, si)
                if kind == 'assign':
                    r = self.rvalue(node['rv'], d + 1)
                else:
                    r = self.call(node, bi, d + 1)
                self.cur = saved
        self.cache[l] = r
        return r

    def call(self, t, bi, d):
        fn = t['call'].get('fn')
        args = [self.operand(a, d) for a in t['args']]
        if fn in LEN_FNS and len(args) == 1:
            return ('len', strip_ref(args[0]))
        if fn in IS_EMPTY_FNS and len(args) == 1:
            return ('is_empty', strip_ref(args[0]))
        if fn and fn.startswith('<core::option::Option<T> as core::ops::FromResidual<') and fn.endswith('::from_residual'):
            return ('agg', 'core::option::Option::None', ())         # `?` on None returns None
        return ('call', fn, tuple(args), bi)

    def place(self, p, d=0, record=True):
        e = self.local(p['l'], d)
        if record and 'deref' in p['p']:
            flds = [pe['field'] for pe in p['p'] if isinstance(pe, dict) and 'field' in pe]
            self.loads.append((self.cur, p['l'], flds[0] if flds else '*'))
        for pe in p['p']:
            if pe == 'deref':
                e = deref(e)
            elif isinstance(pe, dict) and 'field' in pe:
                e = self.field(e, pe['field'], pe['idx'])
            elif isinstance(pe, dict) and 'index' in pe:
                e = ('idx', e, self.local(pe['index'], d))
            elif isinstance(pe, dict) and 'const_index' in pe:
                e = ('idx', e, ('c', pe['const_index'], 'usize'))
            elif isinstance(pe, dict) and 'downcast' in pe:
                # `x?` on an Option: Try::branch(x) is Continue(v) exactly when x is Some(v)
                if pe['downcast'] in ('Continue', 'Break') and is_option_branch(e):
                    e = ('as', e[2][0], 'Some' if pe['downcast'] == 'Continue' else 'None')
                else:
                    e = ('as', e, pe['downcast'])
            else:
                e = ('proj', e, json.dumps(pe, sort_keys=True))
        return e

    def field(self, e, name, idx):
        if e[0] == 'ovf':
            return ('bin', e[1], e[2], e[3]) if idx == 0 else ('ovfflag', e[1], e[2], e[3])
        if e[0] == 'agg' and e[1] == 'tuple' and idx < len(e[2]):
            return e[2][idx]
        return ('fld', e, name)

    def rvalue(self, rv, d=0):
        if 'use' in rv:
            return self.operand(rv['use'], d)
        if 'bin' in rv:
            op = rv['bin']
            l = self.operand(rv['l'], d)
            r = self.operand(rv['r'], d)
            if op.endswith('WithOverflow'):
                return ('ovf', op[:-len('WithOverflow')], l, r)
            return ('bin', op, l, r)
        if 'un' in rv:
            x = self.operand(rv['x'], d)
            if rv['un'] == 'PtrMetadata':
                return ('len', strip_ref(x))
            return ('un', rv['un'], x)
        if 'cast' in rv:
            return ('cast', rv['cast'], self.operand(rv['x'], d), rv['to'])
        if 'ref' in rv:
            return ('ref', self.place(rv['place'], d, record=False))
        if 'rawptr' in rv:
            return ('ref', self.place(rv['place'], d, record=False))
        if 'discriminant' in rv:
            return ('discr', self.place(rv['discriminant'], d))
        if 'aggregate' in rv:
            k = rv['aggregate']
            ops = tuple(self.operand(o, d) for o in rv['ops'])
            if isinstance(k, dict) and 'adt' in k:
                return ('agg', k['adt'] + '::' + k['variant'], ops)
            if isinstance(k, dict) and 'closure' in k:
                return ('agg', 'closure', ops, k['closure'])       # 4th component: the closure body's name
            if isinstance(k, dict):
                return ('agg', list(k.keys())[0], ops)
            return ('agg', k, ops)
        if 'repeat' in rv:
            return ('repeat', self.operand(rv['repeat'], d), rv['n'])
        return ('other', rv.get('other'))


def deref(e):
    if e[0] == 'ref':
        return e[1]
    return ('deref', e)


def strip_ref(e):
    """&*x / &mut *x / x all denote the same slice for our purposes."""
    while True:
        if e[0] == 'ref':
            e = e[1]
        elif e[0] == 'deref':
            e = e[1]
        elif e[0] == 'cast' and e[1].startswith('PointerCoercion'):
            e = e[2]
        else:
            return e


def expr_str(e, body=None):
    k = e[0]
    if k == 'c':
        return '%d' % e[1] if e[1] < 4096 else hex(e[1])
    if k == 'loc':
        n = body.locals[e[1]].get('name') if body else None
        return n or '_%d' % e[1]
    if k == 'fld':
        return '%s.%s' % (expr_str(e[1], body), e[2])
    if k == 'deref':
        return '*%s' % expr_str(e[1], body)
    if k == 'ref':
        return '&%s' % expr_str(e[1], body)
    if k == 'bin':
        return '(%s %s %s)' % (expr_str(e[2], body), e[1], expr_str(e[3], body))
    if k == 'un':
        return '%s(%s)' % (e[1], expr_str(e[2], body))
    if k == 'len':
        return 'len(%s)' % expr_str(e[1], body)
    if k == 'is_empty':
        return 'is_empty(%s)' % expr_str(e[1], body)
    if k == 'cast':
        return '(%s as %s)' % (expr_str(e[2], body), e[3])
    if k == 'call':
        return '%s(%s)@bb%d' % (e[1], ', '.join(expr_str(a, body) for a in e[2]), e[3])
    if k == 'idx':
        return '%s[%s]' % (expr_str(e[1], body), expr_str(e[2], body))
    if k == 'agg':
        return '%s{%s}' % (e[1], ', '.join(expr_str(a, body) for a in e[2]))
    if k == 'as':
        return '(%s as %s)' % (expr_str(e[1], body), e[2])
    if k == 'discr':
        return 'discr(%s)' % expr_str(e[1], body)
    return str(e)


def walk(e):
    """Yield every sub-expression."""
    yield e
    for x in e[1:]:
        if isinstance(x, tuple) and x and isinstance(x[0], str):
            for y in walk(x):
                yield y
        elif isinstance(x, tuple):
            for z in x:
                if isinstance(z, tuple) and z and isinstance(z[0], str):
                    for y in walk(z):
                        yield y


# ---------------------------------------------------------------- control conditions

def switch_edges(body, bi):
    """For a switch block: list of (label, target) where label is the int value or 'else'."""
    t = body.blocks[bi]['t']
    if 'switch' not in t:
        return []
    out = [(v, b) for v, b in t['targets']]
    out.append(('else', t['otherwise']))
    return out


def controlling_edges(body, site_bb):
    """All (switch_bb, label) such that every path from entry to site_bb takes that edge.
    An edge S->T controls B if T dominates B (or T == B), S->T is the only way into T apart from
    back edges from blocks T dominates, and T is the target of exactly one label of S."""
    dom = body.dom
    out = []
    if site_bb not in dom:
        return out
    for T in dom[site_bb]:
        outside = [p for p in body.pred[T] if p in dom and T not in dom[p]]
        if len(outside) != 1:
            continue
        S = outside[0]
        t = body.blocks[S]['t']
        if 'switch' not in t:
            continue
        labels = [lab for lab, tgt in switch_edges(body, S) if tgt == T]
        if len(labels) != 1:
            continue
        out.append((S, labels[0]))
    return out


def switch_cond(body, S, res=None):
    """Resolved expression of the switch operand of block S."""
    res = res or Resolver(body)
    return res.operand(body.blocks[S]['t']['switch'])


def bool_truth(body, S, label):
    """For a bool switch (targets [[0,bbF]], otherwise bbT): truth value of the edge, else None."""
    t = body.blocks[S]['t']
    if t.get('sty') != 'bool':
        return None
    if label == 'else':
        vals = [v for v, _ in t['targets']]
        if vals == [0]:
            return True
        if vals == [1]:
            return False
        return None
    return bool(label)


def variant_of_edge(body, S, label):
    t = body.blocks[S]['t']
    names = t.get('variants')
    if not names:
        return None
    if label == 'else':
        listed = {str(v) for v, _ in t['targets']}
        rest = [n for k, n in names.items() if k not in listed]
        return rest[0] if len(rest) == 1 else None
    return names.get(str(label))


def positions_between(body, frm, to):
    """Blocks lying on some path from block `frm` (exclusive of statements before it) to block `to`."""
    fwd = body.reach_from([frm])
    # backwards reachability to `to`
    back = set()
    q = [to]
    while q:
        b = q.pop()
        if b in back:
            continue
        back.add(b)
        for p in body.pred[b]:
            q.append(p)
    return fwd & back


def block_conditions(body, bb, res=None, through_joins=False, _depth=0):
    """Conditions that hold whenever `bb` executes, from its controlling edges:
    ('variant', scrutinee_expr, name) / ('bool', cond_expr, truth) / ('int', expr, value).
    through_joins: a test of the variant of a local that is assigned enum constructors in several places (the verdict of an inlined
    helper, `let r = if .. { None } else { Some(..) }; match r ..`) also establishes what every assignment of that variant was
    controlled by: those conditions (common to all such assignments) are added."""
    res = res or Resolver(body)
    out = []
    for S, label in controlling_edges(body, bb):
        t = body.blocks[S]['t']
        if t.get('variants'):
            v = variant_of_edge(body, S, label)
            out.append(('variant', res.place(t['discr_of']), v, S))
            pl = t['discr_of']
            if through_joins and _depth < 2 and not pl['p'] and pl['l'] > body.arg_count and v is not None:
                l = pl['l']
                hops = 0
                # through a moved temporary
                while len(body.defs.get(l, [])) == 1 and body.defs[l][0][2] == 'assign' and 'use' in body.defs[l][0][3]['rv'] and hops < 4:
                    nx = op_place(body.defs[l][0][3]['rv']['use'])
                    if nx is None or nx['p']:
                        break
                    l = nx['l']
                    hops += 1
                ds = body.defs.get(l, [])
                if len(ds) >= 2 and all(d[2] == 'assign' and isinstance(d[3]['rv'].get('aggregate'), dict) and d[3]['rv']['aggregate'].get('variant') for d in ds):
                    same = [d for d in ds if d[3]['rv']['aggregate']['variant'] == v]
                    if same:
                        common = None
                        for d in same:
                            cs = {(k_, e_, v_): S_ for k_, e_, v_, S_ in block_conditions(body, d[0], res, True, _depth + 1)}
                            common = cs if common is None else {k: common[k] for k in common if k in cs}
                        for (k_, e_, v_), S_ in (common or {}).items():
                            out.append((k_, e_, v_, S_))
        elif t.get('sty') == 'bool':
            out.append(('bool', res.operand(t['switch']), bool_truth(body, S, label), S))
        else:
            out.append(('int', res.operand(t['switch']), label, S))
    return out


def ret_variant_blocks(body, adt):
    """{variant: [bb]} for statements `_0 = adt::Variant{..}` (directly or via a temp moved into _0)."""
    out = {}
    for bi, blk in enumerate(body.blocks):
        for st in blk['s']:
            if 'assign' in st and 'aggregate' in st['rv']:
                k = st['rv']['aggregate']
                if isinstance(k, dict) and k.get('adt') == adt:
                    out.setdefault(k['variant'], []).append((bi, st['assign']['l']))
    return out


def reaching_defs(body, local):
    """Forward reaching definitions of a whole local: {bb: set of def ids reaching the *entry* of bb},
    def id = (bb, si).  Definitions are whole-local assignments and call destinations."""
    defs = [(bi, si) for bi, si, k, n in body.defs.get(local, []) if k in ('assign', 'call')]
    gen = {}
    for bi, si in defs:
        cur = gen.get(bi)
        key = (10 ** 9 if si == 't' else si)
        if cur is None or key > (10 ** 9 if cur[1] == 't' else cur[1]):
            gen[bi] = (bi, si)
    IN = {b: set() for b in range(len(body.blocks))}
    OUT = {b: set() for b in range(len(body.blocks))}
    if local <= body.arg_count:
        IN[0] = {('arg', local)}
    changed = True
    order = body.rpo()
    while changed:
        changed = False
        for b in order:
            i = set(IN[b]) if b == 0 else set()
            for p in body.pred[b]:
                i |= OUT[p]
            o = {gen[b]} if b in gen else set(i)
            if i != IN[b] or o != OUT[b]:
                IN[b], OUT[b] = i, o
                changed = True
    return IN


# ---------------------------------------------------------------- post-dominators / control dependence
def post_dominators(body):
    """pdom[b] = set of blocks post-dominating b (virtual exit = -1 joins returns and diverging blocks)."""
    n = len(body.blocks)
    reach = body.reachable()
    # the `otherwise -> unreachable` edge of an exhaustive match cannot be taken: it is not a way out of anything
    dead = {b for b in reach if 'unreachable' in body.blocks[b]['t'] and not body.blocks[b]['s']}
    succ = {b: ([s for s in body.succ[b] if s not in dead or len(body.succ[b]) == 1] or [-1]) for b in reach}
    for b in reach:
        if 'return' in body.blocks[b]['t']:
            succ[b] = [-1]
    nodes = set(reach) | {-1}
    pdom = {b: set(nodes) for b in nodes}
    pdom[-1] = {-1}
    changed = True
    order = list(reversed(body.rpo()))
    while changed:
        changed = False
        for b in order:
            new = None
            for s in succ[b]:
                new = set(pdom[s]) if new is None else (new & pdom[s])
            new = (new or set()) | {b}
            if new != pdom[b]:
                pdom[b] = new
                changed = True
    return pdom


def control_dependence(body):
    """{block: set of (switch_block, successor)} — direct control dependence (Ferrante et al.):
    E depends on edge S->A iff E post-dominates A (or E == A) and E does not strictly post-dominate S."""
    pdom = post_dominators(body)
    out = {}
    for S in pdom:
        if S == -1:
            continue
        succs = body.succ[S]
        if len(succs) < 2:
            continue
        for A in succs:
            for E in pdom[A]:
                if E == -1:
                    continue
                if E == S or E not in pdom[S]:
                    out.setdefault(E, set()).add((S, A))
                elif E in pdom[S] and E != S:
                    pass
    return out


def min_select(body, l, r=None, cd=None):
    """If local l is `if y < x { y } else { x }` (any comparison operator, either operand order) — the smaller of the two values
    it is assigned, i.e. min(x, y) written as a branch — return (x, y) as resolved expressions, else None."""
    ds = body.defs.get(l, [])
    if len(ds) != 2 or any(d[2] not in ('assign', 'call') for d in ds):
        return None
    r = r or Resolver(body)
    (b1, _, k1, n1), (b2, _, k2, n2) = ds
    v1 = r.rvalue(n1['rv']) if k1 == 'assign' else r.call(n1, b1, 0)
    v2 = r.rvalue(n2['rv']) if k2 == 'assign' else r.call(n2, b2, 0)
    if v1 == v2:
        return None
    cd = cd if cd is not None else control_dependence(body)
    for (S1, A1) in cd.get(b1, set()):
        for (S2, A2) in cd.get(b2, set()):
            if S1 != S2 or A1 == A2:
                continue
            t = body.blocks[S1]['t']
            if 'switch' not in t or t.get('sty') != 'bool':
                continue
            cond = Resolver(body).operand(t['switch'])
            if cond[0] != 'bin' or cond[1] not in ('Lt', 'Le', 'Gt', 'Ge') or {cond[2], cond[3]} != {v1, v2}:
                continue
            ok = True
            for A, v in ((A1, v1), (A2, v2)):
                labs = [lab for lab, tgt in switch_edges(body, S1) if tgt == A]
                truth = bool_truth(body, S1, labs[0]) if len(labs) == 1 else None
                if truth is None:
                    ok = False
                    break
                x, y = cond[2], cond[3]
                small = (x if truth else y) if cond[1] in ('Lt', 'Le') else (y if truth else x)
                if v != small:
                    ok = False
            if ok:
                return (v1, v2)
    return None


def resolve_at(body, e, bb, depth=0):
    """Refine a resolved expression at block `bb`: a multiply-assigned local with exactly one reaching definition there is
    replaced by that definition's value."""
    if depth > 6:
        return e
    if e[0] == 'loc' and e[1] > body.arg_count:
        rd = reaching_defs(body, e[1]).get(bb, set())
        inblock = [(bi, si) for bi, si, k, n in body.defs.get(e[1], []) if bi == bb and k in ('assign', 'call')]
        ds = [d for d in rd if d[0] != 'arg']
        if not inblock and len(ds) == 1 and len(rd) == 1:
            bi, si = ds[0]
            r = Resolver(body)
            if si == 't':
                v = r.call(body.blocks[bi]['t'], bi, 0)
            else:
                v = r.rvalue(body.blocks[bi]['s'][si]['rv'])
            return resolve_at(body, v, bi, depth + 1)
        return e
    return e


def impl_bodies(facts, fn):
    """With the `std` feature the multiversion attribute turns a function into a dispatcher; the code lives in
    fn::<name>_default_version and fn::<name>_<features>_version::__safe_inner.  Returns the names of the bodies holding the code."""
    short_ = fn.rsplit('::', 1)[-1]
    out = [n for n in facts.bodies if n.startswith(fn + '::' + short_ + '_') and (n.endswith('_default_version') or n.endswith('_version::__safe_inner'))]
    return sorted(out) if out else [fn]
