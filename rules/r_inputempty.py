"""R-INPUTEMPTY (C06-D3) — InputEmpty is reported only when the source is exhausted: every construction of
DecoderResult/EncoderResult::InputEmpty in a converter is (a) in the Space::Full arm of source.check_available(),
(b) the value selected for `pending` by the min-select idiom on the side where dst.len() >= src.len() (and that value is
returned only together with the min-length as read count), or (c) guarded by an explicit exhaustion test of the source."""
from mirlib import *
from shape import *


def run(rep, f, c, rule, want=lambda n: True):
    n = 0
    for name, b in sorted(f.bodies.items()):
        r_ = b.raw.get('ret', '')
        if not (('DecoderResult' in r_ or 'EncoderResult' in r_) and b.kind in ('fn', 'assoc_fn')) or not want(name):
            continue
        if name.startswith(('Decoder::', 'Encoder::', 'variant::')):
            continue
        r = Resolver(b)
        k_ = 0
        for bi, blk in enumerate(b.blocks):
            for st in blk['s']:
                if not ('assign' in st and 'aggregate' in st['rv'] and isinstance(st['rv']['aggregate'], dict) and st['rv']['aggregate'].get('variant') == 'InputEmpty'
                        and st['rv']['aggregate'].get('adt') in ('DecoderResult', 'EncoderResult')):
                    continue
                n += 1
                conds = block_conditions(b, bi, r)
                ok = False
                how = None
                for k, e, v, S in conds:
                    # (a) source exhausted according to check_available
                    if k == 'variant' and v == 'Full' and e[0] == 'call' and (e[1] or '').endswith('Source::check_available'):
                        ok, how = True, 'check_available() == Full'
                    # (b) min-select: !(dst.len() < src.len())
                    if k == 'bool' and e[0] == 'bin' and e[1] == 'Lt' and e[2][0] == 'len' and e[3][0] == 'len' and v is False:
                        ok, how = True, 'min-select (dst.len() >= src.len())'
                    if k == 'bool' and e[0] == 'bin' and e[1] == 'Ge' and e[2][0] == 'len' and e[3][0] == 'len' and v is True:
                        ok, how = True, 'min-select (dst.len() >= src.len())'
                    # (c) explicit exhaustion test: src.is_empty() / pos == src.len()
                    if k == 'bool' and e[0] == 'is_empty' and strip_ref(e[1]) == ('loc', 2) and v is True:
                        ok, how = True, 'src.is_empty()'
                    if k == 'bool' and e[0] == 'bin' and e[1] in ('Eq', 'Ge') and e[3] == ('len', ('loc', 2)) and v is True:
                        ok, how = True, 'position == src.len()'
                    if k == 'bool' and e[0] == 'bin' and e[1] == 'Lt' and e[3] == ('len', ('loc', 2)) and v is False:
                        ok, how = True, '!(position < src.len())'
                    # the same relation in its other spellings: !(position != src.len()), src.len() == position, src.len() <= position,
                    # !(src.len() > position), !(src.len() != position)
                    if k == 'bool' and e[0] == 'bin' and isinstance(v, bool):
                        L2 = ('len', ('loc', 2))
                        if e[3] == L2 and e[2] != L2 and ((e[1] == 'Ne' and v is False)):
                            ok, how = True, '!(position != src.len())'
                        if e[2] == L2 and e[3] != L2 and e[3][0] != 'len' and ((e[1] in ('Eq', 'Le') and v is True) or (e[1] in ('Ne', 'Gt') and v is False)):
                            ok, how = True, 'src.len() <= position'
                    if k == 'bool' and e[0] == 'fld' and e[2] == 'emitted' and v is True:
                        ok, how = True, 'replacement decoder already emitted its error (consumes everything)'
                if not ok:
                    # (d) the result reports the whole source as read: (InputEmpty, src.len(), _)
                    loc = st['assign']['l']
                    x = bi
                    seen = set()
                    while x not in seen and not ok:
                        seen.add(x)
                        for s2 in b.blocks[x]['s']:
                            if 'assign' in s2 and s2['rv'].get('aggregate') == 'tuple' and len(s2['rv']['ops']) >= 2:
                                o0 = op_place(s2['rv']['ops'][0])
                                if o0 and o0['l'] == loc:
                                    rd = resolve_at(b, Resolver(b).operand(s2['rv']['ops'][1]), x)
                                    base = rd[1] if rd[0] == 'len' else None
                                    if base is not None:
                                        base = strip_ref(base)
                                        if base[0] == 'call' and (base[1] or '').endswith('::as_bytes'):
                                            base = strip_ref(base[2][0])
                                        if base == ('loc', 2):
                                            ok, how = True, 'read count is src.len()'
                        if len(b.succ[x]) != 1:
                            break
                        x = b.succ[x][0]
                rep.ob(rule, '%s:InputEmpty#%s' % (name, how or 'unguarded'), ok,
                       'InputEmpty is constructed at a point where the source is not known to be exhausted (not the Full arm of check_available(), '
                       'not the min-select `pending`, no exhaustion test): the documented caller loop would stop early and drop input',
                       sp_str(st['sp']), {'justified_by': how}, c)
    return n
