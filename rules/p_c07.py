"""C07 — worst-case buffer-length queries (structural clauses D1–D3, DESIGN.md §6 C07)."""
from mirlib import *
from paths import *
from shape import *
from taint import Taint, operand_locals, rvalue_operands
import r_dispatch, r_entrycost, r_enccost

MANIFEST = {
    'category': 'other',
    'text': 'Decided statically for all states and all lengths: (D1, the overflow clause of the statement) the length argument of '
            'every public max_*_buffer_length* query, followed interprocedurally through every callee, only ever reaches checked_add/'
            'checked_mul/checked_div/checked_sub, Option plumbing, comparisons and cmp::max/min — never a plain, wrapping or '
            'overflow-trapping arithmetic operator, shift or narrowing cast, so a query cannot return a wrapped number or panic on '
            'overflow; (D2) every query is dispatched to the same-named query of the live variant (all 11 decoder / 9 encoder arms), '
            'and the if_no_unmappables forms are the without_replacement forms plus NCR_EXTRA exactly when the encoding cannot encode '
            'everything; (D3) state awareness: every decoder query reads, transitively, every field its decode bodies write (frozen, '
            'reasoned exceptions), and Decoder::max_* handle all 11 life-cycle states explicitly, adding the two possibly-withheld BOM '
            'bytes in the five withheld-byte states; (D4, R-ENTRYCOST) a necessary condition of sufficiency that involves the state term: for '
            'every path of a decoder body from the call entry to a failing space test (no loop back edge), the state conditions the path '
            'requires at entry, the number of input bytes it proves present and the demand (units stored before the test, each write at its '
            'smallest size, plus the capacity the test asks for) are extracted, the closed form of the matching query is extracted from the '
            'MIR of max_*_buffer_length and its helpers (branches on state fields fork, crate-local helpers inlined, constants folded) and '
            'evaluated at that byte count: the query must cover the demand in every abstract state consistent with the path that the final '
            'stores of some decode path can leave the decoder in (81 entry paths decided on the pinned tree, several of them tight; shapes '
            'not understood are counted as undecided, not reported); and the same through the with-replacement wrapper (R-ENTRYCOST.chain): for '
            'every entry path that ends in a Malformed report, the state its final stores leave behind, and every entry path to a failing '
            'space test whose entry conditions that state decides, the with-replacement query evaluated in the first state at the total byte '
            'count must cover units stored + U+FFFD + the second path\'s demand (200 chains decided: UTF-16, Big5, EUC-JP, EUC-KR, '
            'ISO-2022-JP, single-byte). (D5, R-ENCCOST) the encoder queries of the handle-based encoders (Big5, EUC-JP, EUC-KR, gb18030 in both modes, Shift_JIS, '
            'single-byte from UTF-8, x-user-defined): the closed form a*n + c of max_buffer_length_from_utf8/utf16_without_replacement is '
            'extracted and the amortised budget invariant free >= a*(units left) + c is checked on every loop path: a character of a class that '
            'occupies at least k source units is written with at most a*k bytes, and every space test (the ASCII fast path\'s test for the '
            'non-ASCII character in hand, the explicit test after check_available) asks for at most a*(units ahead) + c bytes — 68 '
            'obligations, many tight. Not decided: decoder sufficiency beyond the first failing test of a call (an amortised argument over '
            'the decoder states), the ISO-2022-JP and UTF-8 encoder queries and the hand-written single-byte UTF-16 loop.',
    'note': 'Trusted: rustc MIR/instance resolution, mirx, rule library, semantics of core checked_* and cmp::max.',
    'technique': 'interprocedural taint analysis over MIR (must-not-reach sinks) + dispatch-table agreement + path summaries + closed-form extraction of the queries compared with per-path space demands',
}
CONFIGS = {'quick': ['default'], 'thorough': ['default', 'noalloc', 'simd', 'fast', 'lessslow']}

ARITH = ('Add', 'Sub', 'Mul', 'Shl', 'Shr', 'AddWithOverflow', 'SubWithOverflow', 'MulWithOverflow', 'Div', 'Rem',
         'AddUnchecked', 'SubUnchecked', 'MulUnchecked', 'ShlUnchecked', 'ShrUnchecked', 'BitXor')
BITS = {'u8': 8, 'u16': 16, 'u32': 32, 'u64': 64, 'usize': 64, 'i8': 8, 'i16': 16, 'i32': 32, 'i64': 64, 'isize': 64}

ALLOWED_EXT = (
    'checked_add', 'checked_mul', 'checked_div', 'checked_sub',
)


def allowed_external(fn, generic=()):
    short = fn.rsplit('::', 1)[-1]
    if fn.startswith('core::num::') and short in ALLOWED_EXT:
        return True
    if fn in ('core::cmp::max', 'core::cmp::min', 'core::cmp::Ord::max', 'core::cmp::Ord::min'):
        # on plain integers only: max(Some(a), None) is Some(a) — comparing Options swallows the None an overflow produced
        return not any('Option' in g for g in generic)
    if fn.startswith('core::option::Option::<T>::') and short in ('is_some', 'is_none'):
        return True
    # Option combinators: None stays None, the closure (checked by the taint engine as a body of its own) computes the Some case
    if fn in ('core::option::Option::<T>::and_then', 'core::option::Option::<T>::map'):
        return True
    # the `?` operator on Option: value-preserving plumbing (Some(v) -> v, None -> return None)
    if fn.startswith('<core::option::Option<T> as core::ops::') and short in ('branch', 'from_residual', 'from_output'):
        return True
    return False


# fields a decode body writes that a size query may ignore — confirmed by reading (DESIGN.md Appendix D)
STATE_EXCEPTIONS = {
    ('iso_2022_jp::Iso2022JpDecoder', 'output_state'): 'selects the charset of the next unit, not how many units: every charset is 1 byte -> <=1 unit or 2 bytes -> 1 unit, bounded by the worst case used',
    ('replacement::ReplacementDecoder', 'emitted'): 'once set the decoder emits nothing more; ignoring it only over-estimates',
    ('utf_8::Utf8Decoder', 'code_point'): 'value accumulator: affects which scalar is produced, not how many units (worst case assumed)',
    ('utf_8::Utf8Decoder', 'lower_boundary'): 'validity window of the next continuation byte, not a size term',
    ('utf_8::Utf8Decoder', 'upper_boundary'): 'validity window of the next continuation byte, not a size term',
}
WITHHELD = ('SeenUtf8First', 'SeenUtf8Second', 'ConvertingWithPendingBB', 'SeenUtf16LeFirst', 'SeenUtf16BeFirst')
DIRECT = ('Converting', 'AtUtf8Start', 'AtUtf16LeStart', 'AtUtf16BeStart')


def place_fields_of_self(pl):
    if pl and pl['l'] == 1 and pl['p'] and pl['p'][0] == 'deref':
        fl = [e['field'] for e in pl['p'] if isinstance(e, dict) and 'field' in e]
        if fl:
            return fl[0]
    return None


def self_writes(b):
    out = set()
    for blk in b.blocks:
        for st in blk['s']:
            if 'assign' in st:
                f = place_fields_of_self(st['assign'])
                if f:
                    out.add(f)
            elif 'set_discr' in st:
                f = place_fields_of_self(st['set_discr'])
                if f:
                    out.add(f)
        t = blk['t']
        if 'call' in t:
            f = place_fields_of_self(t['dest'])
            if f:
                out.add(f)
            # &mut self.field passed to a callee counts as a write
    # &mut borrows of a field
    for blk in b.blocks:
        for st in blk['s']:
            if 'assign' in st and st['rv'].get('ref') == 'mut':
                f = place_fields_of_self(st['rv']['place'])
                if f:
                    out.add(f)
    return out


def self_reads(b):
    out = set()
    for blk in b.blocks:
        for st in blk['s']:
            if 'assign' in st:
                rv = st['rv']
                for o in rvalue_operands(rv):
                    f = place_fields_of_self(op_place(o))
                    if f:
                        out.add(f)
                for k in ('place', 'discriminant'):
                    if k in rv:
                        f = place_fields_of_self(rv[k])
                        if f:
                            out.add(f)
        t = blk['t']
        if 'switch' in t:
            f = place_fields_of_self(op_place(t['switch']))
            if f:
                out.add(f)
        if 'call' in t:
            for a in t['args']:
                f = place_fields_of_self(op_place(a))
                if f:
                    out.add(f)
    return out


def transitive_reads(f, fn, seen=None):
    seen = seen if seen is not None else set()
    if fn in seen:
        return set()
    seen.add(fn)
    b = f.body(fn)
    if b is None:
        return set()
    out = self_reads(b)
    r = Resolver(b)
    for bi, t in b.calls():
        cal = b.callee(t)
        cb = f.body(cal) if cal else None
        if cb is not None and t['args'] and strip_ref(r.operand(t['args'][0])) == ('loc', 1) and cb.raw.get('impl_self') == b.raw.get('impl_self'):
            out |= transitive_reads(f, cal, seen)
    return out


def d1(rep, f, c):
    queries = [n for n, b in f.bodies.items()
               if b.raw.get('impl_self') in ('Decoder', 'Encoder') and b.raw.get('pub') and n.rsplit('::', 1)[-1].startswith('max_')]
    rep.floor('C07-D1', 'public queries', len(queries), 7, c, exact=True)
    viol = []

    def on_violation(b, bi, kind, detail):
        viol.append((b.name, sp_str(b.blocks[bi]['tsp']), 'length-derived value passed to %s' % detail))

    def sink(b, bi, st, T):
        rv = st['rv']
        if 'bin' in rv and rv['bin'] in ARITH:
            # unsigned division / remainder / right shift by a non-zero constant can neither overflow nor panic
            rc = rv['r'].get('const') if isinstance(rv['r'], dict) else None
            safe = rv['bin'] in ('Div', 'Rem', 'Shr') and rc is not None and isinstance(rc.get('int'), int) and rc['int'] != 0 and \
                'sint' not in rc and (rv['bin'] != 'Shr' or rc['int'] < 32)
            if not safe and any(l in T for o in (rv['l'], rv['r']) for l in operand_locals(o)):
                viol.append((b.name, sp_str(st['sp']), 'length-derived value is an operand of unchecked %s' % rv['bin']))
        if 'un' in rv and rv['un'] == 'Neg' and any(l in T for l in operand_locals(rv['x'])):
            viol.append((b.name, sp_str(st['sp']), 'length-derived value negated'))
        if 'cast' in rv and rv['cast'] == 'IntToInt' and any(l in T for l in operand_locals(rv['x'])):
            pl = op_place(rv['x'])
            src_ty = b.locals[pl['l']]['ty'] if pl and not pl['p'] else None
            if src_ty is None or BITS.get(rv['to'], 0) < BITS.get(src_ty, 64):
                viol.append((b.name, sp_str(st['sp']), 'length-derived value narrowed by `as %s`' % rv['to']))

    t = Taint(f, allowed_external, on_violation, sink)
    for q in sorted(queries):
        before = len(viol)
        t.analyse(q, [2])
        mine = viol[before:]
        rep.ob('C07-D1', q, not mine, '; '.join('%s in %s at %s' % (m[2], m[0], m[1]) for m in mine[:3]),
               mine[0][1] if mine else sp_str(f.body(q).raw['span']), {'bodies_reached_so_far': len(t.visited_bodies)}, c)
    rep.count('taint_bodies:' + c, len(t.visited_bodies))
    rep.floor('C07-D1.reach', 'bodies reached by the length argument', len(t.visited_bodies), 60, c)
    rep.analysed['taint_bodies_sample'] = sorted(t.visited_bodies)[:12]


def d2(rep, f, c):
    r_dispatch.dispatch(rep, f, c, 'C07-D2.dispatch')
    # Decoder / Encoder level: same-named variant method
    for ty, field in (('Decoder', 'variant'), ('Encoder', 'variant')):
        for n, b in sorted(f.bodies.items()):
            if b.raw.get('impl_self') != ty or not n.rsplit('::', 1)[-1].startswith('max_'):
                continue
            meth = n.rsplit('::', 1)[-1]
            vcalls = [(bi, t) for bi, t in b.calls() if (b.callee(t) or '').startswith('variant::Variant' + ty + '::')]
            if meth.endswith('_if_no_unmappables'):
                continue
            ok = bool(vcalls) and all(b.callee(t) == 'variant::Variant%s::%s' % (ty, meth) for bi, t in vcalls)
            rep.ob('C07-D2.same-name', n, ok, 'query does not delegate to the same-named variant query: %r' % sorted({b.callee(t) for bi, t in vcalls}),
                   sp_str(b.raw['span']), {'variant_calls': len(vcalls)}, c)
    # if_no_unmappables = without_replacement + (NCR_EXTRA iff !can_encode_everything)
    ncr = f.consts.get('NCR_EXTRA', {}).get('int')
    for src in ('utf8', 'utf16'):
        fn = 'Encoder::max_buffer_length_from_%s_if_no_unmappables' % src
        b = f.body(fn)
        if b is None:
            rep.undecidable('C07-D2.ncr', fn, 'not found', None, c)
            continue
        ps = region_paths(b, 0)
        ok = True
        seen = set()
        for p in ps:
            if p.end[0] != 'return':
                continue
            cee = [e for e in p.conds() if is_call(e[1], 'Encoding::can_encode_everything')]
            base = [e for e in p.calls() if e[1] == 'Encoder::max_buffer_length_from_%s_without_replacement' % src]
            if len(base) != 1 or base[0][2][1] != ('loc', 2):
                ok = False
                continue
            bexpr = ('call', base[0][1], base[0][2], base[0][3])
            bpay = ('fld', ('as', bexpr, 'Some'), '0')
            bnone = [e for e in p.conds() if e[1] == ('variant', bexpr) and e[2] == 'None']
            rv = p.env.get(0)
            # the result in normal form: base + extra, in any of the ways it can be plumbed
            extra = '?'
            if bnone:
                if rv is not None and variant_name(rv) == 'None':
                    continue                  # overflow of the inner query propagates as None: either branch
                ok = False
                continue
            if rv == bexpr or (rv is not None and variant_name(rv) == 'Some' and rv[2] and rv[2][0] == bpay):
                extra = 0
            elif rv is not None and rv[0] == 'call' and (rv[1] == 'checked_add' or (rv[1] or '').endswith('::checked_add')) and len(rv[2]) == 2:
                a0, a1 = rv[2]
                for x, y in ((a0, a1), (a1, a0)):
                    if y in (bexpr, bpay):
                        if x[0] == 'c':
                            extra = x[1]
                        elif x[0] == 'loc' or x[0] == 'init':
                            # an if-selected constant feeding one checked_add: its value on this path
                            for e in p.events:
                                if e[0] == 'set' and e[2][0] == 'c' and e[2][2] == 'usize':
                                    extra = e[2][1]
            if len(cee) != 1:
                # the query may be asked in either order: a path that does not consult can_encode_everything must not add anything
                ok &= extra == 0 and False
                continue
            if cee[0][2] is True:
                ok &= extra == 0
                seen.add('all')
            else:
                ok &= extra == ncr
                seen.add('ncr')
        rep.ob('C07-D2.ncr', fn, ok and seen == {'all', 'ncr'}, 'not without_replacement(n) + (NCR_EXTRA iff !can_encode_everything())', sp_str(b.raw['span']),
               {'NCR_EXTRA': ncr}, c)


def d3(rep, f, c):
    nd = 0
    for n, b in sorted(f.bodies.items()):
        if not n.endswith('Decoder::decode_to_utf8_raw') or n.startswith('variant::') or n.startswith('Decoder::'):
            continue
        ty = n.rsplit('::', 1)[0]
        w = self_writes(b) | (self_writes(f.body(ty + '::decode_to_utf16_raw')) if f.body(ty + '::decode_to_utf16_raw') else set())
        nd += 1
        for q in ('max_utf16_buffer_length', 'max_utf8_buffer_length', 'max_utf8_buffer_length_without_replacement'):
            qb = f.body(ty + '::' + q)
            if qb is None:
                rep.undecidable('C07-D3.state', '%s::%s' % (ty, q), 'query not found', None, c)
                continue
            rd = transitive_reads(f, ty + '::' + q)
            miss = sorted(x for x in w - rd if (ty, x) not in STATE_EXCEPTIONS)
            rep.ob('C07-D3.state', '%s::%s' % (ty, q), not miss,
                   'decoder state field(s) %r are written by the decode bodies but not consulted by this query' % miss,
                   sp_str(qb.raw['span']), {'written': sorted(w), 'read': sorted(rd)}, c)
    rep.floor('C07-D3.state', 'variant decoders', nd, 11, c, exact=True)
    # life-cycle arms of the three Decoder queries
    lc = f.adts.get('DecoderLifeCycle')
    states = {v['name'] for v in lc['variants']} if lc else set()
    rep.ob('C07-D3.lifecycle-states', 'DecoderLifeCycle', len(states) == 11, 'expected 11 life-cycle states, found %d' % len(states), None, {'states': sorted(states)}, c)
    for q in ('max_utf16_buffer_length', 'max_utf8_buffer_length', 'max_utf8_buffer_length_without_replacement'):
        fn = 'Decoder::' + q
        b = f.body(fn)
        if b is None:
            rep.undecidable('C07-D3.lifecycle', fn, 'not found', None, c)
            continue
        site = sp_str(b.raw['span'])
        sws = [bi for bi, blk in enumerate(b.blocks) if blk['t'].get('enum') == 'DecoderLifeCycle']
        if len(sws) != 1:
            rep.undecidable('C07-D3.lifecycle', fn, 'expected one match on life_cycle', site, c)
            continue
        S = sws[0]
        explicit = {variant_of_edge(b, S, lab) for lab, tgt in switch_edges(b, S) if lab != 'else'}
        other = [tgt for lab, tgt in switch_edges(b, S) if lab == 'else']
        wildcard = other and 'unreachable' not in b.blocks[other[0]]['t'] and len(explicit) < len(states)
        rep.ob('C07-D3.lifecycle.explicit', fn, explicit | ({variant_of_edge(b, S, 'else')} if not wildcard else set()) >= states - {None} and not wildcard,
               'life-cycle states %r are not handled by an explicit arm' % sorted(states - explicit), site, {'explicit_arms': sorted(x for x in explicit if x)}, c)
        ps = region_paths(b, 0)
        per = {}
        for p in ps:
            st = [e for e in p.conds() if e[1][0] == 'variant' and e[1][1] == ('fld', ('deref', ('loc', 1)), 'life_cycle')]
            if len(st) != 1 or st[0][2] is None:
                continue
            for sname in (st[0][2] if isinstance(st[0][2], tuple) else (st[0][2],)):
                per.setdefault(sname, []).append(p)
        for state, plist in sorted(per.items()):
            for p in plist:
                vc = [e for e in p.calls() if e[1] == 'variant::VariantDecoder::' + q]
                for e in vc:
                    arg = e[2][1]
                    if state in DIRECT:
                        ok = arg == ('loc', 2)
                        msg = 'state %s must query the variant with byte_length itself' % state
                    elif state in WITHHELD:
                        ok = False
                        if arg[0] == 'fld' and arg[1][0] == 'as' and arg[1][2] == 'Some':
                            inner = arg[1][1]
                            if inner[0] == 'call' and (inner[1] or '').endswith('::checked_add') and inner[2][0] == ('loc', 2) and is_c(inner[2][1]) and inner[2][1][1] >= 2:
                                ok = True
                        msg = 'state %s withholds up to two BOM bytes: the variant must be queried with byte_length.checked_add(k), k >= 2' % state
                    elif state == 'AtStart':
                        ok = arg == ('loc', 2)
                        msg = 'AtStart queries the variant with byte_length'
                    else:
                        ok = True
                        msg = ''
                    rep.ob('C07-D3.lifecycle.arg', '%s:%s' % (fn, state), ok, msg + ': got %s' % expr_str(arg, b)[:120], sp_str(b.blocks[e[3]]['tsp']), {'arg': expr_str(arg, b)[:80]}, c)
                if state in DIRECT and p.end[0] == 'return':
                    rv = p.env.get(0)
                    rep.ob('C07-D3.lifecycle.direct', '%s:%s' % (fn, state), len(vc) == 1 and rv == ('call', vc[0][1], vc[0][2], vc[0][3]),
                           'state %s must return the variant\'s answer unchanged' % state, site, None, c)
        fin = per.get('Finished', [])
        rep.ob('C07-D3.lifecycle.finished', fn, bool(fin) and all(p.end[0] == 'diverge' for p in fin), 'Finished must panic (documented misuse)', site, None, c)


def run(rep, facts, tier):
    for c, f in facts.items():
        d1(rep, f, c)
        d2(rep, f, c)
        d3(rep, f, c)
        n, und = r_entrycost.run(rep, f, c)
        rep.floor('R-ENTRYCOST', 'entry paths to a failing space test decided against the query', n, 65, c)
        rep.floor('R-ENTRYCOST.chain', 'two-call chains through a malformed report decided', rep.counts.get('entrycost.chain.decided:' + c, 0), 150, c)
        r_enccost.run(rep, f, c)
    return ('other', MANIFEST['text'], ['numerical sufficiency of the formulas beyond the first failing space test of a call is NOT decided'])
