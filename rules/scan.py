"""R-SCAN — abstract interpretation of the index-driven buffer scanners (UTF-8 / UTF-16 validators, bidi and Latin1 checks).

The scanners are hand-written automata over a slice with a cursor (`read`, `consumed`, a re-sliced `src`).  What a user
relies on is quantified over every buffer, so no test settles it; but each clause is visible in the shape of the code:

  (S1) acceptance is sound      whenever the cursor moves forward by k units, the conditions taken on that path constrain those
                                k units to be exactly one or more complete sequences the function is allowed to skip
                                (valid UTF-8 / valid and not right-to-left / Latin1 / valid UTF-16);
  (S2) the all-clear is earned  a return that says "nothing found" (len, false, None) is reached only with the distance to the
                                end of the buffer proven to be zero after the accepted units;
  (S3) rejection is complete    a return that says "stop here" (an index, true, Some) is reached only when the path's
                                conditions exclude every acceptable continuation at the cursor: invalid lead, failed trail
                                test, proven truncation (distance to end smaller than the sequence), or — for the bidi checks —
                                every valid completion is right-to-left.

Method (no execution, no solver).  The body is cut at loop heads; each acyclic segment between cut points is evaluated
symbolically (paths.py).  Loads from the buffer are normalised to U_j = unit at (cursor at segment start) + j by linear
normalisation of index expressions through re-slicing.  Conditions over a single unit are turned into exact interval sets by
the R-RANGE evaluator; the UTF8_DATA table tests are recognised by shape and interpreted through the relation proven for the
const-evaluated table (C14-D2); comparisons of cursor + c with len() bound the distance d to the end.  Facts that hold at a cut
point (lead local == U_0, U_0 in S, d in [lo, hi]) are the join over all incoming segments and are computed by fixpoint
iteration, i.e. they are inductive loop invariants found by the analysis, not assumed.  The semantic side (which unit tuples
are complete sequences, which scalars are right-to-left) is evaluated on products of interval sets.
"""
import os
import re
from mirlib import *
from paths import *
from shape import *
from ranges import ISet, _mk, leaves, ty_bits, strip_ty
import ranges as _ranges
from r_writers import T37

INF = None
IDENT_FNS = ('likely', 'unlikely')
FULL8 = ISet.of((0, 0xFF))
FULL16 = ISet.of((0, 0xFFFF))
CONT = ISet.of((0x80, 0xBF))
ASCII = ISet.of((0, 0x7F))
HIGH = ISet.of((0xD800, 0xDBFF))
LOW = ISet.of((0xDC00, 0xDFFF))
SURR = ISet.of((0xD800, 0xDFFF))
RTL_CHAR = ISet.of((0x0590, 0x08FF), 0x200F, 0x202B, 0x202E, 0x2067, (0xFB1D, 0xFDFF), (0xFE70, 0xFEFE),
                   (0x10800, 0x10FFF), (0x1E800, 0x1EFFF))


def lead_len(l):
    if l < 0x80:
        return 1
    if 0xC2 <= l <= 0xDF:
        return 2
    if 0xE0 <= l <= 0xEF:
        return 3
    if 0xF0 <= l <= 0xF4:
        return 4
    return 0


def allowed_second(l):
    if 0xC2 <= l <= 0xDF:
        return CONT
    for (l0, l1), (s0, s1), n in T37:
        if l0 <= l <= l1 and n >= 3:
            return ISet.of((s0, s1))
    return ISet()


VALID_LEADS = ISet.of((0, 0x7F), (0xC2, 0xF4))


# ---------------------------------------------------------------------------------------------- linear normalisation
class NonLinear(Exception):
    pass


def lin(e):
    """usize expression -> ({atom: coeff}, const).  Atoms are arbitrary sub-expressions."""
    k = e[0]
    if k == 'c' and isinstance(e[1], int):
        return {}, e[1]
    if k == 'bin' and e[1] in ('Add', 'Sub'):
        a, ca = lin(e[2])
        b, cb = lin(e[3])
        s = 1 if e[1] == 'Add' else -1
        out = dict(a)
        for t, c in b.items():
            out[t] = out.get(t, 0) + s * c
            if out[t] == 0:
                del out[t]
        return out, ca + s * cb
    if k == 'len':
        return slice_len(e[1])
    if k == 'call' and (e[1] or '').startswith('core::num::') and e[1].rsplit('::', 1)[-1] in ('wrapping_add', 'wrapping_sub') and 'usize' in e[1]:
        return lin(('bin', 'Add' if e[1].endswith('add') else 'Sub', e[2][0], e[2][1]))
    return {e: 1}, 0


def lin_add(a, b, s=1):
    out = dict(a[0])
    for t, c in b[0].items():
        out[t] = out.get(t, 0) + s * c
        if out[t] == 0:
            del out[t]
    return out, a[1] + s * b[1]


def lin_const(a):
    return a[1] if not a[0] else None


def slice_pos(e):
    """slice-valued expression -> (root, lin offset of its first unit inside root)"""
    e = strip_ref(e)
    while e[0] in ('deref', 'ref'):
        e = strip_ref(e[1])
    if e[0] == 'call':
        fn = e[1] or ''
        short = fn.rsplit('::', 1)[-1]
        if short in ('as_bytes',) and len(e[2]) == 1:
            return slice_pos(e[2][0])
        if 'index' in short and len(e[2]) == 2:
            rng = e[2][1]
            if rng[0] == 'agg' and rng[1].endswith(('RangeFrom::RangeFrom', 'Range::Range')):
                root, off = slice_pos(e[2][0])
                return root, lin_add(off, lin(rng[2][0]))
            if rng[0] == 'agg' and rng[1].endswith('RangeTo::RangeTo'):
                return slice_pos(e[2][0])
    if e[0] == 'cast' and 'Unsize' in e[1]:
        return slice_pos(e[2])
    g = get_call(e)
    if g is not None and g[1][0] == 'agg' and g[1][1].endswith(('RangeFrom::RangeFrom', 'Range::Range')):
        # (slice.get(lo..hi) as Some).0
        root, off = slice_pos(g[0])
        return root, lin_add(off, lin(g[1][2][0]))
    return e, ({}, 0)


def get_call(e):
    """e = (slice.get(ix) as Some).0  ->  (slice, ix)   (ix a position or a range aggregate)"""
    if e[0] == 'fld' and e[2] == '0' and e[1][0] == 'as' and e[1][2] == 'Some' and e[1][1][0] == 'call' and \
            (e[1][1][1] or '').startswith('core::slice::<impl [T]>::get') and (e[1][1][1] or '').rsplit('::', 1)[-1] == 'get' and len(e[1][1][2]) == 2:
        return e[1][1][2][0], e[1][1][2][1]
    return None


def slice_len(e):
    e = strip_ref(e)
    while e[0] in ('deref', 'ref'):
        e = strip_ref(e[1])
    g = get_call(e)
    if g is not None and g[1][0] == 'agg' and g[1][1].endswith('Range::Range'):
        return lin_add(lin(g[1][2][1]), lin(g[1][2][0]), -1)
    if e[0] == 'call':
        fn = e[1] or ''
        short = fn.rsplit('::', 1)[-1]
        if short in ('as_bytes',) and len(e[2]) == 1:
            return slice_len(e[2][0])
        if 'index' in short and len(e[2]) == 2:
            rng = e[2][1]
            if rng[0] == 'agg' and rng[1].endswith('RangeFrom::RangeFrom'):
                return lin_add(slice_len(e[2][0]), lin(rng[2][0]), -1)
            if rng[0] == 'agg' and rng[1].endswith('Range::Range'):
                return lin_add(lin(rng[2][1]), lin(rng[2][0]), -1)
            if rng[0] == 'agg' and rng[1].endswith('RangeTo::RangeTo'):
                return lin(rng[2][0])
    return {('len', e): 1}, 0


def load_pos(e):
    """unit load -> (root, lin index) else None"""
    if e[0] == 'idx':
        root, off = slice_pos(e[1])
        return root, lin_add(off, lin(e[2]))
    if e[0] == 'deref' and e[1][0] == 'call' and (e[1][1] or '').endswith(('::get_unchecked', '::get_unchecked_mut')) and len(e[1][2]) == 2:
        root, off = slice_pos(e[1][2][0])
        return root, lin_add(off, lin(e[1][2][1]))
    if e[0] == 'deref':
        g = get_call(e[1])
        if g is not None and g[1][0] != 'agg':
            # *(slice.get(i) as Some).0
            root, off = slice_pos(g[0])
            return root, lin_add(off, lin(g[1]))
    return None


def unwrap_ident(e):
    while e[0] == 'call' and (e[1] or '').rsplit('::', 1)[-1] in IDENT_FNS and len(e[2]) == 1:
        e = e[2][0]
    return e


# ---------------------------------------------------------------------------------------------- abstract state
class State:
    def __init__(self, bits):
        self.bits = bits
        self.full = FULL8 if bits == 8 else FULL16
        self.S = {}          # j -> ISet
        self.T = []          # (3|4, j, accepted)
        self.d = [0, INF]    # distance from frame base to end of buffer
        self.done = 0        # units [0, done) already discharged as accepted (after a mid-path rebase: 0)
        self.exhausted = False   # a skip primitive reported that everything from the frontier on is skippable

    def get(self, j):
        return self.S.get(j, self.full)

    def meet(self, j, s):
        self.S[j] = self.get(j) & s

    def feasible(self):
        if any(not s for s in self.S.values()):
            return False
        lo, hi = self.d
        return hi is INF or lo is INF or lo <= hi

    def d_meet(self, lo, hi):
        if lo is not INF:
            self.d[0] = lo if self.d[0] is INF else max(self.d[0], lo)
        if hi is not INF:
            self.d[1] = hi if self.d[1] is INF else min(self.d[1], hi)

    def shifted(self, k):
        n = State(self.bits)
        n.S = {j - k: s for j, s in self.S.items() if j - k >= 0 and s != self.full}
        n.d = [None if self.d[0] is INF else self.d[0] - k, None if self.d[1] is INF else self.d[1] - k]
        return n


def join_inv(a, b):
    """join of two cut-point invariants (dict: 'S' {j:ISet}, 'd' [lo,hi], 'eq' {local: expr})"""
    if a is None:
        return b
    S = {}
    for j in set(a['S']) & set(b['S']):
        S[j] = a['S'][j] | b['S'][j]
    d = [None if a['d'][0] is INF or b['d'][0] is INF else min(a['d'][0], b['d'][0]),
         None if a['d'][1] is INF or b['d'][1] is INF else max(a['d'][1], b['d'][1])]
    eq = {l: e for l, e in a['eq'].items() if b['eq'].get(l) == e}
    acc = {l: v for l, v in a.get('acc', {}).items() if b.get('acc', {}).get(l) == v}
    return {'S': S, 'd': d, 'eq': eq, 'acc': acc}


# ---------------------------------------------------------------------------------------------- semantics on interval products
def scalars2(l, sec):
    return ISet([(((l & 0x1F) << 6) | (a & 0x3F), ((l & 0x1F) << 6) | (b & 0x3F)) for a, b in sec.iv])


def scalars3(l, sec, third):
    out = []
    for a, b in sec.iv:
        for s in range(a, b + 1):
            base = ((l & 0xF) << 12) | ((s & 0x3F) << 6)
            out += [(base | (x & 0x3F), base | (y & 0x3F)) for x, y in third.iv]
    return ISet(out)


def scalars4(l, sec, third, fourth):
    out = []
    for a, b in sec.iv:
        for s in range(a, b + 1):
            for x, y in third.iv:
                for t in range(x, y + 1):
                    base = ((l & 7) << 18) | ((s & 0x3F) << 12) | ((t & 0x3F) << 6)
                    out += [(base | (p & 0x3F), base | (q & 0x3F)) for p, q in fourth.iv]
    return ISet(out)


class Sem:
    """what the function is allowed to skip (accept) and what it must stop at (reject)"""

    def __init__(self, name, bits, assume_valid=False, nonrtl=False, latin1=False):
        self.name, self.bits, self.assume_valid, self.nonrtl, self.latin1 = name, bits, assume_valid, nonrtl, latin1

    # -- UTF-8 ---------------------------------------------------------------------------------
    def seq_sets(self, st, p, l, n):
        """(feasible valid trail sets for lead l at p, proven_valid) under the facts"""
        tacc = [t for t in st.T if t[1] == p and t[2]]
        secs = st.get(p + 1) if n >= 2 else None
        sets = [st.get(p + i) for i in range(1, n)]
        proven = [False] * (n - 1)
        for kind, _, _ in tacc:
            # relation proven for the table: accepted <=> second allowed after lead, third (and fourth for kind 4) continuation
            for i in range(min(kind, n) - 1):
                proven[i] = True
        if self.assume_valid:
            proven = [True] * (n - 1)
        valid = [allowed_second(l)] + [CONT] * (n - 2) if n >= 2 else []
        eff = []
        ok = True
        for i in range(n - 1):
            if proven[i]:
                eff.append(sets[i] & valid[i])
            else:
                eff.append(sets[i] & valid[i])
                if (sets[i] - valid[i]):
                    ok = False     # an invalid trail unit is not excluded
        return eff, ok

    def rtl_of(self, l, n, eff):
        if n == 1:
            return ISet.of(l)
        if n == 2:
            return scalars2(l, eff[0])
        if n == 3:
            return scalars3(l, eff[0], eff[1])
        return scalars4(l, eff[0], eff[1], eff[2])

    def accept8(self, st, p0, k):
        """units [p0, k) are complete acceptable sequences under the path facts; returns None or a reason"""
        p = p0
        while p < k:
            L = st.get(p)
            tacc = [t for t in st.T if t[1] == p and t[2]]
            if tacc or self.assume_valid:
                L = L & VALID_LEADS & ISet.of((0x80, 0xFF)) if tacc else L & VALID_LEADS
            if self.assume_valid:
                pass
            if not L:
                return None     # no feasible lead: path cannot be taken
            lens = set()
            for a, b in L.iv:
                for l in range(a, b + 1):
                    lens.add(lead_len(l))
            if 0 in lens:
                return 'unit %d may be an invalid lead %r and is skipped' % (p, L - VALID_LEADS)
            if len(lens) != 1:
                return 'unit %d may be leads of different lengths (%r), but the cursor moves by a fixed amount' % (p, L)
            n = lens.pop()
            if p + n > k:
                return 'the cursor moves %d past unit %d whose lead class %r needs %d units' % (k - p, p, L, n)
            if self.latin1 and n >= 2 and (L - ISet.of((0xC2, 0xC3))):
                return 'non-Latin1 lead %r skipped' % (L - ISet.of((0xC2, 0xC3)))
            if self.latin1 and n > 2:
                return 'non-Latin1 lead skipped'
            for a, b in L.iv:
                for l in range(a, b + 1):
                    if n == 1:
                        continue
                    eff, ok = self.seq_sets(st, p, l, n)
                    if not ok:
                        return 'a trail unit after lead %02X at unit %d is not constrained to its valid range before the cursor moves past it' % (l, p)
                    if self.nonrtl and all(eff):
                        r = self.rtl_of(l, n, eff) & RTL_CHAR
                        if r:
                            return 'right-to-left scalars %r (lead %02X) are skipped as not right-to-left' % (r, l)
            p += n
        return None

    def reject8(self, st, p, r_hi):
        """the facts exclude every acceptable sequence starting at unit p (r_hi = proven upper bound of units remaining from p)"""
        L = st.get(p)
        if self.assume_valid:
            L = L & VALID_LEADS
        trej = [t for t in st.T if t[1] == p and not t[2]]
        for a, b in L.iv:
            for l in range(a, b + 1):
                n = lead_len(l)
                if n == 0:
                    continue
                if r_hi is not INF and r_hi < n:
                    if self.assume_valid:
                        return 'valid input cannot be truncated, yet lead %02X with fewer than %d units left stops the scan' % (l, n)
                    continue
                if n == 1:
                    return 'stops at unit %d although it may be the ASCII byte %02X' % (p, l)
                if self.latin1:
                    if not (0xC2 <= l <= 0xC3):
                        continue
                if trej and not self.assume_valid:
                    continue       # table test failed: second/third(/fourth) not all valid for this lead
                eff, _ = self.seq_sets(st, p, l, n)
                if not all(eff):
                    continue       # some trail unit cannot be valid
                if self.nonrtl:
                    sc = self.rtl_of(l, n, eff)
                    if not (sc - RTL_CHAR):
                        continue   # every valid completion is right-to-left
                    return 'stops with "right-to-left or invalid" at lead %02X although the path admits the valid left-to-right scalars %r' % (l, ISet((sc - RTL_CHAR).iv[:3]))
                return 'stops at unit %d although lead %02X may start a valid sequence (trail units admit %s, remaining <= %s)' % (p, l, eff, r_hi)
        return None

    # -- UTF-16 --------------------------------------------------------------------------------
    def accept16(self, st, p0, k):
        p = p0
        while p < k:
            L = st.get(p)
            if not L:
                return None
            if not (L & SURR):
                p += 1
                continue
            if L & LOW:
                return 'unit %d may be an unpaired low surrogate %r and is skipped' % (p, L & LOW)
            if L - HIGH:
                return 'unit %d may be a high surrogate or a BMP unit (%r) but the cursor moves by a fixed amount' % (p, L)
            if p + 2 > k:
                return 'high surrogate at unit %d skipped alone' % p
            if st.get(p + 1) - LOW:
                return 'unit after a high surrogate is not constrained to DC00-DFFF (%r) before the cursor moves past the pair' % st.get(p + 1)
            p += 2
        return None

    def reject16(self, st, p, r_hi):
        L = st.get(p)
        if L - SURR:
            return 'stops at unit %d although it may be the non-surrogate %r' % (p, ISet((L - SURR).iv[:2]))
        if L & HIGH:
            if r_hi is not INF and r_hi < 2:
                return None
            if st.get(p + 1) & LOW:
                return 'stops at a high surrogate although the next unit may be a low surrogate %r' % (st.get(p + 1) & LOW)
        return None

    def accept(self, st, p0, k):
        return self.accept8(st, p0, k) if self.bits == 8 else self.accept16(st, p0, k)

    def reject(self, st, p, r_hi):
        return self.reject8(st, p, r_hi) if self.bits == 8 else self.reject16(st, p, r_hi)


# ---------------------------------------------------------------------------------------------- table-test recognition
def _tbl(e):
    """UTF8_DATA.table[x] / *table.get_unchecked(x) -> index expression"""
    if e[0] == 'deref' and e[1][0] == 'call' and (e[1][1] or '').endswith('::get_unchecked') and 'UTF8_DATA' in repr(e[1][2][0]):
        return e[1][2][1]
    if e[0] == 'idx' and 'UTF8_DATA' in repr(e[1]):
        return e[2]
    return None


def _unext(x):
    if x[0] == 'cast' and x[3] == 'usize':
        return x[2]
    if x[0] == 'call' and (x[1] or '').endswith('::from') and len(x[2]) == 1:
        return x[2][0]
    return None


def _flat_or(e):
    if e[0] == 'bin' and e[1] == 'BitOr':
        return _flat_or(e[2]) + _flat_or(e[3])
    if e[0] == 'call' and (e[1] or '').endswith('::from') and len(e[2]) == 1:
        return _flat_or(e[2][0])
    if e[0] == 'cast' and e[1] == 'IntToInt':
        return _flat_or(e[2])
    return [e]


def table_test(e):
    """-> (kind 3|4, lead expr, second expr, third expr, fourth expr|None, accepted_when_true) or None"""
    if not (e[0] == 'bin' and e[1] in ('Ne', 'Eq') and e[3][0] == 'c' and 'UTF8_DATA' in repr(e[2])):
        return None
    terms = _flat_or(e[2])
    ands = [x for x in terms if x[0] == 'bin' and x[1] == 'BitAnd' and _tbl(x[2]) is not None and _tbl(x[3]) is not None]
    if len(terms) == 1 and len(ands) == 1 and e[3][1] == 0:
        # the pair relation on its own: (table[second] & table[lead + 0x80]) == 0  <=>  second is allowed after lead (C14-D2.table.pairs);
        # the other trail bytes are then tested separately
        lead = second = None
        for ix in (_tbl(ands[0][2]), _tbl(ands[0][3])):
            if ix[0] == 'bin' and ix[1] == 'Add' and ix[3] == ('c', 0x80, 'usize'):
                lead = _unext(ix[2])
            else:
                second = _unext(ix)
        if lead is None or second is None:
            return None
        return 2, lead, second, None, None, e[1] == 'Eq'
    shr = [x for x in terms if x[0] == 'bin' and x[1] == 'Shr' and x[3][0] == 'c' and x[3][1] == 6]
    shl = [x for x in terms if x[0] == 'bin' and x[1] == 'Shl' and x[3][0] == 'c' and x[3][1] == 2]
    if len(ands) != 1 or len(shr) != 1:
        return None
    lead = second = None
    for ix in (_tbl(ands[0][2]), _tbl(ands[0][3])):
        if ix[0] == 'bin' and ix[1] == 'Add' and ix[3] == ('c', 0x80, 'usize'):
            lead = _unext(ix[2])
        else:
            second = _unext(ix)
    if lead is None or second is None:
        return None
    third = shr[0][2]
    acc_true = e[1] == 'Eq'
    if e[3][1] == 2 and len(terms) == 2 and not shl:
        return 3, lead, second, third, None, acc_true
    if e[3][1] == 0x202 and len(terms) == 3 and len(shl) == 1:
        inner = shl[0][2]
        while inner[0] == 'cast' or (inner[0] == 'call' and (inner[1] or '').endswith('::from')):
            inner = inner[2] if inner[0] == 'cast' else inner[2][0]
        if inner[0] == 'bin' and inner[1] == 'BitAnd' and inner[3][0] == 'c' and inner[3][1] == 0xC0:
            return 4, lead, second, third, inner[2], acc_true
    return None


# ---------------------------------------------------------------------------------------------- the segment interpreter
SKIP_FNS = {'ascii::validate_ascii': 'ascii', 'ascii::ascii_to_basic_latin': 'ascii-copy', 'ascii::ascii_to_ascii': 'ascii-copy'}


class Scanner:
    def __init__(self, facts, body, sem, kind, rep=None, rule='R-SCAN', cfg='default', out_full_ok=False, ret_field=None, skip_heads=(), delegates=()):
        self.delegates = tuple(delegates)
        self.delegated = 0
        self.f, self.b, self.sem, self.kind = facts, body, sem, kind
        self.rep, self.rule, self.cfg = rep, rule, cfg
        self.bits = sem.bits
        self.unit_ty = 'u8' if self.bits == 8 else 'u16'
        self.out_full_ok = out_full_ok
        self.ret_field = ret_field
        self.heads = [h for h in loop_heads(body)]
        self.skip_heads = set(skip_heads)
        self.frames = {}
        self.inv = {}
        self.obligations = []      # (key, ok, msg, bb)
        self.notes = []
        self.res = Resolver(body)
        self.nseg = 0
        self.problems = []
        self.returns_seen = 0
        self.returns_decided = 0

    # -- expression helpers ---------------------------------------------------------------------
    def expand(self, e):
        """replace ('init', l) of single-definition locals whose definition only mentions arguments by that definition"""
        if not isinstance(e, tuple) or not e:
            return e
        if e[0] == 'init':
            l = e[1]
            sd = self.b.single_def(l)
            if sd is not None:
                v = self.res.local(l)
                if all(x[0] != 'loc' or x[1] <= self.b.arg_count for x in walk(v) if isinstance(x, tuple) and x and x[0] == 'loc'):
                    return v
            return e
        return tuple(self.expand(x) if isinstance(x, tuple) else x for x in e)

    def rel(self, root, l, base):
        """offset of position (root, l) relative to the frame base, if constant"""
        if root != base[0]:
            return None
        return lin_const(lin_add(l, base[1], -1))

    def rw(self, e, base, alias):
        """rewrite buffer loads at constant offsets from the frame base to ('U', j)"""
        if not isinstance(e, tuple) or not e:
            return e
        if e in alias:
            return alias[e]
        try:
            lp = load_pos(e)
        except (NonLinear, RecursionError):
            lp = None
        if lp is not None:
            j = self.rel(lp[0], lp[1], base)
            if j is not None and j >= 0:
                return ('U', j)
        return tuple(self.rw(x, base, alias) if isinstance(x, tuple) else x for x in e)

    def unit_set(self, cond, leaf, truth):
        bits = self.bits
        ra = _mk(self.f, self.b, self.res, leaf, bits, 1 << bits)
        v = ra.ev(cond)
        ts, fs, us = v.truth_set()
        if us:
            return None
        return ts if truth else fs

    def int_set(self, e, leaf, values, otherwise_of):
        """set of leaf values for which integer expression e takes one of `values` (or none of otherwise_of)"""
        ra = _mk(self.f, self.b, self.res, leaf, self.bits, 1 << self.bits)
        v = ra.ev(e)
        if values is not None:
            out = ISet()
            for val in values:
                s_, u = v.value_set_where(val)
                if u:
                    return None
                out = out | s_
            return out
        out = ISet()
        for val in otherwise_of:
            s_, u = v.value_set_where(val)
            if u:
                return None
            out = out | s_
        return (FULL8 if self.bits == 8 else FULL16) - out

    # -- frames ---------------------------------------------------------------------------------
    def buffer_roots(self):
        """slice-typed arguments / locals from which units are loaded"""
        return None

    def discover_frames(self, cuts):
        """(root expr, cursor local | None) per cut point.  The buffer root and the cursor are found once for the function (the
        slice whose units are loaded / handed to the skip primitive, and the loop-carried usize local their positions are linear
        in); at a cut point the cursor is part of the frame iff it is live there (otherwise it is re-bound before use and the
        frame is the start of the — possibly re-sliced — buffer)."""
        stop = set(self.heads)
        roots = {}
        curs = {}
        for h in cuts:
            for blks, end in enumerate_block_paths(self.b, h, stop=stop):
                p = summarize(self.b, blks, end)
                for ev in p.events:
                    exprs = []
                    if ev[0] == 'cond':
                        exprs = [ev[1]]
                    elif ev[0] == 'call':
                        exprs = list(ev[2])
                    elif ev[0] == 'set':
                        exprs = [ev[2]]
                    for e in exprs:
                        for s in walk(e):
                            if not isinstance(s, tuple) or not s:
                                continue
                            lp = None
                            try:
                                lp = load_pos(s)
                            except Exception:
                                lp = None
                            if lp is None and s[0] == 'call' and s[1] in SKIP_FNS:
                                lp = slice_pos(s[2][0])
                            if lp is None:
                                continue
                            root, l = lp
                            root = self.expand(root)
                            if root[0] not in ('loc', 'init'):
                                # a single-definition alias of (part of) an argument: let bytes = buffer.as_bytes()
                                try:
                                    root, off_ = slice_pos(root)
                                    l = lin_add(l, off_)
                                except Exception:
                                    pass
                            ty = None
                            if root[0] in ('loc', 'init'):
                                ty = strip_ty(self.b.locals[root[1]]['ty'])
                            if ty not in ('[%s]' % self.unit_ty, 'str'):
                                continue
                            roots[root] = roots.get(root, 0) + 1
                            for a in l[0]:
                                if a[0] == 'init' and self.b.locals[a[1]]['ty'] == 'usize':
                                    curs[a[1]] = curs.get(a[1], 0) + 1
        if not roots:
            return
        root = max(roots, key=lambda r: roots[r])
        self.main_root = root
        cs = sorted(curs, key=lambda c_: -curs[c_])
        self.cursor = cs[0] if cs else None
        self.cursor_candidates = cs
        live = live_in_blocks(self.b, self.cursor) if self.cursor is not None else set()
        for h in cuts:
            self.frames[h] = (root, self.cursor if (h in live and h != 0) else None)

    def frame_base(self, frame, env_eval):
        """frame -> (root, lin) at the current point, env_eval(local) gives the symbolic value of a local"""
        root, c = frame
        if root[0] == 'init':
            val = env_eval(root[1])
            r2, off = slice_pos(self.expand(val))
        else:
            r2, off = root, ({}, 0)
        if c is not None:
            off = lin_add(off, lin(self.expand(env_eval(c))))
        return r2, off

    # -- one segment ----------------------------------------------------------------------------
    def run_segment(self, h, blks, end):
        b = self.b
        frame = self.frames.get(h)
        if frame is None or frame == 'ambiguous':
            self.problem('no cursor frame at cut point bb%d' % h)
            return
        inv = self.inv.get(h)
        if inv is None:
            return
        st = State(self.bits)
        st.S = dict(inv['S'])
        st.d = list(inv['d'])
        env0 = {}
        for l, e in inv['eq'].items():
            env0[l] = e
        p = summarize(b, blks, end, env0)
        self.nseg += 1
        self.cur_frame = frame
        self.cur_h = h
        root, c = frame
        if h == 0 and root[0] == 'init':
            # entry: the buffer local is not yet initialised; the scan starts at the beginning of whatever it is bound to
            v = p.env.get(root[1])
            if v is None:
                return
            root = self.expand(slice_pos(self.expand(v))[0])
        base = (root, ({('init', c): 1}, 0) if c is not None else ({}, 0))
        kernel = h in self.kernel_heads

        def env_eval0(l):
            if l in p.env:
                return p.env[l]
            if l in env0:
                return env0[l]
            if 1 <= l <= b.arg_count:
                return ('loc', l)
            return ('init', l)
        if kernel:
            if end[0] not in ('stop', 'back') or end[1] in self.kernel_heads:
                return
            tf = self.frames.get(end[1])
            try:
                base = self.frame_base(tf, env_eval0)
            except Exception:
                return
            st.S, st.T, st.d = {}, [], [INF, INF]
        alias = {}
        pending_skip = None
        dead = False
        outfull = False
        site = lambda bb: sp_str(b.blocks[bb]['tsp'])

        def check_advance(k, bb, what):
            if k < st.done:
                self.ob('%s:cursor-moves-back@%s' % (self.b.name, what), False, 'cursor moves backwards by %d' % (st.done - k), bb)
                return
            if k == st.done:
                return
            why = self.sem.accept(st, st.done, k)
            self.ob('%s:advance:%s' % (self.b.name, what), why is None,
                    'the cursor moves past units that the conditions on this path do not prove skippable: %s' % why, bb,
                    {'units': k - st.done, 'facts': {j: repr(s) for j, s in sorted(st.S.items())}, 'path': blks[:12]})
            st.done = k

        for ev in p.events:
            if ev[0] == 'call' and ev[1] in SKIP_FNS:
                try:
                    r2, off = slice_pos(self.expand(ev[2][0]))
                except Exception:
                    continue
                k = self.rel(self.expand(r2), off, base)
                pending_skip = (('call', ev[1], ev[2], ev[3]), k, ev[3], (self.expand(r2), off))
                continue
            if ev[0] not in ('cond', 'assert'):
                continue
            cond, lab, bb = ev[1], ev[2], ev[3]
            is_assert = ev[0] == 'assert'
            if isinstance(cond, tuple) and cond[0] == 'variant':
                scrut = cond[1]
                if scrut[0] == 'call' and (scrut[1] or '').startswith('core::slice::<impl [T]>::get') and (scrut[1] or '').rsplit('::', 1)[-1] == 'get' and \
                        len(scrut[2]) == 2 and lab in ('Some', 'None'):
                    # slice.get(i) is Some exactly when i < len; slice.get(lo..hi) when hi <= len
                    sl_, ix_ = self.expand(scrut[2][0]), self.expand(scrut[2][1])
                    if ix_[0] == 'agg' and ix_[1].endswith('Range::Range'):
                        syn = ('bin', 'Le', ix_[2][1], ('len', strip_ref(sl_)))
                    elif ix_[0] == 'agg':
                        syn = None
                    else:
                        syn = ('bin', 'Lt', ix_, ('len', strip_ref(sl_)))
                    if syn is not None:
                        try:
                            dd = self.len_cmp(syn, base)
                        except Exception:
                            dd = None
                        if dd is not None:
                            self.apply_d(st, dd[0], dd[1], lab == 'Some')
                    continue
                if pending_skip is not None and scrut == pending_skip[0]:
                    callexpr, k, cbb, pos = pending_skip
                    if k is None:
                        self.ob('%s:skip-call-position@bb%d' % (b.name, cbb), False, 'the ASCII skip starts at a position that is not the cursor plus a constant', cbb)
                        return
                    check_advance(k, cbb, 'before-ascii-skip@k=%d' % k)
                    if lab == 'None':
                        st.copy_skip = SKIP_FNS[callexpr[1]] == 'ascii-copy'
                        st.exhausted = True
                        st.d = [k, k] if False else st.d
                        # everything from the frontier to the end is ASCII: frontier = end
                        base = (pos[0], lin_add(pos[1], slice_len_from(pos), 0)) if False else base
                        st.S = {}
                        st.T = []
                        st.done = k
                        st.all_rest_ok = True
                    elif lab == 'Some':
                        payload = ('fld', ('as', callexpr, 'Some'), '0')
                        p0 = ('fld', payload, '0')
                        p1 = ('fld', payload, '1')
                        base = (pos[0], lin_add(pos[1], ({self.expand(p1): 1}, 0)))
                        alias = {p0: ('U', 0), self.expand(p0): ('U', 0)}
                        st.S = {0: ISet.of((0x80, (1 << self.bits) - 1)) if self.bits == 8 else ISet.of((0x80, 0xFFFF))}
                        st.T = []
                        st.d = [1, INF]
                        st.done = 0
                        st.rebased = True
                    pending_skip = None
                continue
            if lab is None:
                continue
            e = unwrap_ident(self.expand(cond))
            # boolean conditions
            sw = b.blocks[bb]['t']
            if sw.get('sty') == 'bool' or is_assert:
                truth = bool(lab)
                if e[0] == 'c' and isinstance(e[1], int):
                    if bool(e[1]) != truth:
                        return          # branch on a constant (likely(true) / short-circuit temporaries): the other edge is infeasible
                    continue
                # 0. length of the sub-slice handed out by slice.get(lo..hi): exactly hi - lo (slice patterns test it)
                if e[0] == 'bin' and e[1] in ('Lt', 'Le', 'Gt', 'Ge', 'Eq', 'Ne'):
                    gl, gr = self.get_range_len(e[2]), self.get_range_len(e[3])
                    if (gl is None) != (gr is None):
                        other = unwrap_ident(self.expand(e[3] if gr is None else e[2]))
                        if other[0] == 'c' and isinstance(other[1], int):
                            a_, b_ = (gl, other[1]) if gr is None else (other[1], gr)
                            val = {'Lt': a_ < b_, 'Le': a_ <= b_, 'Gt': a_ > b_, 'Ge': a_ >= b_, 'Eq': a_ == b_, 'Ne': a_ != b_}[e[1]]
                            if val != truth:
                                return      # infeasible edge
                            continue
                # 1. distance to the end
                if e[0] == 'bin' and e[1] in ('Lt', 'Le', 'Gt', 'Ge', 'Eq', 'Ne'):
                    dd = self.len_cmp(e, base)
                    if dd is not None:
                        op, cst = dd      # (cst op d)
                        self.apply_d(st, op, cst, truth)
                        continue
                    if any(isinstance(s, tuple) and s and s[0] == 'len' for s in walk(e)) and self.mentions_other_len(e, base):
                        # only the edge on which the output cursor has reached the other buffer's length excuses a later stop;
                        # the edge that proves there IS room left does not
                        if self.full_edge(e, truth):
                            outfull = True
                # 2. table tests
                e2 = self.rw(e, base, alias)
                tt = table_test(e2)
                if tt is not None:
                    kind, lead, second, third, fourth, acc_true = tt
                    ok_shape = lead[0] == 'U' and second == ('U', lead[1] + 1) and (kind == 2 or third == ('U', lead[1] + 2)) and (fourth is None or fourth == ('U', lead[1] + 3))
                    if ok_shape:
                        st.T.append((kind, lead[1], truth == acc_true))
                    continue
                # 3. single-unit predicates
                ls = []
                for l_ in leaves(e2):
                    if l_ not in ls:
                        ls.append(l_)
                if len(ls) == 1 and ls[0][0] == 'U':
                    s = self.unit_set(e2, ls[0], truth)
                    if s is not None:
                        st.meet(ls[0][1], s)
                continue
            # integer switch on a unit expression
            e2 = self.rw(e, base, alias)
            ls = []
            for l_ in leaves(e2):
                if l_ not in ls:
                    ls.append(l_)
            if len(ls) == 1 and ls[0][0] == 'U':
                allvals = [v for v, _ in sw['targets']]
                if lab == 'else' or (isinstance(lab, tuple) and 'else' in lab):
                    extra = [x for x in (lab if isinstance(lab, tuple) else ()) if x != 'else']
                    s = self.int_set(e2, ls[0], None, [v for v in allvals if v not in extra])
                else:
                    s = self.int_set(e2, ls[0], list(lab) if isinstance(lab, tuple) else [lab], None)
                if s is not None:
                    st.meet(ls[0][1], s)
        if not st.feasible():
            return
        # ---- end of segment
        def env_eval(l):
            if l in p.env:
                return p.env[l]
            if l in env0:
                return env0[l]
            if 1 <= l <= b.arg_count:
                return ('loc', l)
            return ('init', l)

        if end[0] in ('stop', 'back'):
            tgt = end[1]
            if tgt in self.skip_heads:
                return
            tf = self.frames.get(tgt)
            if tf is None or tf == 'ambiguous':
                self.problem('no cursor frame at cut point bb%d' % tgt)
                return
            try:
                nb = self.frame_base(tf, env_eval)
            except Exception:
                nb = None
            k = self.rel(nb[0], nb[1], base) if nb is not None else None
            if getattr(st, 'all_rest_ok', False):
                return
            if kernel:
                k = 0
            if k is None:
                self.ob('%s:advance:non-constant@bb%d->bb%d' % (b.name, blks[0], tgt), False,
                        'the cursor at the next loop head is not the cursor at this one plus a constant (%s)' % (nb,), blks[-1])
                return
            check_advance(k, blks[-1], 'bb%d->bb%d:+%d:%s' % (h, tgt, k, self.path_sig(st, k)))
            ns = st.shifted(k)
            # loop-carried equalities
            eq = {}
            for l in range(len(b.locals)):
                ty = b.locals[l]['ty']
                if ty not in ('u8', 'u16'):
                    continue
                if l in p.env or l in env0:
                    v = self.rw(self.expand(env_eval(l)), base, alias)
                    us = [x for x in walk(v) if isinstance(x, tuple) and x and x[0] == 'U']
                    if us and all(u[1] - k >= 0 for u in us) and pure_unit_expr(v):
                        eq[l] = strip_sites(shift_u(v, k))
            acc = {}
            try:
                troot = tf[0]
                if troot[0] == 'init':
                    r2_, off_root = slice_pos(self.expand(env_eval(troot[1])))
                    r2_ = self.expand(r2_)
                else:
                    r2_, off_root = troot, ({}, 0)
                if r2_ == base[0] or h == 0:
                    A_end = lin_add((self.a0(h), 0), off_root)
                    for l in range(b.arg_count + 1, len(b.locals)):
                        if b.locals[l]['ty'] != 'usize' or not (l in p.env or l in inv.get('acc', {})):
                            continue
                        if len(b.defs.get(l, [])) < 2:
                            continue
                        try:
                            v_ = self.abs_lin(env_eval(l), h, inv)
                        except Exception:
                            continue
                        dl = lin_const(lin_add(v_, A_end, -1))
                        if dl is not None:
                            acc[l] = dl
            except Exception:
                acc = {}
            new = {'S': ns.S, 'd': ns.d, 'eq': eq, 'acc': acc}
            old = self.inv.get(tgt)
            j = join_inv(old, new)
            if old is None or j != old:
                self.inv[tgt] = j
                self.changed.add(tgt)
        elif end[0] == 'return':
            self.returns_seen += 1
            n0 = len(self.obligations) + self.delegated
            n_ob = len(self.obligations)
            self.verdict(st, p, base, alias, blks, env_eval, outfull)
            if os.environ.get('SCAN_DEBUG') and any(not o[1] for o in self.obligations[n_ob:]):
                import sys
                sys.stderr.write('SCAN_DEBUG %s path %s\n' % (b.name, blks))
                for ev in p.events:
                    if ev[0] in ('cond', 'assert'):
                        sys.stderr.write('   %s %r lab=%r bb=%r\n' % (ev[0], self.expand(ev[1]) if not (isinstance(ev[1], tuple) and ev[1][0] == 'variant') else ('variant', self.expand(ev[1][1])), ev[2], ev[3]))
            if len(self.obligations) + self.delegated > n0:
                self.returns_decided += 1
            else:
                self.problem('a feasible return path from bb%d produced no verdict obligation (path %s)' % (h, blks[:10]))

    def a0(self, h):
        """the absolute position of the buffer root at the start of a segment: 0 at the entry and whenever the root is an argument
        that is never re-bound (the scan then keeps an absolute index), an unknown otherwise (the root is re-sliced on the way)"""
        fr = self.frames.get(h)
        root = fr[0] if isinstance(fr, tuple) else None
        if h == 0 or (root is not None and root[0] == 'loc' and 1 <= root[1] <= self.b.arg_count and not self.b.defs.get(root[1])):
            return {}
        return {('A0',): 1}

    def abs_lin(self, val, h, inv):
        """linear form of a usize expression with loop-carried accumulators replaced by (absolute position of the buffer root at the
        start of this segment) + their invariant offset"""
        l = lin(self.expand(val))
        out = dict(l[0])
        const = l[1]
        A0 = self.a0(h)
        for atom in list(out):
            if atom[0] == 'init' and atom[1] in inv.get('acc', {}):
                c = out.pop(atom)
                for t_, v_ in A0.items():
                    out[t_] = out.get(t_, 0) + c * v_
                const += c * inv['acc'][atom[1]]
        return {t_: v_ for t_, v_ in out.items() if v_ != 0}, const

    def path_sig(self, st, k):
        return ','.join('%d:%r' % (j, st.get(j)) for j in range(k))

    def get_range_len(self, x):
        """x == len(payload of `slice.get(lo..hi)` matched as Some)  ->  the constant hi - lo, else None"""
        x = unwrap_ident(self.expand(x))
        if not (isinstance(x, tuple) and x[0] == 'len'):
            return None
        y = x[1]
        while isinstance(y, tuple) and y[0] in ('deref', 'ref'):
            y = y[1]
        if not (isinstance(y, tuple) and y[0] == 'fld' and y[2] == '0' and isinstance(y[1], tuple) and y[1][0] == 'as' and y[1][2] == 'Some'):
            return None
        c = y[1][1]
        if not (isinstance(c, tuple) and c[0] == 'call' and (c[1] or '').startswith('core::slice::<impl [T]>::get') and (c[1] or '').rsplit('::', 1)[-1] == 'get' and len(c[2]) == 2):
            return None
        ix = self.expand(c[2][1])
        if not (ix[0] == 'agg' and ix[1].endswith('Range::Range') and len(ix[2]) == 2):
            return None
        try:
            d = lin_add(lin(self.expand(ix[2][1])), lin(self.expand(ix[2][0])), -1)
        except Exception:
            return None
        return d[1] if d[0] == {} and d[1] >= 0 else None

    def full_edge(self, e, truth):
        """`X op len(other)` (or mirrored): is this the edge on which X has reached the length?  Unknown shapes count as full (no alarm)."""
        op = e[1]
        def has_len(x):
            return any(isinstance(s_, tuple) and s_ and s_[0] == 'len' for s_ in walk(self.expand(x)))
        l_left, l_right = has_len(e[2]), has_len(e[3])
        if l_left == l_right:
            return True
        if l_left:
            op = {'Lt': 'Gt', 'Le': 'Ge', 'Gt': 'Lt', 'Ge': 'Le'}.get(op, op)
        # now: X op len
        if op in ('Eq', 'Ge', 'Gt'):
            return truth
        if op in ('Lt', 'Le', 'Ne'):
            return not truth
        return True

    def mentions_other_len(self, e, base):
        for s in walk(e):
            if isinstance(s, tuple) and s and s[0] == 'len':
                try:
                    r, _ = slice_pos(self.expand(s[1]))
                except Exception:
                    return True
                if self.expand(r) != base[0]:
                    return True
        return False

    def len_cmp(self, e, base):
        """comparison `A op B` where one side is linear in len(root): -> (op', c) meaning  c op' d  with d = len(root) - base"""
        try:
            a = lin(self.expand(e[2]))
            c = lin(self.expand(e[3]))
        except Exception:
            return None
        diff = lin_add(a, c, -1)          # A - B
        L = ('len', base[0])
        coef = diff[0].get(L, 0)
        if coef not in (1, -1):
            return None
        # A - B = coef*len + rest ; express with d = len - basepos
        rest = ({t: v for t, v in diff[0].items() if t != L}, diff[1])
        rest = lin_add(rest, base[1], coef)     # rest + coef*basepos
        cst = lin_const(rest)
        if cst is None:
            return None
        # A - B = coef*d + cst ;  (A op B) <=> (coef*d + cst op 0)
        op = e[1]
        if coef == 1:
            # d + cst op 0  <=>  -cst flip(op) d   i.e.  d op -cst
            return ({'Lt': 'Gt', 'Le': 'Ge', 'Gt': 'Lt', 'Ge': 'Le', 'Eq': 'Eq', 'Ne': 'Ne'}[op], -cst)
        # -d + cst op 0  <=>  cst op d
        return (op, cst)

    def apply_d(self, st, op, c, truth):
        """constraint  c op d"""
        if not truth:
            op = {'Lt': 'Ge', 'Le': 'Gt', 'Gt': 'Le', 'Ge': 'Lt', 'Eq': 'Ne', 'Ne': 'Eq'}[op]
        if op == 'Lt':      # c < d
            st.d_meet(c + 1, INF)
        elif op == 'Le':
            st.d_meet(c, INF)
        elif op == 'Gt':    # c > d
            st.d_meet(INF, c - 1)
        elif op == 'Ge':
            st.d_meet(INF, c)
        elif op == 'Eq':
            st.d_meet(c, c)
        elif op == 'Ne':
            if st.d[0] == c:
                st.d[0] = c + 1
            if st.d[1] == c:
                st.d[1] = c - 1

    # -- verdicts -------------------------------------------------------------------------------
    def verdict(self, st, p, base, alias, blks, env_eval, outfull):
        b = self.b
        rv = p.env.get(0)
        bb = blks[-1]
        # where the value was built
        site_bb = bb
        for ev in reversed(p.events):
            if ev[0] == 'set' and ev[1] == 0:
                site_bb = ev[3]
                break
        if rv is None:
            return
        rv = self.expand(rv)
        if any(isinstance(x, tuple) and x and x[0] == 'call' and x[1] in self.delegates for x in walk(rv)):
            self.delegated += 1
            return
        kind = self.kind
        clear = None     # True: all-clear verdict, False: stop verdict with position, 'stop-bool'
        pos_k = None
        if kind == 'index':
            val = rv
            if self.ret_field is not None:
                val = rv[2][self.ret_field] if rv[0] == 'agg' and rv[1] == 'tuple' else ('fld', rv, str(self.ret_field))
            try:
                l = lin(val)
            except Exception:
                l = None
            if getattr(st, 'all_rest_ok', False) and getattr(st, 'copy_skip', False) and self.out_full_ok:
                # the copying skip primitive stopped at min(src, dst) without finding a non-ASCII unit: source exhausted or output full
                self.ob('%s:all-clear-after-copy@bb%d' % (b.name, site_bb), True, '', site_bb)
                return
            if getattr(st, 'all_rest_ok', False):
                # must return len(root)
                ok = l is not None and lin_add(l, ({('len', base[0]): 1}, 0), -1) == ({}, 0)
                if not ok and l is not None:
                    # len of the re-sliced argument
                    ok = False
                self.ob('%s:all-clear-value@bb%d' % (b.name, site_bb), ok or self.ret_is_len(val, base), 'after the skip primitive reported no offending unit the function must return the buffer length, returns %s' % expr_str(val, b)[:80], site_bb)
                return
            k = self.rel(base[0], l, base) if l is not None else None
            if k is None:
                self.note('%s: returned index %s is not cursor + constant' % (b.name, expr_str(val, b)[:80]))
                self.ob('%s:return-index-shape@bb%d' % (b.name, site_bb), False, 'returned index is not the cursor plus a constant: %s' % expr_str(val, b)[:100], site_bb)
                return
            pos_k = k
            clear = 'either'
        elif kind == 'bool_true_stops':
            if rv[0] == 'c':
                clear = not bool(rv[1])
            else:
                self.ob('%s:return-shape@bb%d' % (b.name, site_bb), False, 'non-constant boolean verdict %s' % expr_str(rv, b)[:80], site_bb)
                return
        elif kind == 'option_some_stops':
            vn = variant_name(rv)
            if vn == 'None':
                clear = True
            elif vn == 'Some':
                clear = False
                self.some_payload = rv[2][0] if rv[0] == 'agg' and rv[2] else None
            else:
                self.ob('%s:return-shape@bb%d' % (b.name, site_bb), False, 'verdict is neither None nor Some(..)', site_bb)
                return
        # current cursor delta
        if pos_k is None:
            pos_k = st.done
            if not getattr(st, 'rebased', False):
                try:
                    nb = self.frame_base(self.cur_frame, env_eval)
                    k_ = self.rel(nb[0], nb[1], base)
                    if k_ is not None and k_ >= st.done:
                        pos_k = k_
                except Exception:
                    pass
        if getattr(st, 'all_rest_ok', False):
            self.ob('%s:all-clear@bb%d' % (b.name, site_bb), clear in (True, 'either'), 'returns a stop verdict although the skip primitive found nothing', site_bb)
            return
        lo, hi = st.d
        if clear is True or clear == 'either':
            # exhausted?  need d pinned (or bounded above by the accepted length)
            k_end = None
            if clear == 'either':
                k_end = pos_k
                exhausted = hi is not INF and hi <= k_end
            else:
                exhausted = False
                if hi is not INF and hi <= max(pos_k, st.done):
                    # the cursor stands at (or past) the end
                    exhausted, k_end = True, max(pos_k, st.done)
                elif hi is not INF and lo is not INF and lo == hi:
                    # the distance is pinned: the verdict covers the d units examined on this path without moving the cursor
                    exhausted, k_end = True, hi
            if exhausted:
                why = self.sem.accept(st, st.done, max(k_end, st.done)) if k_end > st.done else None
                self.ob('%s:all-clear:%s@bb%d' % (b.name, self.path_sig(st, max(k_end, 0)), site_bb), why is None,
                        'the all-clear verdict is returned although the last %d unit(s) are not proven skippable: %s' % (k_end - st.done, why), site_bb,
                        {'d': [lo, hi]})
                return
            if clear is True:
                self.ob('%s:all-clear-not-at-end:%s@bb%d' % (b.name, self.path_sig(st, 1), site_bb), False,
                        'the all-clear verdict is returned although the path does not prove that the end of the buffer was reached '
                        '(distance to end in [%s, %s], %d unit(s) accepted on this path)' % (lo, hi, st.done), site_bb, {'d': [lo, hi], 'path': blks[:14]})
                return
        if clear is False and kind == 'option_some_stops' and getattr(self, 'some_payload', None) is not None:
            # the reported index must be the absolute position of the stop (the buffer may have been re-sliced on the way)
            try:
                inv_ = self.inv.get(self.cur_h) or {}
                val = self.abs_lin(self.some_payload, self.cur_h, inv_)
                stop = lin_add(lin_add((self.a0(self.cur_h), 0), base[1]), ({}, pos_k))
                diff = lin_add(val, stop, -1)
                dconst = lin_const(diff)
            except Exception:
                dconst, diff = None, None
            self.ob('%s:stop-index' % b.name, dconst == 0,
                    'the index reported in Some(..) is not the absolute position at which the scan stops (difference %s): %s' %
                    (dconst if dconst is not None else 'not constant', expr_str(self.some_payload, b)[:80]), site_bb)
        # stop verdict at position pos_k
        if clear is False or clear == 'either':
            if outfull and self.out_full_ok:
                why0 = self.sem.accept(st, st.done, pos_k) if pos_k > st.done else None
                self.ob('%s:stop-on-full-output@bb%d' % (b.name, site_bb), why0 is None, 'stops for lack of output space after skipping units not proven skippable: %s' % why0, site_bb)
                return
            if pos_k > st.done:
                why0 = self.sem.accept(st, st.done, pos_k)
                self.ob('%s:advance-before-stop:%s@bb%d' % (b.name, self.path_sig(st, pos_k), site_bb), why0 is None,
                        'the reported position lies past units that are not proven skippable: %s' % why0, site_bb)
                if why0 is not None:
                    return
            r_hi = None if hi is INF else hi - pos_k
            why = self.sem.reject(st, pos_k, r_hi)
            self.ob('%s:stop:%s|d<=%s@bb%d' % (b.name, ','.join('%d:%r' % (j, st.get(j)) for j in range(pos_k, pos_k + 2)), r_hi, site_bb), why is None,
                    'the scan stops here although the conditions on this path do not exclude an acceptable continuation: %s' % why, site_bb,
                    {'d': [lo, hi], 'T': st.T, 'path': blks[:14]})

    def ret_is_len(self, val, base):
        try:
            return lin(val) == ({('len', base[0]): 1}, 0)
        except Exception:
            return False

    # -- bookkeeping ----------------------------------------------------------------------------
    def ob(self, key, ok, msg, bb, extra=None):
        self.obligations.append((key, ok, msg, bb, extra))

    def problem(self, s):
        if s not in self.problems:
            self.problems.append(s)

    def note(self, s):
        if s not in self.notes:
            self.notes.append(s)

    def region_counts(self, h, stop):
        """number of acyclic paths from h to each block / from each block to a segment end, inside the region cut at `stop` and back edges"""
        b = self.b
        back = set(b.back_edges())
        succ = {}
        order = []
        seen = set()

        def dfs(x):
            stack = [(x, 0)]
            seen.add(x)
            while stack:
                v, i = stack.pop()
                ss = succ.setdefault(v, [s_ for s_ in b.succ[v] if (v, s_) not in back and s_ not in stop] if v == h or v not in stop else [])
                if i < len(ss):
                    stack.append((v, i + 1))
                    w = ss[i]
                    if w not in seen:
                        seen.add(w)
                        stack.append((w, 0))
                else:
                    order.append(v)
        dfs(h)
        out = {}
        for v in order:
            ends = sum(1 for s_ in b.succ[v] if (v, s_) in back or s_ in stop) + (1 if not b.succ[v] else 0)
            out[v] = ends + sum(out.get(w, 0) for w in succ[v])
        inn = {h: 1}
        for v in reversed(order):
            for w in succ[v]:
                inn[w] = inn.get(w, 0) + inn.get(v, 0)
        return inn, out, succ

    def refine_cuts(self, limit=1500):
        b = self.b
        for _ in range(12):
            stop = set(self.heads)
            worst = None
            for h in [0] + sorted(self.heads):
                inn, out, succ = self.region_counts(h, stop)
                if out.get(h, 0) <= limit:
                    continue
                npred = {}
                for v, ss in succ.items():
                    for w in ss:
                        npred[w] = npred.get(w, 0) + 1
                cands = [(inn[v] * out[v], v) for v in out if v != h and npred.get(v, 0) >= 2 and inn.get(v, 0) >= 2 and out[v] >= 2]
                if cands:
                    best = max(cands)
                    if worst is None or best > worst:
                        worst = best
            if worst is None:
                return
            self.heads.append(worst[1])
            self.heads.sort()

    def run(self, entry_inv=None, max_iter=40):
        b = self.b
        self.refine_cuts()
        cuts = [0] + [h for h in self.heads if h not in self.skip_heads]
        self.discover_frames(cuts)
        # iterator kernels (as_chunks / iter().next() loops) are decided by R-KERNEL, not here: no obligations inside them; what they
        # establish for the index-driven code after them is only what the conditions between the kernel's exit and the next cut
        # point say (evaluated relative to the cursor at that cut point)
        self.kernel_heads = set()
        for h in cuts:
            if h == 0:
                continue
            loop = natural_loop(b, h) if h in loop_heads(b) else set()
            for x in loop:
                t = b.blocks[x]['t']
                if 'call' in t and (b.callee(t) or '').endswith('::next') and 'Iterator' in (b.callee(t) or ''):
                    # only if the next() belongs to this loop's own iteration (innermost loop containing it)
                    inner = [hh for hh in loop_heads(b) if x in natural_loop(b, hh)]
                    if min(inner, key=lambda hh: len(natural_loop(b, hh))) == h:
                        self.kernel_heads.add(h)
        self.inv = {0: entry_inv or {'S': {}, 'd': [0, INF], 'eq': {}, 'acc': {}}}
        stop = set(self.heads)
        work = [0]
        it = 0
        visits = {}
        while work and it < 2000:
            it += 1
            h = work.pop(0)
            visits[h] = visits.get(h, 0) + 1
            if visits[h] > max_iter:
                # widen the distance bounds
                self.inv[h]['d'] = [INF, INF]
            self.changed = set()
            self.obligations = [o for o in self.obligations if not o[0].startswith('@%d|' % h)]
            mark = len(self.obligations)
            for blks, end in enumerate_block_paths(b, h, stop=stop):
                self.run_segment(h, blks, end)
            self.obligations[mark:] = [('@%d|%s' % (h, o[0]),) + o[1:] for o in self.obligations[mark:]]
            for t in sorted(self.changed):
                if t not in work:
                    work.append(t)
        out = {}
        for key, ok, msg, bb, extra in self.obligations:
            k2 = re.sub(r'@bb\d+', '', key.split('|', 1)[1])
            k2 = re.sub(r'bb\d+->bb\d+:', '', k2)
            if k2 in out and not out[k2][0]:
                continue
            if k2 in out and ok:
                continue
            out[k2] = (ok, msg, bb, extra)
        return out


def _places(x, out):
    if isinstance(x, dict):
        if 'l' in x and 'p' in x and isinstance(x['l'], int):
            out.append(x)
            for pe in x['p']:
                if isinstance(pe, dict) and 'index' in pe:
                    out.append({'l': pe['index'], 'p': []})
            return
        for v in x.values():
            _places(v, out)
    elif isinstance(x, list):
        for v in x:
            _places(v, out)


def live_in_blocks(body, local):
    """blocks at whose entry `local` is live (may be read before being overwritten)"""
    first = {}
    for bi, blk in enumerate(body.blocks):
        acc = None
        for st in blk['s']:
            if 'assign' in st:
                ps = []
                _places(st['rv'], ps)
                if any(p_['l'] == local for p_ in ps) or (st['assign']['l'] == local and st['assign']['p']):
                    acc = 'use'
                    break
                if st['assign']['l'] == local and not st['assign']['p']:
                    acc = 'def'
                    break
            else:
                ps = []
                _places(st, ps)
                if any(p_['l'] == local for p_ in ps):
                    acc = 'use'
                    break
        if acc is None:
            t = blk['t']
            ps = []
            _places({k: v for k, v in t.items() if k != 'dest'}, ps)
            if any(p_['l'] == local for p_ in ps):
                acc = 'use'
            elif 'dest' in t and t['dest']['l'] == local and not t['dest']['p']:
                acc = 'def'
        first[bi] = acc
    live = {bi for bi, a in first.items() if a == 'use'}
    changed = True
    while changed:
        changed = False
        for bi in range(len(body.blocks)):
            if bi in live or first[bi] == 'def':
                continue
            if any(s_ in live for s_ in body.succ[bi]):
                live.add(bi)
                changed = True
    return live


def pure_unit_expr(v):
    """expression built only from units, constants and pure integer operators"""
    if not isinstance(v, tuple) or not v:
        return True
    k = v[0]
    if k in ('U', 'c'):
        return True
    if k in ('bin', 'un'):
        return all(pure_unit_expr(x) for x in v[2:] if isinstance(x, tuple))
    if k == 'cast':
        return pure_unit_expr(v[2])
    if k == 'call':
        fn = v[1] or ''
        short = fn.rsplit('::', 1)[-1]
        if (fn.startswith('core::num::') and short in ('wrapping_sub', 'wrapping_add')) or (short == 'from' and 'From<' in fn):
            return all(pure_unit_expr(x) for x in v[2])
    return False


def strip_sites(e):
    """call expressions carry the block they were made in; pure calls are values, so drop it to compare across paths"""
    if not isinstance(e, tuple) or not e:
        return e
    if e[0] == 'call' and len(e) == 4:
        return ('call', e[1], tuple(strip_sites(x) for x in e[2]), 0)
    return tuple(strip_sites(x) if isinstance(x, tuple) else x for x in e)


def natural_loop(body, h):
    loop = {h}
    stack = [x for (x, hh) in body.back_edges() if hh == h]
    while stack:
        x = stack.pop()
        if x in loop:
            continue
        loop.add(x)
        stack.extend(body.pred[x])
    return loop


def shift_u(e, k):
    if not isinstance(e, tuple) or not e:
        return e
    if e[0] == 'U':
        return ('U', e[1] - k)
    return tuple(shift_u(x, k) if isinstance(x, tuple) else x for x in e)


# ---------------------------------------------------------------------------------------------- rule driver
SPECS = {
    # function: (semantics, verdict kind, scanner kwargs, floor = ~85% of the distinct obligations measured on the pinned tree:
    #            18, 13, 7, 5, 3, 83, 46; completeness is enforced separately: every feasible return path must yield a verdict obligation)
    'utf_8::utf8_valid_up_to': (Sem('valid UTF-8', 8), 'index', {'delegates': ('utf_8::fast_utf8_valid_up_to',)}, 15),
    'utf_8::convert_utf8_to_utf16_up_to_invalid': (Sem('valid UTF-8', 8), 'index', {'out_full_ok': True, 'ret_field': 0}, 11),
    'mem::utf16_valid_up_to': (Sem('valid UTF-16', 16), 'index', {}, 6),
    'mem::is_utf8_latin1_impl': (Sem('Latin1 as UTF-8', 8, latin1=True), 'option_some_stops', {}, 5),
    'mem::is_str_latin1_impl': (Sem('Latin1 in a str', 8, assume_valid=True, latin1=True), 'option_some_stops', {}, 3),
    'mem::is_utf8_bidi': (Sem('valid UTF-8 without right-to-left scalars', 8, nonrtl=True), 'bool_true_stops', {}, 70),
    'mem::is_str_bidi': (Sem('str without right-to-left scalars', 8, assume_valid=True, nonrtl=True), 'bool_true_stops', {}, 39),
}


def run_specs(rep, f, c, rule, names):
    """Run the scanner analysis for the named functions and turn its obligations into report obligations."""
    total = 0
    for fn0 in names:
        sem, kind, kw, measured = SPECS[fn0]
        for fn in impl_bodies(f, fn0):
            b = f.body(fn)
            if b is None:
                rep.undecidable(rule, fn, 'function not found', None, c)
                continue
            sc = Scanner(f, b, sem, kind, **kw)
            try:
                res = sc.run()
            except OverflowError as e:
                rep.undecidable(rule, fn, 'path bound exceeded: %s' % e, sp_str(b.raw['span']), c)
                continue
            if not getattr(sc, 'main_root', None):
                # no index-driven loads at all: in this configuration the function is a pure iterator kernel (decided by R-KERNEL)
                rep.ob(rule + '.kernel-only', fn, fn0 in KERNEL_ONLY.get(c, ()), 'no buffer loads found: expected an index-driven scanner in this configuration',
                       sp_str(b.raw['span']), None, c)
                continue
            for pr in sc.problems:
                rep.undecidable(rule, '%s:%s' % (fn, pr), pr, sp_str(b.raw['span']), c)
            n = 0
            for key, (ok, msg, bb, extra) in sorted(res.items()):
                n += 1
                ex = {'accepts': sem.name, 'verdict_kind': kind}
                if extra and not ok:
                    ex.update({k_: (v_ if isinstance(v_, (int, str, list)) else repr(v_)) for k_, v_ in extra.items()})
                rep.ob(rule, key, ok, msg, sp_str(b.blocks[bb]['tsp']) or sp_str(b.raw['span']), ex, c)
            total += n
            rep.count('scan.obligations:%s:%s' % (c, fn), n)
            rep.count('scan.segments:%s:%s' % (c, fn), sc.nseg)
            rep.count('scan.return_paths:%s:%s' % (c, fn), sc.returns_seen)
            rep.floor(rule, 'scanner obligations decided for %s' % fn, n, measured, c)
    return total


KERNEL_ONLY = {'simd': ('mem::is_str_latin1_impl',), 'simdstd': ('mem::is_str_latin1_impl',)}
