"""R-REQUEUE — bytes that a decoder reports as "consumed after the malformed sequence" are the ones it keeps, not the malformed ones.

A return Malformed(len, after) with after > 0 tells the caller that the malformed sequence is followed by `after` bytes that were
consumed but belong to what comes next; the decoder must therefore carry exactly those bytes in its state (re-queued as a new
pending lead, a pending ASCII unit, ...) and must not carry any byte of the malformed sequence itself.  For every acyclic region
path of a decoder body that ends in such a return the bytes taken for the current sequence are put in chronological order:
payload components of the pending-state variant the path matched (in declaration order), the byte already in hand at the loop
head, then the source reads in path order, minus the reads pushed back with unread().  The last `after` of them are the re-queued
bytes, the `len` before them the malformed sequence.  Every value stored into a state field on the path whose expression derives
from sequence bytes must derive only from re-queued bytes, and every re-queued byte must reach some state store.
"""
from mirlib import *
from paths import *
from shape import variant_name

SELF = ('deref', ('loc', 1))
DECODERS = ['gb18030::Gb18030Decoder', 'euc_jp::EucJpDecoder', 'big5::Big5Decoder', 'euc_kr::EucKrDecoder', 'shift_jis::ShiftJisDecoder',
            'iso_2022_jp::Iso2022JpDecoder', 'utf_8::Utf8Decoder', 'utf_16::Utf16Decoder']


def field_of(e):
    e = strip_ref(e)
    if e[0] == 'fld' and e[1] == SELF:
        return e[2]
    return None


def sources_in(e, reads, hand_locals):
    """byte sources an expression derives from: ('P', field, k) pending payload / state byte field, ('R', bb) read, ('H', l) in hand"""
    out = set()
    for s in walk(e):
        if not isinstance(s, tuple) or not s:
            continue
        if s[0] == 'fld' and s[1][0] == 'as' and field_of(s[1][1]) is not None and s[2].isdigit():
            out.add(('P', field_of(s[1][1]), int(s[2])))
        elif s[0] == 'fld' and s[2] == '0' and s[1][0] == 'call' and (s[1][1] or '').endswith('ReadHandle::read') and s[1][3] in reads:
            out.add(('R', s[1][3]))
        elif s[0] == 'init' and s[1] in hand_locals:
            out.add(('H', s[1]))
    return out


def is_source_leaf(s):
    if not isinstance(s, tuple) or not s:
        return False
    if s[0] == 'fld' and s[1][0] == 'as' and field_of(s[1][1]) is not None and s[2].isdigit():
        return True
    if s[0] == 'fld' and s[2] == '0' and s[1][0] == 'call' and (s[1][1] or '').endswith('ReadHandle::read'):
        return True
    return s[0] == 'init'


def run(rep, f, c, rule='R-REQUEUE'):
    n = 0
    for D in DECODERS:
        for sink in ('utf8', 'utf16'):
            fn = '%s::decode_to_%s_raw' % (D, sink)
            b = f.body(fn)
            if b is None:
                rep.undecidable(rule, fn, 'decode body not found', None, c)
                continue
            heads = set(loop_heads(b))
            hand = {i for i, l in enumerate(b.locals) if l['ty'] == 'u8' and i > b.arg_count and len(b.defs.get(i, [])) >= 2}
            seen = set()
            try:
                regions = [(h, enumerate_block_paths(b, h, stop=heads)) for h in [0] + sorted(heads)]
            except OverflowError:
                rep.undecidable(rule, fn, 'path bound exceeded', None, c)
                continue
            for h, paths in regions:
                for blks, end in paths:
                    if end[0] != 'return':
                        continue
                    last = b.blocks[blks[-2]] if len(blks) > 1 else None
                    p = summarize(b, blks, end)
                    rv = p.env.get(0)
                    if rv is None or rv[0] != 'agg' or not rv[2] or variant_name(rv[2][0]) != 'Malformed':
                        continue
                    mal = rv[2][0]
                    if not (mal[2][0][0] == 'c' and mal[2][1][0] == 'c'):
                        continue
                    ln, after = mal[2][0][1], mal[2][1][1]
                    if after == 0:
                        continue
                    if any(e[0] == 'cond' and isinstance(e[1], tuple) and e[1] and e[1][0] == 'c' and isinstance(e[2], bool) and bool(e[1][1]) != e[2] for e in p.events):
                        continue
                    reads = [e[3] for e in p.events if e[0] == 'call' and (e[1] or '').endswith('ReadHandle::read')]
                    unreads = sum(1 for e in p.events if e[0] == 'call' and (e[1] or '').endswith('UnreadHandle::unread'))
                    stores = [(field_of(e[1]), e[2], e[3]) for e in p.events if e[0] == 'store' and field_of(e[1]) is not None]
                    # chronological sequence
                    pend = set()
                    for fld, v, bb in stores:
                        pend |= {s for s in sources_in(v, set(reads), hand) if s[0] == 'P'}
                    for e in p.events:
                        if e[0] == 'cond':
                            pend |= {s for s in sources_in(e[1], set(reads), hand) if s[0] == 'P'} if isinstance(e[1], tuple) else set()
                    matched = [e for e in p.events if e[0] == 'cond' and isinstance(e[1], tuple) and e[1][0] == 'variant' and field_of(e[1][1]) is not None
                               and isinstance(e[2], str) and e[2] not in ('None', 'Some')]
                    seq = []
                    # a pending byte kept in an Option field (`lead_byte: Option<u8>`) that the path found occupied comes first
                    for e in p.events:
                        if e[0] == 'cond' and isinstance(e[1], tuple) and e[1][0] == 'variant' and field_of(e[1][1]) is not None and e[2] == 'Some':
                            fty = ''
                            for name_, a_ in f.adts.items():
                                if name_ == D:
                                    for v_ in a_.get('variants', []):
                                        for fd_ in v_.get('fields', []):
                                            if fd_['name'] == field_of(e[1][1]):
                                                fty = fd_['ty']
                            if fty.replace(' ', '') in ('Option<u8>', 'core::option::Option<u8>') and ('P', field_of(e[1][1]), 0) not in seq:
                                seq.append(('P', field_of(e[1][1]), 0))
                    if matched:
                        fld0 = field_of(matched[0][1][1])
                        adt = None
                        # number of payload components of the matched variant: from the ADT table
                        for name, a in f.adts.items():
                            if a.get('kind') == 'enum' and any(v['name'] == matched[0][2] for v in a['variants']) and name.split('::')[0] == D.split('::')[0]:
                                adt = a
                        k = 0
                        if adt:
                            k = len([v for v in adt['variants'] if v['name'] == matched[0][2]][0]['fields'])
                        seq += [('P', fld0, i) for i in range(k)]
                    in_hand = set()
                    for fld, v, bb in stores:
                        in_hand |= {s for s in sources_in(v, set(reads), hand) if s[0] == 'H'}
                    if h != 0 and not matched and not seq:
                        # byte(s) in hand at an inner loop head: at most one loop-carried byte local feeds the stores
                        seq += sorted(in_hand)[:1] if in_hand else [('H', None)]
                    kept_reads = reads[:len(reads) - unreads] if unreads else reads
                    seq += [('R', bb) for bb in kept_reads]
                    if len(seq) < after:
                        continue        # the re-queued bytes themselves are not all visible on this path
                    A = seq[len(seq) - after:]
                    # bytes of the malformed sequence that were consumed in an earlier call (a pending surrogate) are not on the path
                    M = seq[max(0, len(seq) - after - ln): len(seq) - after]
                    used = set()
                    bad = None
                    for fld, v, bb in stores:
                        ss = sources_in(v, set(reads), hand)
                        if not ss:
                            continue
                        ss_n = {s if s[0] != 'H' else next((x for x in seq if x[0] == 'H'), s) for s in ss}
                        used |= ss_n
                        wrong = [s for s in ss_n if s in M or (s not in A and s in seq)]
                        if wrong and bad is None:
                            bad = (fld, wrong, bb)
                    # a byte whose value the path has pinned to one constant (`b == 0x1B`) can be kept by a state transition alone
                    # (ISO-2022-JP: ESC after a lead byte is re-queued as decoder_state = EscapeStart)
                    pinned = set()
                    for e in p.events:
                        if e[0] == 'cond' and isinstance(e[1], tuple) and e[1] and e[1][0] == 'bin' and e[1][1] in ('Eq', 'Ne') and \
                                isinstance(e[2], bool) and (e[2] == (e[1][1] == 'Eq')) and (e[1][3][0] == 'c' or e[1][2][0] == 'c'):
                            side = e[1][2] if e[1][3][0] == 'c' else e[1][3]
                            while side[0] == 'cast':
                                side = side[2]
                            if is_source_leaf(side):        # the byte itself, not a masked or combined value
                                pinned |= sources_in(side, set(reads), hand)
                        elif e[0] == 'cond' and isinstance(e[1], tuple) and e[1] and e[1][0] != 'variant' and isinstance(e[2], int) and not isinstance(e[2], bool):
                            side = e[1]
                            while side[0] == 'cast':
                                side = side[2]
                            if is_source_leaf(side):
                                pinned |= sources_in(side, set(reads), hand)
                    if stores:
                        used |= {s if s[0] != 'H' else next((x for x in seq if x[0] == 'H'), s) for s in pinned}
                    missing = [s for s in A if s not in used]
                    key = '%s:Malformed(%d,%d):%s' % (fn, ln, after, 'resume:' + matched[0][2] if matched else 'in-loop')
                    if key in seen and bad is None and not missing:
                        continue
                    seen.add(key)
                    n += 1
                    pos = lambda s: 'byte #%d of the sequence' % (seq.index(s) + 1) if s in seq else repr(s)
                    rep.ob(rule, key, bad is None and not missing,
                           ('the state field `%s` is set from %s, which belongs to the malformed sequence (bytes %s), not to the %d byte(s) reported as consumed after it' %
                            (bad[0], ', '.join(pos(s) for s in bad[1]), ', '.join(str(seq.index(s) + 1) for s in M), after)) if bad else
                           ('byte(s) %s are reported as consumed after the malformed sequence but reach no state field' % ', '.join(pos(s) for s in missing)),
                           sp_str(b.blocks[(bad[2] if bad else blks[-1])]['tsp']), {'sequence_length': len(seq), 'len': ln, 'after': after}, c)
    rep.count('requeue.paths:%s' % c, n)
    return n
