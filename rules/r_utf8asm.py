"""R-UTF8ASM — every place that assembles a scalar value (or UTF-16 unit) from the bytes of a UTF-8 sequence computes the
value the sequence denotes.

The counterpart of R-UTF8STORE for the reading direction.  The crate decodes UTF-8 by hand in a dozen places
(`((lead & 0x1F) << 6) | (second & 0x3F)` ...): the read handles of the encoders (handles::Utf8Source), the UTF-8 -> UTF-16
converters of utf_8.rs and mem.rs.  For every body in scope, every OR/ADD-combination of 2-4 terms in which each term is a
function of ONE byte-typed leaf, shifted left by a constant, is an assembly site if it looks like one (a term that maps a
continuation byte 80-BF to its six payload bits, or the shift pattern 6(n-1), .., 6, 0).  At a site with n terms
  * the shifts must be exactly 6(n-1), ..., 6, 0;
  * the term with the largest shift, as an exact function of its byte (R-RANGE), must be byte - C0 / E0 / F0 on the lead bytes of
    n-byte sequences (C2-DF, E0-EF, F0-F4): the payload bits of the lead;
  * every other term must be byte - 80 on 80-BF;
  * where the leaves are loads from one buffer, they must be consecutive positions in the order of decreasing shift.
The comparison is of functions over the byte domains, not of source text: `& 0x3F`, `& 0x7F`, `- 0x80`, `^ 0x80` are the same
continuation term.  Whether the bytes ARE a valid sequence at that point is the validators' obligation (C14 / R-SCAN)."""
from mirlib import *
from ranges import ISet, _mk, leaves
import scan
from r_xud import value_is

LEAD = {2: (ISet.of((0xC2, 0xDF)), 0xC0), 3: (ISet.of((0xE0, 0xEF)), 0xE0), 4: (ISet.of((0xF0, 0xF4)), 0xF0)}
CONT = ISet.of((0x80, 0xBF))
# bodies whose sequences are restricted further by what they accept (the lead domain is the one the body can reach the site with)
LEAD_OVERRIDE = {'mem::convert_utf8_to_latin1_lossy': {2: ISet.of((0xC2, 0xC3))}}


def strip_c(e, seen_u8):
    while True:
        if e[0] == 'cast' and e[1] == 'IntToInt':
            e = e[2]
        elif e[0] == 'call' and (e[1] or '').endswith('::from') and 'From<' in (e[1] or '') and len(e[2]) == 1:
            if 'From<u8>' in e[1]:
                seen_u8[0] = True
            e = e[2][0]
        else:
            return e


def flatten(e, s=0):
    """OR/ADD tree -> [(total left shift, term)] with constant shifts distributed over inner combinations"""
    u8 = [False]
    e0 = strip_c(e, u8)
    if e0[0] == 'bin' and e0[1] in ('BitOr', 'Add') and not (e0[1] == 'Add' and (e0[2][0] == 'c' or e0[3][0] == 'c')):
        return flatten(e0[2], s) + flatten(e0[3], s)
    if e0[0] == 'bin' and e0[1] == 'Shl' and e0[3][0] == 'c' and isinstance(e0[3][1], int):
        inner = flatten(e0[2], s + e0[3][1])
        if len(inner) > 1:
            return inner
        return [(s + e0[3][1], e0[2])]
    return [(s, e)]


def byte_values(b, r):
    """resolved values of the single-definition u8 locals: an expression equal to one of them is a byte"""
    out = set()
    for i, l in enumerate(b.locals):
        if l['ty'] == 'u8' and i > b.arg_count:
            sd = b.single_def(i)
            if sd is not None:
                try:
                    out.add(r.local(i))
                except RecursionError:
                    pass
    return out


def leaf_is_byte(b, leaf, wrapped_u8, bytevals=()):
    if wrapped_u8 or leaf in bytevals:
        return True
    if leaf[0] in ('loc', 'init'):
        return b.locals[leaf[1]]['ty'] == 'u8'
    if leaf[0] == 'idx' or (leaf[0] == 'deref' and leaf[1][0] == 'call' and (leaf[1][1] or '').endswith('get_unchecked')):
        for s_ in walk(leaf):
            if isinstance(s_, tuple) and s_ and s_[0] == 'loc' and isinstance(s_[1], int) and s_[1] < len(b.locals):
                ty = b.locals[s_[1]]['ty']
                if '[u8]' in ty or ty.strip('&').strip() == 'str' or 'str' == ty.replace('&', '').replace("'a ", '').strip():
                    return True
        return False
    return False


def sites(f, b):
    r = Resolver(b)
    found = []
    bytevals = byte_values(b, Resolver(b))
    for bi, blk in enumerate(b.blocks):
        for si, st in enumerate(blk['s']):
            if 'assign' not in st or st['rv'].get('bin') not in ('BitOr', 'Add'):
                continue
            r.cur = (bi, si)
            try:
                e = r.rvalue(st['rv'])
            except RecursionError:
                continue
            terms = flatten(e)
            if not 2 <= len(terms) <= 4:
                continue
            info = []
            for s, t in terms:
                u8 = [False]
                t0 = strip_c(t, u8)
                lv = set(leaves(t0))
                # From<u8> anywhere inside the term marks its leaf as a byte
                for s_ in walk(t0):
                    if isinstance(s_, tuple) and s_ and s_[0] == 'call' and 'From<u8>' in (s_[1] or ''):
                        u8[0] = True
                if len(lv) != 1:
                    info = None
                    break
                leaf = next(iter(lv))
                if not leaf_is_byte(b, leaf, u8[0], bytevals):
                    info = None
                    break
                info.append((s, t0, leaf))
            if info:
                found.append((bi, si, e, info, sp_str(st['sp'])))
    # an assembly is reported once: drop combinations that are sub-expressions of a larger one
    return [x for x in found if not any(x is not y and x[2] != y[2] and any(s_ == x[2] for s_ in walk(y[2])) for y in found)], r


def run(rep, f, c, rule='R-UTF8ASM', scope=None, floor=None):
    n = 0
    for name, b in sorted(f.bodies.items()):
        if scope is not None and not name.startswith(scope):
            continue
        try:
            ss, r = sites(f, b)
        except Exception as ex:            # a body the resolver cannot express is not an assembly site
            continue
        k = 0
        for bi, si, e, info, at in ss:
            nt = len(info)
            funcs = []
            for s, t0, leaf in info:
                ra = _mk(f, b, r, leaf, 8, 256)
                try:
                    av = ra.ev(t0)
                except Exception:
                    av = None
                funcs.append(av)
            if any(av is None or av.is_top() for av in funcs):
                continue
            cont_like = [value_is(av, CONT, -0x80, 1 << 32) for av in funcs]
            shifts = sorted((s for s, _, _ in info), reverse=True)
            want_shifts = [6 * (nt - 1 - i) for i in range(nt)]
            if not any(cont_like) and shifts != want_shifts:
                continue            # some other combination of bytes (UTF-16 code units, table indices ...)
            if all(av.const_value() is not None for av in funcs):
                continue
            k += 1
            n += 1
            order = sorted(range(nt), key=lambda i: -info[i][0])
            dom, base = LEAD[nt]
            dom = LEAD_OVERRIDE.get(name, {}).get(nt, dom)
            why = []
            if shifts != want_shifts:
                why.append('the shifts are %s, a %d-byte sequence needs %s' % (shifts, nt, want_shifts))
            li = order[0]
            if not value_is(funcs[li], dom, -base, 1 << 32):
                why.append('the lead term %s does not yield the payload bits of a %d-byte lead (byte - %02X on %r)' % (expr_str(info[li][1], b)[:60], nt, base, dom))
            for i in order[1:]:
                if not cont_like[i]:
                    why.append('the term %s does not yield the six payload bits of a continuation byte (byte - 80 on 80-BF)' % expr_str(info[i][1], b)[:60])
            # positions
            pos = []
            for i in order:
                try:
                    lp = scan.load_pos(info[i][2])
                except Exception:
                    lp = None
                pos.append(lp)
            res_pos = [(j, lp) for j, lp in enumerate(pos) if lp is not None]
            if len(res_pos) >= 2:
                j0, (root0, l0) = res_pos[0]
                for j, (root, l) in res_pos[1:]:
                    d = scan.lin_const(scan.lin_add(l, l0, -1)) if root == root0 else None
                    if d is None or d != j - j0:
                        why.append('byte %d of the sequence is not loaded from position + %d' % (j, j))
            rep.ob(rule, '%s:assembly#%d(%d bytes)' % (name, k, nt), not why,
                   'this expression does not compute the value of the %d-byte UTF-8 sequence it reads: %s' % (nt, '; '.join(why)), at,
                   {'bytes': nt, 'shifts': shifts, 'positions_checked': len(res_pos)}, c)
    if floor is not None:
        rep.floor(rule, 'UTF-8 assembly sites', n, floor, c)
    return n
