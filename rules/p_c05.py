"""C05 — output always well-formed; safe APIs never leave an invalid str or String (structural clauses)."""
import r_strsafe, r_writers, r_handle, r_inv, r_utf8store, r_boundary, r_kernel
import p_c10

MANIFEST = {
    'category': 'other',
    'text': 'Decided statically per build configuration (default and simd-accel): (D1) every &mut str receiver (Decoder::decode_to_str*, '
            'mem::convert_*_to_str_partial) zeroes, on every path after the conversion, the UTF-8 continuation bytes following `written`, '
            'and additionally MAX_STRIDE_SIZE bytes whenever the converter it calls can store beyond the count it reports in that '
            'configuration — that "may write beyond written" effect is computed from the stride kernels (whole-array store on a path to '
            'Some(position)) and propagated over the call graph; a skip guard is accepted only for `encoding != UTF_8` and only while the '
            'UTF-8 decoder lacks the effect (this rule found convert_utf16_to_str_partial leaving an invalid str under simd-accel; repaired '
            'by a fix: commit); (D2) every Vec::set_len is new_len = vec.len() + the converter\'s written component, written into '
            'minimally_init(spare_capacity_mut()), dominated by assert!(new_len <= capacity), with nothing that can reallocate in between and no '
            'crate code afterwards (panic safety: length update last); (D3) every str::from_utf8_unchecked is dominated by '
            'validator(x) == x.len() with a validator that implies UTF-8 validity; (D4, exact) the UTF-8 writers are evaluated as piecewise '
            'functions of their argument over its whole documented domain and every stored unit sequence is a row of Unicode Table 3-7 '
            '(joint lead/second-byte constraints included), the UTF-16 astral writer always stores a high+low surrogate, and together '
            'with the handle discipline (whole characters only after a space proof) a call can only end between characters; (D5) the '
            'documented panic on reuse of a finished decoder happens before any callee has received dst. That the stored values are the '
            'right scalar values (table look-ups, pointer arithmetic) is not decided. ' 
            '(R-UTF8STORE) the hand-inlined UTF-8 writers (convert_utf16_to_utf8_partial_inner/_tail behind every UTF-16 -> UTF-8 conversion and the UTF-8 encoder, convert_latin1_to_utf8_partial, convert_unaligned_utf16_to_utf8 of the UTF-16 decoder, and the three multi-byte writers of Utf8Destination) store, for every scalar of the domain the path conditions leave (80-7FF, 800-FFFF, the supplementary planes through the shape-checked surrogate-pair formula), exactly the bytes of its UTF-8 encoding: each stored byte is evaluated as an exact piecewise function of the input and compared piece by piece over the whole domain; constant runs are one complete sequence (EF BF BD). ' 
            '(R-BOUNDARY) the UTF-8 destination position only advances by boundary-preserving counts: one code unit inside write_code_unit, the UTF-8 validator\'s own answer for the slice that is copied (not a value clamped afterwards), an ASCII-kernel count, or the written count of the UTF-16 -> UTF-8 converter (all 7 assignments to Utf8Destination.pos classified). (R-UTF8STORE.surrogate) a UTF-16 code unit whose domain on the path still meets D800-DFFF is never stored as a UTF-8 sequence of its own (an unpaired surrogate must have become U+FFFD first). (R-INV.pending-bmp) on every path of the UTF-16 decoder that sets pending_bmp, the unit stored into lead_surrogate on that path is shown by the conditions of that path not to be a surrogate (the next call writes it out untested). (R-STRIDE.excess, simd-accel) on a Some path a stride kernel stores no destination sub-stride beyond the one holding the reported unit, which is the bound the one-stride scrub of D1 relies on.',
    'note': 'Trusted: rustc MIR, mirx, rule library, Unicode Table 3-7 as transcribed in rules/r_writers.py, the writers\' documented argument '
            'domains (debug_assert!s; decoders never produce surrogate code points).',
    'technique': 'per-configuration effect analysis over the call graph + dominance/post-dominance shape rules + exact interval evaluation of the UTF-8 writers',
}
CONFIGS = {'quick': ['default', 'simd'], 'thorough': ['default', 'simd', 'noalloc', 'fast', 'lessslow']}


def run(rep, facts, tier):
    for c, f in facts.items():
        r_strsafe.scrub(rep, f, c, 'R-STRSAFE.scrub')
        if c.startswith('simd'):
            # the scrub length (one stride) is sufficient only if the stride kernels store no more than the sub-stride holding the
            # offending unit beyond what they report: R-STRIDE.excess (with the other stride-level obligations)
            r_kernel.stride_level(rep, f, c, 'R-STRIDE')
        if c != 'noalloc':
            r_strsafe.set_len(rep, f, c, 'R-STRSAFE.set_len')
            r_strsafe.unchecked_str(rep, f, c, 'R-STRSAFE.unchecked')
        r_writers.run(rep, f, c, 'C05-D4')
        r_utf8store.run(rep, f, c)
        r_boundary.run(rep, f, c)
        r_inv.run(rep, f, c, 'R-INV')
        r_inv.pending_bmp(rep, f, c, 'R-INV')
        # whole characters only: handle discipline (shared with C06)
        r_handle.run(rep, f, c)
        # D5: Finished => panic with nothing done before
        for sink in ('utf8', 'utf16'):
            tr = p_c10.main_transitions(rep, f, c, sink)
            fn = 'Decoder::decode_to_%s_without_replacement' % sink
            if tr is None:
                continue
            fin = [t for t in tr if t[0] == 'Finished']
            into_fin = [t for t in tr if any(e == 'state:=Finished' for e in t[2])]
            # every way through the Finished arm (whatever else the path has looked at first) panics with nothing done
            rep.ob('C05-D5', fn, len(fin) >= 1 and all(t_[2] == () and t_[3] == 'panic' for t_ in fin) and not into_fin,
                   'reusing a finished decoder must panic before any callee receives dst (Finished arm: %r; transitions into Finished inside the dispatch loop: %r)' % (fin, into_fin),
                   None, {'finished_arm': [list(map(str, t)) for t in fin]}, c)
    return ('other', MANIFEST['text'], ['decoders never pass surrogate code points to the UTF-8 writers (numerical, C01)'])
