"""C03 — encoding conforms to the Standard (structural and class-level clauses)."""
import r_state, r_encclass, r_lookahead, r_surr, r_singlebyte, r_utf8store, r_utf8asm

MANIFEST = {
    'category': 'other',
    'text': 'Decided for every scalar value at once by exact interval propagation over the character variable of each encoder body '
            '(abstract interpretation on MIR; table look-ups are treated as opaque predicates): (D1) ISO-2022-JP escape sequences, state '
            'discipline and final return to ASCII (R-STATE, shared with C12); (D2) per ISO-2022-JP state the exact classes — forbidden '
            'controls {U+000E, U+000F, U+001B} -> Unmappable(U+FFFD) in Ascii and Roman, pass-through sets, U+00A5/U+203E forcing Roman and '
            'folding to 5C/7E there, 5C/7E forcing ASCII, supplementary characters unmappable; (D3) every Unmappable payload derives from '
            'the character fetched in that iteration (or is U+FFFD at the surrogate / forbidden-control sites); (D4) GBK vs gb18030: the '
            'single-byte euro only when !extended, four-byte forms never when !extended, U+E5E5 always unmappable; (D5) the folding constants '
            'of EUC-JP and Shift_JIS (U+00A5 -> 5C, U+203E -> 7E, U+2212 -> A1DD / 817C, half-width katakana, U+0080 in Shift_JIS) occur for '
            'exactly the code points the Standard names and no other constant folding exists. Index pointer selection and every mapped byte '
            'pair of the default (search-the-decode-table) encoders are numerical and not decided; the fast/less-slow encode tables are '
            'checked exhaustively under C17. ' 
            '(D6, R-SINGLEBYTE, exhaustive data-vs-data) for each of the 28 single-byte Encoding statics the run parameters handed to SingleByteEncoder (code units mapped without a table look-up) mirror the const-evaluated decode table entry by entry, and the encoder\'s search order finds, for every code unit of the table, the first pointer holding it (the Standard\'s index-pointer rule). ' 
            '(R-UTF8STORE) the hand-inlined UTF-8 writers (convert_utf16_to_utf8_partial_inner/_tail behind every UTF-16 -> UTF-8 conversion and the UTF-8 encoder, convert_latin1_to_utf8_partial, convert_unaligned_utf16_to_utf8 of the UTF-16 decoder, and the three multi-byte writers of Utf8Destination) store, for every scalar of the domain the path conditions leave (80-7FF, 800-FFFF, the supplementary planes through the shape-checked surrogate-pair formula), exactly the bytes of its UTF-8 encoding: each stored byte is evaluated as an exact piecewise function of the input and compared piece by piece over the whole domain; constant runs are one complete sequence (EF BF BD). (R-UTF8ASM) every place that assembles a value from the bytes of a UTF-8 sequence (OR/ADD of shifted byte terms) has the shifts 6(n-1)..0, a lead term equal to byte-C0/E0/F0 on the n-byte leads and continuation terms equal to byte-80 on 80-BF, compared as exact functions over the byte domains, loaded from consecutive positions where the loads resolve (here: handles::Utf8Source, 15 sites). (R-SINGLEBYTE.ascii-copy) the hand-written single-byte loops copy a source unit to the destination as it is only on paths whose conditions confine that unit to 00-7F. (D5.hanzi-block) the gb18030/GBK encoder routes exactly U+4E00-U+9FA5 to the hanzi encoder. (D6) five small tables that are searched whole behind a range guard (the gb18030-2022 PUA overrides, GB2312_SYMBOLS_AFTER_GREEK, the KS X 1001 lower-case, upper-case and box rows) keep every entry inside the exact set the guard admits (frozen instances).',
    'note': 'Trusted: rustc MIR, mirx, rule library, the Standard\'s encoder steps as transcribed in rules/r_state.py and rules/r_encclass.py.',
    'technique': 'abstract interpretation (exact interval sets, opaque table predicates) over MIR + path-summary pairing rules + value provenance',
}
CONFIGS = {'quick': ['default'], 'thorough': ['default', 'noalloc', 'simd', 'fast', 'lessslow']}


def run(rep, facts, tier):
    for c, f in facts.items():
        r_state.pairing(rep, f, c, 'R-STATE')
        r_state.char_classes(rep, f, c, 'C03-D2')
        r_encclass.payloads(rep, f, c, 'C03-D3')
        r_encclass.run(rep, f, c, 'C03-D5')
        n = r_lookahead.run(rep, f, c, 'R-LOOKAHEAD', lambda nm: nm.startswith(('handles::Utf16Source', 'single_byte::SingleByteEncoder')))
        rep.floor('R-LOOKAHEAD', 'surrogate look-ahead sites', n, 4, c)
        n = r_surr.run(rep, f, c, 'R-SURR', lambda nm: 'Encoder::' in nm or nm.startswith(('handles::Utf16Source', 'handles::Utf8Source', 'utf_8::convert_utf16_to_utf8')))
        rep.floor('R-SURR', 'surrogate tests on the encoder side', n, 10, c)
        r_singlebyte.run(rep, f, c)
        r_singlebyte.raw_copies(rep, f, c)
        r_encclass.guarded_tables(rep, f, c, 'C03-D6')
        r_utf8store.run(rep, f, c)
        r_utf8asm.run(rep, f, c, scope='handles::', floor=15)
    return ('other', MANIFEST['text'], [])
