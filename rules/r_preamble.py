"""R-PREAMBLE — deferred outputs are flushed before anything is read (DESIGN.md §5)."""
from mirlib import *
from paths import *
from shape import *

# decoder -> deferred-output field (confirmed by reading: the only fields written on a Malformed path that represent *output*)
DEFERRED = {
    'gb18030::Gb18030Decoder': 'pending_ascii',
    'iso_2022_jp::Iso2022JpDecoder': 'pending_prepended',
    'utf_16::Utf16Decoder': 'pending_bmp',
}
SELF = ('loc', 1)


def run(rep, f, c, rule):
    n = 0
    for ty, fld in sorted(DEFERRED.items()):
        for sink in ('decode_to_utf8_raw', 'decode_to_utf16_raw'):
            fn = '%s::%s' % (ty, sink)
            b = f.body(fn)
            if b is None:
                rep.undecidable(rule, fn, 'function not found', None, c)
                continue
            site = sp_str(b.raw['span'])
            F = ('fld', ('deref', SELF), fld)
            ca = [bi for bi, t in b.calls() if (b.callee(t) or '').endswith('ByteSource::check_available') or 'copy_ascii' in (b.callee(t) or '') or 'copy_utf' in (b.callee(t) or '')]
            if not ca:
                rep.undecidable(rule, fn, 'no source access found', site, c)
                continue
            try:
                ps = [summarize(b, blks, end) for blks, end in enumerate_block_paths(b, 0, stop=ca)]
            except OverflowError as e:
                rep.undecidable(rule, fn, str(e), site, c)
                continue
            kinds = set()
            ok = True
            why = ''
            for p in ps:
                if p.end[0] == 'diverge':
                    continue
                fc = [e for e in p.conds() if (e[1] == F) or (e[1][0] == 'variant' and e[1][1] == F)]
                if len(fc) != 1:
                    ok = False
                    why = 'the deferred-output field is not tested exactly once before the source is touched'
                    continue
                pending = (fc[0][2] is True) or (fc[0][2] == 'Some')
                writes = [e for e in p.calls() if 'Handle::write_' in (e[1] or '')]
                clears = [e for e in p.stores() if e[1] == F]
                if not pending:
                    kinds.add('idle')
                    if writes or clears or p.end[0] == 'return':
                        ok = False
                        why = 'output is written / the field is changed although nothing was pending'
                    continue
                cs = [e for e in p.calls() if 'Destination::check_space_' in (e[1] or '')]
                if len(cs) != 1:
                    ok = False
                    why = 'the flush path does not test for space exactly once'
                    continue
                res = ('call', cs[0][1], cs[0][2], cs[0][3])
                arm = [e for e in p.conds() if e[1][0] == 'variant' and e[1][1] == res]
                if len(arm) != 1:
                    ok = False
                    why = 'space test result not matched'
                    continue
                if arm[0][2] == 'Full':
                    kinds.add('full')
                    rv = p.env.get(0)
                    good = p.end[0] == 'return' and rv is not None and rv[0] == 'agg' and variant_name(rv[2][0]) == 'OutputFull' and rv[2][1] == C(0) and rv[2][2] == C(0) \
                        and not writes and not p.stores()
                    if not good:
                        ok = False
                        why = 'when the deferred output does not fit the call must return (OutputFull, 0, 0) and change nothing'
                else:
                    kinds.add('flush')
                    cleared = [e for e in clears if (is_c(e[2], 0) or variant_name(e[2]) == 'None')]
                    good = p.end[0] == 'stop' and len(cleared) == 1
                    # the unit is either written now or (ISO-2022-JP lead byte) turned back into decoder state
                    if not (writes or any(e[1] == ('fld', ('deref', SELF), 'decoder_state') for e in p.stores())):
                        good = False
                    if not good:
                        ok = False
                        why = 'the flush path does not clear the field exactly once and emit the deferred unit before the source is read'
            rep.ob(rule, '%s.%s' % (fn, fld), ok and kinds == {'idle', 'full', 'flush'}, why or 'missing cases: %r' % sorted(kinds), site,
                   {'paths': len(ps), 'cases': sorted(kinds)}, c)
            n += 1
    rep.floor(rule, 'deferred-output preambles', n, 6, c)
