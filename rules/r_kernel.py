"""R-KERNEL — the iterator kernels (as_chunks strides / double strides / tails with a `consumed` counter).

The bulk ASCII / Basic Latin / Latin1 / BMP kernels split the buffer with as_chunks / split_first into parts and walk the
parts with iterators.  What must hold for every buffer length is visible in the shape of the code:

  (K1) coverage    a verdict that quantifies over the whole buffer ("no offending unit": None / true / false / Latin1 /
                   LeftToRight, or a value computed from the last part) is returned only after every leaf part of the split
                   tree was consumed: must-pass-through over the CFG — with the exhaustion edges (next() -> None, whole-part
                   combinators all/any/reduce/for_each, the split_first None edge for its children) removed, the return is
                   unreachable from the entry;
  (K2) order       the loop over a later part is only entered through the exhaustion of the part before it (buffer order),
                   which is what gives the position counter its meaning;
  (K3) accounting  inside the loop over a part whose elements are s units wide, every continuing iteration adds exactly s to
                   the position counter and nothing else changes it; the single first stride sets it to s; an offending unit
                   is reported at counter + (position the stride function reported for the current element), resp. at
                   counter for single units;
  (K4) pairing     zipped source and destination parts are the same part of slices cut to the same length.

Early exits are the returns directly control-dependent on a content test of the current element.  Core iterator semantics
(next/zip/all/any/reduce) are trusted.
"""
import re
from mirlib import *
from paths import *
from shape import *

SPLIT2 = ('as_chunks', 'as_chunks_mut')
SPLITF = ('split_first', 'split_first_mut')
ITER_SRC = ('iter', 'iter_mut', 'into_iter')
ADAPT1 = ('enumerate', 'copied', 'cloned', 'map', 'into_iter', 'by_ref')
WHOLE = ('all', 'any', 'reduce', 'for_each', 'fold', 'position', 'count', 'sum')


def short(fn):
    return (fn or '').rsplit('::', 1)[-1]


def strip(e):
    e = strip_ref(e)
    while e[0] in ('deref', 'ref'):
        e = strip_ref(e[1])
    if e[0] == 'cast' and 'Unsize' in e[1]:
        return strip(e[2])
    return e


def part_of(e):
    """slice expression -> part path: ('arg', n) | ('prefix', P, len) | ('suffix', P, off) | ('chunks', P, k) | ('first', P, k)"""
    e = strip(e)
    if e[0] == 'loc':
        return ('arg', e[1])
    if e[0] == 'call':
        s = short(e[1])
        if s == 'as_bytes' and len(e[2]) == 1:
            return part_of(e[2][0])
        if s in ('index', 'index_mut') and len(e[2]) == 2:
            rng = e[2][1]
            p = part_of(e[2][0])
            if p is None:
                return None
            if rng[0] == 'agg' and rng[1].endswith('RangeTo::RangeTo'):
                return ('prefix', p, strip_sites(rng[2][0]))
            if rng[0] == 'agg' and rng[1].endswith('RangeFrom::RangeFrom'):
                return ('suffix', p, strip_sites(rng[2][0]))
            return None
    if e[0] == 'fld':
        x = e[1]
        if x[0] == 'call' and short(x[1]) in SPLIT2:
            p = part_of(x[2][0])
            return ('chunks', p, int(e[2])) if p is not None else None
        # (split_first(X) as Some).0.k
        if x[0] == 'fld' and x[2] == '0' and x[1][0] == 'as' and x[1][2] == 'Some' and x[1][1][0] == 'call' and short(x[1][1][1]) in SPLITF:
            p = part_of(x[1][1][2][0])
            return ('first', p, int(e[2])) if p is not None else None
    return None


def strip_sites(e):
    if not isinstance(e, tuple) or not e:
        return e
    if e[0] == 'call' and len(e) == 4:
        return ('call', e[1], tuple(strip_sites(x) for x in e[2]), 0)
    return tuple(strip_sites(x) if isinstance(x, tuple) else x for x in e)


def root_of(p):
    while p[0] != 'arg':
        p = p[1]
    return p


def sig_of(p):
    """part path without the root and the cut length: what position of the buffer the part is"""
    if p[0] == 'arg':
        return ()
    if p[0] in ('prefix', 'suffix'):
        return sig_of(p[1]) + ((p[0],),)
    return sig_of(p[1]) + ((p[0], p[2]),)


def part_str(p, b):
    if p[0] == 'arg':
        return b.locals[p[1]].get('name') or '_%d' % p[1]
    if p[0] == 'prefix':
        return part_str(p[1], b) + '[..len]'
    if p[0] == 'suffix':
        return part_str(p[1], b) + '[off..]'
    if p[0] == 'chunks':
        return part_str(p[1], b) + ('.strides' if p[2] == 0 else '.tail')
    return part_str(p[1], b) + ('.first' if p[2] == 0 else '.rest')


def iter_roots(e):
    """iterator expression -> list of parts it walks (zip: both), else None"""
    e = strip(e)
    if e[0] != 'call':
        p = part_of(e)
        return [p] if p is not None else None
    s = short(e[1])
    if s == 'zip' and len(e[2]) == 2:
        a, c = iter_roots(e[2][0]), iter_roots(e[2][1])
        return (a + c) if a and c else None
    if s in ('iter', 'iter_mut') and len(e[2]) == 1:
        p = part_of(e[2][0])
        return [p] if p is not None else None
    if s in ADAPT1 and len(e[2]) >= 1:
        r = iter_roots(e[2][0])
        if r is not None:
            return r
    p = part_of(e)
    return [p] if p is not None else None


def elem_units(ty):
    """Option<&[[u8; 16]; 2]> -> 32, Option<(&[u8; 16], &mut [u16; 16])> -> 16, Option<&u8> -> 1, Option<(usize, &u8)> -> 1"""
    m = re.search(r'Option<(.*)>$', ty)
    inner = m.group(1) if m else ty
    first = inner
    hops = 0
    while first.strip().startswith('(') and hops < 4:
        # (index, (src element, dst element)) for enumerate() over zip(): the first reference component, however deep
        comps = split_top(first.strip()[1:-1])
        cand = [x for x in comps if '&' in x]
        first = cand[0] if cand else comps[0]
        hops += 1
    dims = [int(x) for x in re.findall(r';\s*(\d+)\]', first)]
    n = 1
    for d in dims:
        n *= d
    return n


def split_top(s):
    out, depth, cur = [], 0, ''
    for ch in s:
        if ch in '([<':
            depth += 1
        elif ch in ')]>':
            depth -= 1
        if ch == ',' and depth == 0:
            out.append(cur.strip())
            cur = ''
        else:
            cur += ch
    if cur.strip():
        out.append(cur.strip())
    return out


class Kernel:
    def __init__(self, f, b):
        self.f, self.b = f, b
        self.r = Resolver(b)
        self.loops = []      # dict(bb, parts, none, some, units)
        self.wholes = []     # dict(bb, parts, fn)
        self.elems = []      # dict(bb, part, fn)
        self.splits = []     # dict(bb, parent, kind)
        self.collect()

    def collect(self):
        b, r = self.b, self.r
        for bi, t in b.calls():
            fn = b.callee(t) or ''
            s = short(fn)
            args = [r.operand(a) for a in t['args']]
            if s in SPLIT2 or s in SPLITF:
                p = part_of(args[0]) if args else None
                if p is not None:
                    self.splits.append({'bb': bi, 'parent': p, 'kind': 'chunks' if s in SPLIT2 else 'first'})
                continue
            if s == 'next' and 'Iterator' in fn and args:
                it = strip(args[0])
                roots = iter_roots(it)
                sw = t['target']
                st = b.blocks[sw]['t'] if sw is not None else {}
                none = some = None
                if st.get('variants'):
                    for lab, tgt in switch_edges(b, sw):
                        v = variant_of_edge(b, sw, lab)
                        if v == 'None':
                            none = tgt
                        elif v == 'Some':
                            some = tgt
                self.loops.append({'bb': bi, 'parts': roots, 'none': none, 'some': some, 'sw': sw,
                                   'units': elem_units(b.locals[t['dest']['l']]['ty']), 'res': ('call', fn, tuple(args), bi)})
                continue
            if s in WHOLE and args:
                roots = iter_roots(args[0])
                if roots:
                    self.wholes.append({'bb': bi, 'parts': roots, 'fn': s})
                continue
            if s in ITER_SRC or s in ADAPT1 or s == 'zip' or s in ('len', 'min', 'index', 'index_mut', 'as_bytes', 'is_empty'):
                continue
            for a in args:
                p = part_of(a)
                if p is not None and p[0] == 'first' and p[2] == 0:
                    self.elems.append({'bb': bi, 'part': p, 'fn': fn})

    def leaves(self):
        """leaf parts of the split tree rooted at immutable argument slices (source side)"""
        children = []
        parents = set()
        for s in self.splits:
            parents.add(s['parent'])
            kind = s['kind']
            children.append((kind, s['parent'], 0))
            children.append((kind, s['parent'], 1))
        leaves = [c for c in children if c not in parents]
        out = []
        for c in leaves:
            root = root_of(c)
            ty = self.b.locals[root[1]]['ty']
            if '&mut' in ty or "mut " in ty.split('[')[0]:
                continue
            if c not in out:
                out.append(c)
        return out

    def split_none_edges(self):
        """(switch block, None target, parent part) for every split_first"""
        b = self.b
        out = []
        for s in self.splits:
            if s['kind'] != 'first':
                continue
            t = b.blocks[s['bb']]['t']
            sw = t['target']
            st = b.blocks[sw]['t'] if sw is not None else {}
            if st.get('variants'):
                for lab, tgt in switch_edges(b, sw):
                    if variant_of_edge(b, sw, lab) == 'None':
                        out.append((sw, tgt, s['parent']))
            elif 'switch' in st:
                # `if let Some(..)` lowers to a two-way discriminant switch; find the arm that is not Some
                for lab, tgt in switch_edges(b, sw):
                    v = variant_of_edge(b, sw, lab)
                    if v == 'None' or (v is None and lab == 'else'):
                        out.append((sw, tgt, s['parent']))
        return out


def under(p, parent):
    while True:
        if p == parent:
            return True
        if p[0] == 'arg':
            return False
        p = p[1]


def reach_without(b, start, removed_edges, removed_nodes):
    seen = set()
    stack = [start]
    while stack:
        x = stack.pop()
        if x in seen or x in removed_nodes:
            continue
        seen.add(x)
        for s in b.succ[x]:
            if (x, s) in removed_edges:
                continue
            stack.append(s)
    return seen


def ret_sites(b):
    """blocks assigning the return place (whole or its enum payload)"""
    out = []

    def sites_of(l, depth):
        for bi, blk in enumerate(b.blocks):
            for st in blk['s']:
                if 'assign' in st and st['assign']['l'] == l and not st['assign']['p']:
                    # `_0 = move _t` where _t is itself assigned the verdict in several places (an inlined helper's own returns):
                    # the verdicts are those assignments
                    src = op_place(st['rv']['use']) if 'use' in st['rv'] else None
                    if src is not None and not src['p'] and src['l'] > b.arg_count and depth < 3 and len(b.defs.get(src['l'], [])) >= 1 and \
                            all(d[2] == 'assign' and ('aggregate' in d[3]['rv'] or ('use' in d[3]['rv'] and 'const' in d[3]['rv']['use']))
                                for d in b.defs.get(src['l'], [])) and b.locals[src['l']]['ty'] == b.locals[l]['ty']:
                        sites_of(src['l'], depth + 1)
                    else:
                        out.append((bi, st))
            t = blk['t']
            if 'call' in t and t['dest']['l'] == l and not t['dest']['p']:
                out.append((bi, None))
    sites_of(0, 0)
    return out


def analyse(rep, f, c, rule, fn, counter_expected=True, hybrid=False):
    b = f.body(fn)
    if b is None:
        rep.undecidable(rule, fn, 'function not found', None, c)
        return 0
    site = sp_str(b.raw['span'])
    K = Kernel(f, b)
    r = K.r
    leaves = K.leaves()
    n = 0
    if not leaves:
        rep.undecidable(rule, fn, 'no as_chunks/split_first partition of an argument slice found', site, c)
        return 0
    cd = control_dependence(b)
    sig_leaves = {}
    for lf in leaves:
        sig_leaves.setdefault(sig_of(lf), lf)
    # consumption edges / nodes per leaf signature
    cons_edges = {s: set() for s in sig_leaves}
    cons_nodes = {s: set() for s in sig_leaves}
    loops_of = {s: [] for s in sig_leaves}
    for lp in K.loops:
        if not lp['parts'] or lp['none'] is None:
            continue
        for p in lp['parts']:
            s = sig_of(p)
            if s in cons_edges and root_of(p) == root_of(sig_leaves[s]):
                cons_edges[s].add((lp['sw'], lp['none']))
                loops_of[s].append(lp)
    for w in K.wholes:
        for p in w['parts']:
            s = sig_of(p)
            if s in cons_nodes and root_of(p) == root_of(sig_leaves[s]):
                cons_nodes[s].add(w['bb'])
    for e in K.elems:
        s = sig_of(e['part'])
        if s in cons_nodes and root_of(e['part']) == root_of(sig_leaves[s]):
            cons_nodes[s].add(e['bb'])
    # a split_first None edge (on the source or on its zipped twin) means every part under the split parent is empty
    for sw, tgt, parent in K.split_none_edges():
        ps = sig_of(parent)
        for s in sig_leaves:
            if s[:len(ps)] == ps:
                cons_edges[s].add((sw, tgt))
    # ---- K1: coverage at universal returns
    # A return inside a part loop is an early exit (found an offending unit).  Outside the loops, a return repeating a verdict
    # value that the early exits use (Some / false / Bidi ...) is an early exit too (first-stride and reduced-stride tests);
    # every other return claims something about the whole buffer.
    reach = b.reachable()
    heads = set(loop_heads(b))
    arms = []
    for lp in K.loops:
        if lp['parts'] and lp['some'] is not None and lp['none'] is not None:
            arms.append((lp['some'], 'some'))
            arms.append((lp['none'], 'none'))

    def innermost_arm(bi):
        best = None
        for blk_, kind in arms:
            if blk_ == bi or blk_ in b.dom[bi]:
                depth = len(b.dom[blk_])
                if best is None or depth > best[0]:
                    best = (depth, kind)
        return best[1] if best else None
    in_loops = {bi for bi in reach if innermost_arm(bi) == 'some'}
    # an offending element found by a whole-part combinator is an early exit too: the false edge of all(..), the true edge of
    # any(..), the Some edge of position(..) / find(..)
    for w in K.wholes:
        if w['fn'] not in ('all', 'any', 'position', 'find'):
            continue
        for S in reach:
            tS = b.blocks[S]['t']
            if 'switch' not in tS or w['bb'] not in b.dom[S]:
                continue
            if tS.get('variants'):
                scr = strip(Resolver(b).place(tS['discr_of']))
                if not (w['fn'] in ('position', 'find') and scr[0] == 'call' and len(scr) == 4 and scr[3] == w['bb']):
                    continue
                found_t = [tgt for lab, tgt in switch_edges(b, S) if variant_of_edge(b, S, lab) == 'Some']
            elif tS.get('sty') == 'bool':
                ce = Resolver(b).operand(tS['switch'])
                neg = False
                while ce[0] == 'un' and ce[1] == 'Not':
                    ce, neg = ce[2], not neg
                if not (w['fn'] in ('all', 'any') and ce[0] == 'call' and len(ce) == 4 and ce[3] == w['bb']):
                    continue
                want_truth = (w['fn'] == 'any') != neg
                found_t = [tgt for lab, tgt in switch_edges(b, S) if bool_truth(b, S, lab) is want_truth]
            else:
                continue
            for ft in found_t:
                if b.pred[ft] == [S] or set(b.pred[ft]) == {S}:
                    in_loops |= {bi for bi in reach if ft == bi or ft in b.dom[bi]}
    res_ = Resolver(b)

    def verdict_key(bi, st):
        if st is None:
            return 'expr'
        v = res_.rvalue(st['rv'])
        if v[0] == 'agg':
            vn = variant_name(v)
            return vn or 'expr'
        if v[0] == 'c':
            return ('c', v[1])
        return 'expr'
    sites = [(bi, st) for bi, st in ret_sites(b) if bi in reach]
    early_vals = {verdict_key(bi, st) for bi, st in sites if bi in in_loops} - {'expr'}
    none_targets = [lp['none'] for lp in K.loops if lp['parts'] and lp['none'] is not None]
    universal = []
    for bi, st in sites:
        if bi in in_loops:
            continue
        if verdict_key(bi, st) in early_vals:
            continue
        if hybrid and not any(t_ in b.dom[bi] or t_ == bi for t_ in none_targets):
            continue      # index-driven part of a hybrid scanner (R-SCAN)
        universal.append(bi)
    rep.ob(rule + '.K1.has-verdict', fn, len(universal) >= 1, 'no whole-buffer verdict found', site, {'universal_returns': len(universal)}, c)
    for bi in universal:
        for s, lf in sorted(sig_leaves.items()):
            n += 1
            ok_edges = bool(cons_edges[s] or cons_nodes[s])
            seen = reach_without(b, 0, cons_edges[s], cons_nodes[s])
            ok = ok_edges and bi not in seen
            rep.ob(rule + '.K1', '%s:%s:verdict#%d' % (fn, part_str(lf, b), universal.index(bi)), ok,
                   'the whole-buffer verdict at this return can be reached without the part %s having been walked to its end%s' %
                   (part_str(lf, b), '' if ok_edges else ' (the part is never iterated)'), sp_str(b.blocks[bi]['tsp']) or site,
                   {'part': part_str(lf, b)}, c)
    # ---- K2: order of the loops over source leaves (strides before tail, first before rest, double before single)
    def order_key(s):
        return tuple((0 if x[0] in ('prefix', 'suffix') else x[1]) for x in s)
    ordered = sorted(sig_leaves, key=order_key)
    for i in range(1, len(ordered)):
        prev, cur_ = ordered[i - 1], ordered[i]
        heads = [lp['bb'] for lp in loops_of[cur_]] + list(w for w in cons_nodes[cur_])
        for hb in heads:
            n += 1
            seen = reach_without(b, 0, cons_edges[prev], cons_nodes[prev])
            rep.ob(rule + '.K2', '%s:%s-before-%s' % (fn, part_str(sig_leaves[prev], b), part_str(sig_leaves[cur_], b)), hb not in seen,
                   'the walk over %s can start before %s is exhausted: positions reported from it would not be buffer positions' %
                   (part_str(sig_leaves[cur_], b), part_str(sig_leaves[prev], b)), sp_str(b.blocks[hb]['tsp']), None, c)
    # ---- K3: counter accounting
    counters = [i for i, l in enumerate(b.locals) if l['ty'] == 'usize' and i > b.arg_count and len(b.defs.get(i, [])) >= 2
                and any(k == 'assign' and nd['rv'].get('use', {}).get('const', {}).get('int') == 0 for (_, _, k, nd) in b.defs[i])]
    counters = [ctr for ctr in counters if counter_increments(b, ctr)]
    enum_mode = False
    if counter_expected and not counters:
        # no accumulator: positions may be computed from the enumerate() index of the current element instead
        k_ = account_enumerate(rep, f, c, rule, fn, b, K)
        if k_:
            enum_mode = True
            n += k_
    if counter_expected:
        rep.ob(rule + '.K3.counter', fn, len(counters) == 1 or enum_mode,
               'expected exactly one position counter (usize, starts at 0, incremented in the loops), found %d, and the positions are not computed from enumerate() indices either' % len(counters), site, None, c)
    if len(counters) == 1:
        ctr = counters[0]
        n += account(rep, f, c, rule, fn, b, K, ctr, sig_leaves, loops_of, hybrid)
    # ---- K4: pairing of zipped parts
    for lp in K.loops:
        ps = lp['parts'] or []
        if len(ps) == 2:
            n += 1
            a, d_ = ps
            same = sig_of(a) == sig_of(d_)
            la = [x[2] for x in walk_part(a) if x[0] == 'prefix']
            ld = [x[2] for x in walk_part(d_) if x[0] == 'prefix']
            rep.ob(rule + '.K4', '%s:zip(%s,%s)' % (fn, part_str(a, b), part_str(d_, b)), same and la == ld and root_of(a) != root_of(d_),
                   'zipped source and destination parts are not the same part of slices cut to the same length', sp_str(b.blocks[lp['bb']]['tsp']), None, c)
    # ---- K5/K6: what one iteration does with the current element
    heads_all = set(loop_heads(b))
    for lp in K.loops:
        ps = lp['parts'] or []
        if len(ps) != 2:
            continue
        hs = [h for h in heads_all if h in b.dom[lp['bb']] or h == lp['bb']]
        if not hs:
            continue
        h = max(hs, key=lambda x: len(b.dom[x]))
        ty = b.locals[b.blocks[lp['bb']]['t']['dest']['l']]['ty']
        m_ = re.search(r'Option<\((.*)\)>$', ty)
        comps_ty = split_top(m_.group(1)) if m_ else []
        enum_wrapped = len(comps_ty) == 2 and comps_ty[0].strip() == 'usize' and comps_ty[1].strip().startswith('(')
        if enum_wrapped:
            # enumerate() over zip(): the element is (index, (source element, destination element))
            comps_ty = split_top(comps_ty[1].strip()[1:-1])
        dims = [int(x) for x in re.findall(r';\s*(\d+)\]', comps_ty[0])] if comps_ty else []
        for blks, end in enumerate_block_paths(b, h, stop=heads_all):
            if not (end[0] in ('back', 'stop') and end[1] == h):
                continue
            p = summarize(b, blks, end)
            if not any(e[0] == 'cond' and isinstance(e[1], tuple) and e[1][0] == 'variant' and e[2] == 'Some' and e[3] == lp['sw'] for e in p.events):
                continue
            nxt = [e for e in p.calls() if e[3] == lp['bb']]
            if not nxt:
                continue
            pay = ('fld', ('as', ('call', nxt[0][1], nxt[0][2], nxt[0][3]), 'Some'), '0')
            if enum_wrapped:
                pay = ('fld', pay, '1')
            src_el, dst_el = ('fld', pay, '0'), ('fld', pay, '1')
            if len(dims) == 2:
                # element is a group of m strides: each sub-stride must be handed to a stride function with its own twin, or the group as a whole
                m = dims[-1] if False else dims[1] if False else None
                m = int(re.findall(r';\s*(\d+)\]', comps_ty[0])[-1])
                seen = set()
                whole = False
                mism = False
                for e in p.calls():
                    if e[3] == lp['bb']:
                        continue
                    args = [strip(a) for a in e[2]]
                    si = [a[2][1] for a in args if a[0] == 'idx' and strip(a[1]) == src_el and a[2][0] == 'c']
                    di = [a[2][1] for a in args if a[0] == 'idx' and strip(a[1]) == dst_el and a[2][0] == 'c']
                    if si or di:
                        if si != di:
                            mism = True
                        seen |= set(si)
                    if any(a == src_el for a in args) and any(a == dst_el for a in args):
                        whole = True
                n += 1
                rep.ob(rule + '.K5', '%s:loop(%s):sub-strides' % (fn, part_str(ps[0], b)), (whole or seen == set(range(m))) and not mism,
                       'an iteration over groups of %d strides handles sub-strides %s (source and destination index %s)' % (m, sorted(seen), 'differ' if mism else 'agree'),
                       sp_str(b.blocks[lp['bb']]['tsp']), None, c)
            elif len(dims) == 1:
                n += 1
                calls = [e for e in p.calls() if e[3] != lp['bb'] and any(strip(a) == src_el for a in e[2]) and any(strip(a) == dst_el for a in e[2])]
                stores = [e for e in p.stores() if strip(e[1]) == dst_el or (e[1][0] == 'deref' and strip(e[1][1]) == dst_el)]
                rep.ob(rule + '.K5', '%s:loop(%s):stride' % (fn, part_str(ps[0], b)), bool(calls) or bool(stores),
                       'an iteration over strides neither hands the current source and destination stride to a stride function nor stores the destination stride',
                       sp_str(b.blocks[lp['bb']]['tsp']), None, c)
            else:
                n += 1
                ok = False
                for e in p.stores():
                    pl = e[1]
                    if pl[0] == 'deref' and strip(pl[1]) == dst_el or strip(pl) == dst_el:
                        v = e[2]
                        while v[0] == 'cast':
                            v = v[2]
                        if v == ('deref', src_el) or strip(v) == src_el:
                            ok = True
                rep.ob(rule + '.K6', '%s:loop(%s):store' % (fn, part_str(ps[0], b)), ok,
                       'a continuing iteration over single units does not store the current source unit into the current destination slot',
                       sp_str(b.blocks[lp['bb']]['tsp']), None, c)
    return n


def fold(e):
    """fold constant sub-expressions (STRIDE * 2)"""
    if not isinstance(e, tuple) or not e:
        return e
    if e[0] == 'bin':
        a, c_ = fold(e[2]), fold(e[3])
        if a[0] == 'c' and c_[0] == 'c' and isinstance(a[1], int) and isinstance(c_[1], int):
            v = {'Add': a[1] + c_[1], 'Sub': a[1] - c_[1], 'Mul': a[1] * c_[1]}.get(e[1])
            if v is not None:
                return ('c', v, a[2])
        return ('bin', e[1], a, c_)
    return e


def walk_part(p):
    out = []
    while p[0] != 'arg':
        out.append(p)
        p = p[1]
    return out


def counter_increments(b, ctr):
    for (bi, si, k, nd) in b.defs.get(ctr, []):
        if k == 'assign' and 'use' in nd['rv']:
            pl = op_place(nd['rv']['use'])
            if pl and pl['p']:
                sd = b.single_def(pl['l'])
                if sd and sd[2] == 'assign' and sd[3]['rv'].get('bin') == 'AddWithOverflow':
                    lp = op_place(sd[3]['rv']['l'])
                    if lp and lp['l'] == ctr:
                        return True
    return False


def account(rep, f, c, rule, fn, b, K, ctr, sig_leaves, loops_of, hybrid=False):
    """each loop iteration that continues adds exactly the element width; early exits report counter + reported position"""
    n = 0
    heads = set(loop_heads(b))
    loop_by_head = {}
    for lp in K.loops:
        # the loop head is the block of the next() call or a predecessor chain head; find the enclosing loop head that dominates it
        hs = [h for h in heads if h in b.dom[lp['bb']] or h == lp['bb']]
        if hs:
            h = max(hs, key=lambda x: len(b.dom[x]))
            loop_by_head[h] = lp
    cname = b.locals[ctr].get('name') or '_%d' % ctr
    # single-definition copies of the counter taken where it can no longer change (the `base` parameter of an inlined tail helper)
    ctr_alias = set()
    for i_, l_ in enumerate(b.locals):
        if i_ > b.arg_count and i_ != ctr and l_['ty'] == 'usize' and len(b.defs.get(i_, [])) == 1 and b.defs[i_][0][2] == 'assign' and 'use' in b.defs[i_][0][3]['rv']:
            pl_ = op_place(b.defs[i_][0][3]['rv']['use'])
            hops_ = 0
            while pl_ is not None and not pl_['p'] and pl_['l'] != ctr and pl_['l'] > b.arg_count and len(b.defs.get(pl_['l'], [])) == 1 and \
                    b.defs[pl_['l']][0][2] == 'assign' and 'use' in b.defs[pl_['l']][0][3]['rv'] and hops_ < 6:
                # through temporaries: base = move _t; _t = copy consumed (all in the same straight-line stretch is not required: the
                # "counter cannot change afterwards" test below is made from the first copy)
                db0_ = b.defs[pl_['l']][0]
                pl_ = op_place(db0_[3]['rv']['use'])
                hops_ += 1
                first_copy = (db0_[0], db0_[1])
            if pl_ is not None and not pl_['p'] and pl_['l'] == ctr:
                db_, ds_ = (b.defs[i_][0][0], b.defs[i_][0][1]) if hops_ == 0 else first_copy
                after = b.reach_from(b.succ[db_]) if b.succ[db_] else set()
                if not any(d[0] in after or (d[0] == db_ and d[1] > ds_) for d in b.defs.get(ctr, [])):
                    ctr_alias.add(i_)

    def unalias(e):
        if isinstance(e, tuple) and e and e[0] == 'init' and e[1] in ctr_alias:
            return ('init', ctr)
        return tuple(unalias(x) if isinstance(x, tuple) else x for x in e) if isinstance(e, tuple) else e
    for h, lp in sorted(loop_by_head.items()):
        if not lp['parts']:
            continue
        units = lp['units']
        for blks, end in enumerate_block_paths(b, h, stop=heads):
            p = summarize(b, blks, end)
            v = p.env.get(ctr, ('init', ctr))
            some_taken = any(e[0] == 'cond' and isinstance(e[1], tuple) and e[1][0] == 'variant' and e[2] == 'Some' and e[3] == lp['sw'] for e in p.events)
            enum_driven = '::iter::Enumerate<' in (lp['res'][1] or '')
            is_idx = lambda e: e[0] == 'fld' and e[2] == '0' and e[1][0] == 'fld' and e[1][2] == '0' and e[1][1][0] == 'as' and e[1][1][2] == 'Some' and \
                e[1][1][1][0] == 'call' and len(e[1][1][1]) == 4 and e[1][1][1][3] == lp['bb']
            if end[0] in ('back', 'stop') and end[1] == h and some_taken:
                n += 1
                terms, k = add_terms(fold(v))
                if enum_driven:
                    # the element's position comes from its enumerate() index: the counter stands still while the part is walked
                    ok = terms == (('init', ctr),) and k == 0
                    rep.ob(rule + '.K3.step', '%s:loop(%s):%s+=%d' % (fn, part_str(lp['parts'][0], b), cname, units), ok,
                           'an iteration over %s.iter().enumerate() changes the position counter (%s) although positions in this part are computed from the index' %
                           (part_str(lp['parts'][0], b), expr_str(v, b)[:60]), sp_str(b.blocks[blks[-1]]['tsp']), {'element_units': units, 'mode': 'enumerate'}, c)
                    continue
                ok = terms == (('init', ctr),) and k == units
                rep.ob(rule + '.K3.step', '%s:loop(%s):%s+=%d' % (fn, part_str(lp['parts'][0], b), cname, units), ok,
                       'an iteration over %s (elements %d units wide) continues with the position counter changed by %s instead of +%d' %
                       (part_str(lp['parts'][0], b), units, expr_str(v, b)[:60], units), sp_str(b.blocks[blks[-1]]['tsp']), {'element_units': units}, c)
            elif enum_driven and end[0] == 'stop' and end[1] != h and ctr in p.env:
                # leaving an enumerate()-driven part with the counter updated: from inside (an offending element at index i) it must
                # become counter + i * width [+ the position the stride function reported]; after exhaustion counter + part.len() * width
                n += 1
                terms, k = add_terms(fold(v))
                rest = [t for t in terms if t != ('init', ctr)]
                is_mul = lambda t, pred, cst: t[0] == 'bin' and t[1] == 'Mul' and ((pred(t[2]) and t[3][0] == 'c' and t[3][1] == cst) or (pred(t[3]) and t[2][0] == 'c' and t[2][1] == cst))
                if some_taken:
                    idx_t = [t for t in rest if (is_idx(t) if units == 1 else is_mul(t, is_idx, units))]
                    pay_t = [t for t in rest if is_payload_of_elem_call(t, lp)]
                    ok = ('init', ctr) in terms and k == 0 and len(idx_t) == 1 and len(pay_t) == (1 if units > 1 else 0) and len(rest) == len(idx_t) + len(pay_t)
                    why = 'counter + index * %d%s' % (units, ' + reported position' if units > 1 else '')
                else:
                    rr_ = Resolver(b)

                    def ex_(e):
                        if isinstance(e, tuple) and e and e[0] == 'init' and b.single_def(e[1]) is not None:
                            return rr_.local(e[1])
                        return tuple(ex_(x) if isinstance(x, tuple) else x for x in e) if isinstance(e, tuple) else e
                    rest = [ex_(t) for t in rest]
                    is_len_of = lambda x, part: x[0] == 'len' and part_of(x[1]) == part
                    whole = [t for t in rest if is_len_of(t, lp['parts'][0])] if units == 1 else \
                        [t for t in rest if is_mul(t, lambda x: is_len_of(x, lp['parts'][0]), units)]
                    # the path may run on through the part that follows (the sub-stride tail of the same split) before the next
                    # loop head: its contribution is its own length or the position() found in it
                    sib = ('chunks', lp['parts'][0][1], 1) if lp['parts'][0][0] == 'chunks' and lp['parts'][0][2] == 0 else None
                    later = [t for t in rest if sib is not None and (is_len_of(t, sib) or (
                        t[0] == 'fld' and t[2] == '0' and t[1][0] == 'as' and t[1][2] == 'Some' and t[1][1][0] == 'call' and (t[1][1][1] or '').endswith('::position')
                        and iter_roots(t[1][1][2][0]) == [sib]))]
                    ok = ('init', ctr) in terms and k == 0 and len(whole) == 1 and len(rest) == 1 + len(later) and len(later) <= 1
                    why = 'counter + %s.len() * %d' % (part_str(lp['parts'][0], b), units)
                rep.ob(rule + '.K3.step', '%s:loop(%s):leave:%s' % (fn, part_str(lp['parts'][0], b), 'found' if some_taken else 'exhausted'), ok,
                       'on leaving %s the position counter must become %s; it becomes %s' % (part_str(lp['parts'][0], b), why, expr_str(v, b)[:120]),
                       sp_str(b.blocks[blks[-1]]['tsp']), {'mode': 'enumerate'}, c)
            elif end[0] == 'return' and some_taken:
                rv = p.env.get(0)
                if rv is None:
                    continue
                # position component: any usize component of the returned aggregate mentioning the counter or a stride-function payload
                comps = [x for x in walk(rv) if isinstance(x, tuple) and x and x[0] == 'bin' and x[1] == 'Add']
                leaf = pos_component(rv, b)
                if leaf is None:
                    continue
                n += 1
                terms, k = add_terms(fold(unalias(leaf)))
                init_ok = ('init', ctr) in terms and k == 0
                rest = [t for t in terms if t != ('init', ctr)]
                if enum_driven:
                    # positions in this part are the counter (standing still) plus the element's enumerate() index
                    is_mul_ = lambda t, cst: t[0] == 'bin' and t[1] == 'Mul' and ((is_idx(t[2]) and t[3][0] == 'c' and t[3][1] == cst) or (is_idx(t[3]) and t[2][0] == 'c' and t[2][1] == cst))
                    idx_t = [t for t in rest if (is_idx(t) if units == 1 else is_mul_(t, units))]
                    pay_t = [t for t in rest if is_payload_of_elem_call(t, lp)]
                    ok = init_ok and len(idx_t) == 1 and len(pay_t) == (1 if units > 1 else 0) and len(rest) == len(idx_t) + len(pay_t)
                    why = 'an offending unit in an enumerate()-driven part must be reported at counter + index * %d%s' % (units, ' + the position the stride function returned' if units > 1 else '')
                elif units == 1:
                    ok = init_ok and not rest
                    why = 'an offending single unit must be reported at the counter itself'
                else:
                    ok = init_ok and len(rest) == 1 and is_payload_of_elem_call(rest[0], lp)
                    why = 'an offending unit inside a stride must be reported at counter + the position the stride function returned for the current element'
                rep.ob(rule + '.K3.report', '%s:loop(%s):report' % (fn, part_str(lp['parts'][0], b)), ok,
                       '%s; found %s' % (why, expr_str(leaf, b)[:120]), sp_str(b.blocks[blks[-1]]['tsp']), None, c)
    # assignments to the counter outside the loops: `= 0` initialisation, `= s` after the single first stride, `+= pos` on a kernel exit
    for (bi, si, k, nd) in b.defs.get(ctr, []):
        if k != 'assign':
            continue
        inloop = any(bi in natural_loop(b, h) for h in loop_by_head)
        if inloop:
            continue
        rv = nd['rv']
        n += 1
        cst = rv.get('use', {}).get('const', {}).get('int') if 'use' in rv else None
        if cst == 0:
            ok, what = True, 'init'
        elif cst is not None:
            # first element consumed: must be its width, and the counter must still be 0 there
            el = [e for e in K.elems if e['bb'] in b.dom[bi]]
            width = None
            for e in el:
                root = root_of(e['part'])
                m = re.findall(r';\s*(\d+)\]', b.locals[root[1]]['ty'])
                # width of one element of the parent chunks: taken from the as_chunks generic, i.e. the type of the part
            width = first_elem_units(b, K)
            ok, what = (width is not None and cst == width and bool(el)), 'first-stride'
        else:
            ok, what = False, 'other'
            e = Resolver(b).rvalue(rv)
            # `consumed += pos` leaving the kernel (utf16_valid_up_to): allowed when pos is the payload of a stride function on the current element
            terms, kk = add_terms(e)
            if ('loc', ctr) in terms and kk == 0:
                ok, what = True, 'exit-add'
        if hybrid and what == 'other':
            continue      # the index-driven part of a hybrid scanner moves the cursor itself: decided by R-SCAN
        rep.ob(rule + '.K3.assign', '%s:%s:%s' % (fn, cname, what), ok, 'the position counter is assigned outside the part loops in an unrecognised way', sp_str(nd['sp']), None, c)
    return n


def account_enumerate(rep, f, c, rule, fn, b, K):
    """K3 for kernels that keep no running counter: every loop over a source part walks `part.iter().enumerate()` and an offending
    unit is reported at  start(part) + index * (element width) [+ the position the stride function reported inside the element],
    where index is the enumerate() counter of the current element (core semantics: the number of elements before it) and
    start(strides) = 0, start(tail) = strides.len() * STRIDE.  Returns the number of obligations, 0 if the kernel is not of this form."""
    heads = set(loop_heads(b))
    loops = []
    for lp in K.loops:
        if not lp['parts']:
            continue
        root = root_of(lp['parts'][0])
        ty = b.locals[root[1]]['ty']
        if '&mut' in ty:
            continue
        if not '::iter::Enumerate<' in (lp['res'][1] or ''):
            return 0
        hs = [h for h in heads if h in b.dom[lp['bb']] or h == lp['bb']]
        if not hs:
            return 0
        loops.append((max(hs, key=lambda x: len(b.dom[x])), lp))
    if not loops:
        return 0
    n = 0
    r = Resolver(b)

    def expand_terms(e):
        terms, k = add_terms(fold(e))
        out = []
        for t in terms:
            if t[0] == 'init' and b.single_def(t[1]) is not None:
                t2, k2 = expand_terms(r.local(t[1]))
                out += list(t2)
                k += k2
            else:
                out.append(t)
        return out, k

    def is_mul(t, pred, cst):
        return t[0] == 'bin' and t[1] == 'Mul' and ((pred(t[2]) and t[3][0] == 'c' and t[3][1] == cst) or (pred(t[3]) and t[2][0] == 'c' and t[2][1] == cst))

    all_units = {lp_['parts'][0]: lp_['units'] for lp_ in K.loops if lp_['parts']}
    first_w = first_elem_units(b, K)

    def elem_units(part):
        if part in all_units:
            return all_units[part]
        if part[0] == 'first' and part[2] == 1:
            return elem_units(part[1])
        if part[0] == 'chunks' and part[2] == 0 and any(s_.get('kind') == 'first' for s_ in K.splits):
            return first_w
        return None

    def natural_start(part):
        if part[0] in ('arg', 'prefix'):
            return {}, 0
        if part[0] == 'suffix':
            return None
        ps = natural_start(part[1])
        if ps is None:
            return None
        terms_, k_ = dict(ps[0]), ps[1]
        if part[0] == 'chunks' and part[2] == 1:
            w_ = elem_units(('chunks', part[1], 0))
            if w_ is None:
                return None
            terms_[('chunks', part[1], 0)] = terms_.get(('chunks', part[1], 0), 0) + w_
        elif part[0] == 'first' and part[2] == 1:
            w_ = elem_units(part[1])
            if w_ is None:
                return None
            k_ += w_
        return terms_, k_

    for h, lp in sorted(loops, key=lambda x: x[0]):
        L = lp['parts'][0]
        units = lp['units']
        is_idx = lambda e: e[0] == 'fld' and e[2] == '0' and e[1][0] == 'fld' and e[1][2] == '0' and e[1][1][0] == 'as' and e[1][1][2] == 'Some' and \
            e[1][1][1][0] == 'call' and len(e[1][1][1]) == 4 and e[1][1][1][3] == lp['bb']
        # start of the part
        nat = natural_start(L)
        if nat is not None and not (L[0] == 'chunks' and L[2] == 0 and L[1][0] in ('arg', 'prefix')) and \
                not (L[0] == 'chunks' and L[2] == 1 and L[1][0] in ('arg', 'prefix') and [x for _, x in loops if x['parts'][0] == ('chunks', L[1], 0)]):
            # a part of a nested partition (first / rest, strides of the rest ...): the report is compared with the natural start
            # start(first) = start(P), start(rest) = start(P) + one element, start(P.strides) = start(P),
            # start(P.tail) = start(P) + P.strides.len() * width, in linear form over the lengths of the parts
            nret = 0
            for blks, end in enumerate_block_paths(b, h, stop=heads):
                if end[0] != 'return':
                    continue
                p = summarize(b, blks, end)
                if not any(e[0] == 'cond' and isinstance(e[1], tuple) and e[1][0] == 'variant' and e[2] == 'Some' and e[3] == lp['sw'] for e in p.events):
                    continue
                rv = p.env.get(0)
                leaf = pos_component(rv, b) if rv is not None else None
                if leaf is None:
                    continue
                terms, k = expand_terms(leaf)
                idx_t = [t for t in terms if (is_idx(t) if units == 1 else is_mul(t, is_idx, units))]
                pay_t = [t for t in terms if is_payload_of_elem_call(t, lp)]
                rest_t = [t for t in terms if t not in idx_t and t not in pay_t]
                got = {}
                bad_t = False
                for t in rest_t:
                    m_ = None
                    if t[0] == 'len' and part_of(t[1]) is not None:
                        m_ = (part_of(t[1]), 1)
                    elif t[0] == 'bin' and t[1] == 'Mul':
                        for x_, y_ in ((t[2], t[3]), (t[3], t[2])):
                            if x_[0] == 'len' and part_of(x_[1]) is not None and y_[0] == 'c':
                                m_ = (part_of(x_[1]), y_[1])
                    if m_ is None:
                        bad_t = True
                    else:
                        got[m_[0]] = got.get(m_[0], 0) + m_[1]
                ok = not bad_t and len(idx_t) == 1 and len(pay_t) == (1 if units > 1 else 0) and k == nat[1] and got == nat[0]
                n += 1
                nret += 1
                rep.ob(rule + '.K3.report', '%s:loop(%s):report' % (fn, part_str(L, b)), ok,
                       'an offending unit in %s must be reported at start(part) + (enumerate index of the element)%s%s with start(part) = %s; found %s' % (
                           part_str(L, b), ' * %d' % units if units > 1 else '', ' + the position the stride function returned' if units > 1 else '',
                           ' + '.join(['%d' % nat[1]] + ['%s.len() * %d' % (part_str(pp_, b), cc_) for pp_, cc_ in nat[0].items()]), expr_str(leaf, b)[:160]),
                       sp_str(b.blocks[blks[-1]]['tsp']), {'mode': 'enumerate', 'element_units': units}, c)
            if nret:
                n += 1
                rep.ob(rule + '.K3.step', '%s:loop(%s):enumerate' % (fn, part_str(L, b)), True, '', sp_str(b.blocks[lp['bb']]['tsp']),
                       {'mode': 'enumerate', 'element_units': units}, c)
            continue
        if L[0] == 'chunks' and L[2] == 0 and L[1][0] in ('arg', 'prefix'):
            start_ok = lambda t: False
            need_start = 0
        elif L[0] == 'chunks' and L[2] == 1:
            sib = [x for _, x in loops if x['parts'][0] == ('chunks', L[1], 0)]
            stride = sib[0]['units'] if sib else None
            start_ok = lambda t: stride is not None and is_mul(t, lambda x: x[0] == 'len' and part_of(x[1]) == ('chunks', L[1], 0), stride)
            need_start = 1
        else:
            return 0
        nret = 0
        for blks, end in enumerate_block_paths(b, h, stop=heads):
            if end[0] != 'return':
                continue
            p = summarize(b, blks, end)
            if not any(e[0] == 'cond' and isinstance(e[1], tuple) and e[1][0] == 'variant' and e[2] == 'Some' and e[3] == lp['sw'] for e in p.events):
                continue
            rv = p.env.get(0)
            leaf = pos_component(rv, b) if rv is not None else None
            if leaf is None:
                continue
            terms, k = expand_terms(leaf)
            idx_t = [t for t in terms if (is_idx(t) if units == 1 else is_mul(t, is_idx, units))]
            start_t = [t for t in terms if start_ok(t)]
            pay_t = [t for t in terms if is_payload_of_elem_call(t, lp)]
            ok = k == 0 and len(idx_t) == 1 and len(start_t) == need_start and len(pay_t) == (1 if units > 1 else 0) and \
                len(terms) == 1 + need_start + (1 if units > 1 else 0)
            n += 1
            nret += 1
            rep.ob(rule + '.K3.report', '%s:loop(%s):report' % (fn, part_str(L, b)), ok,
                   'an offending unit in %s must be reported at %s(enumerate index of the element)%s%s; found %s' % (
                       part_str(L, b), 'strides.len() * %s + ' % stride if need_start else '', ' * %d' % units if units > 1 else '',
                       ' + the position the stride function returned' if units > 1 else '', expr_str(leaf, b)[:160]),
                   sp_str(b.blocks[blks[-1]]['tsp']), {'mode': 'enumerate', 'element_units': units}, c)
        if nret:
            # the counterpart of K3.step: the index advances by one element per iteration by the semantics of Enumerate (trusted core)
            n += 1
            rep.ob(rule + '.K3.step', '%s:loop(%s):enumerate' % (fn, part_str(L, b)), True, '', sp_str(b.blocks[lp['bb']]['tsp']),
                   {'mode': 'enumerate', 'element_units': units}, c)
    return n


def natural_loop(body, h):
    loop = {h}
    stack = [x for (x, hh) in body.back_edges() if hh == h]
    while stack:
        x = stack.pop()
        if x in loop:
            continue
        loop.add(x)
        stack.extend(body.pred[x])
    return loop


def first_elem_units(b, K):
    for s in K.splits:
        if s['kind'] == 'first':
            # element type of the parent: &[[T; N]]
            t = b.blocks[s['bb']]['t']
            ty = b.locals[t['dest']['l']]['ty']
            m = re.search(r'Option<\(&(?:mut )?(\[[^,]*\]),', ty)
            if m:
                dims = [int(x) for x in re.findall(r';\s*(\d+)\]', m.group(1))]
                n = 1
                for d in dims:
                    n *= d
                return n
    return None


def pos_component(rv, b):
    """the usize component of the returned value"""
    def comps(e):
        if e[0] == 'agg':
            out = []
            for x in e[2]:
                out += comps(x)
            return out
        return [e]
    cs = comps(rv)
    # the position is the last scalar component in every kernel result type: Option<(unit, usize)>, Option<usize>, (unit, usize)
    return cs[-1] if cs else None


def is_payload_of_elem_call(e, lp):
    """e = (stride_fn(current element ...) as Some).0[.1]"""
    x = e
    while x[0] == 'fld':
        x = x[1]
    if x[0] != 'as' or x[2] != 'Some' or x[1][0] != 'call':
        return False
    call = x[1]
    for a in call[2]:
        for sub in walk(a):
            if isinstance(sub, tuple) and len(sub) == 3 and sub[0] == 'as' and sub[2] == 'Some' and sub[1][0] == 'call' and len(sub[1]) == 4 and sub[1][3] == lp['bb']:
                return True
    return False


# ---------------------------------------------------------------------------------------------- stride-level functions
VEC_TESTS = ('simd_funcs::simd_is_ascii', 'simd_funcs::simd_is_basic_latin')
VEC_VALIDATE = ('simd_funcs::validate_ascii_simd', 'simd_funcs::validate_basic_latin_simd', 'simd_funcs::validate_bmp_simd',
                'simd_funcs::validate_latin1_str_simd')
WHOLE_TESTS = ('ascii::is_ascii', 'ascii::is_basic_latin')
STRIDE_FNS = {
    'simd': ['simd_funcs::ascii_to_ascii_stride', 'simd_funcs::ascii_to_basic_latin_stride', 'simd_funcs::basic_latin_to_ascii_stride',
             'simd_funcs::validate_ascii_stride', 'simd_funcs::ascii_to_ascii_double_stride', 'simd_funcs::ascii_to_basic_latin_double_stride',
             'simd_funcs::basic_latin_to_ascii_double_stride', 'simd_funcs::validate_ascii_double_stride', 'simd_funcs::validate_bmp_stride',
             'simd_funcs::validate_latin1_str_stride'],
    'default': ['ascii::ascii_to_ascii_stride', 'ascii::ascii_to_basic_latin_stride', 'ascii::basic_latin_to_ascii_stride',
                'ascii::validate_ascii_stride', 'ascii::validate_basic_latin_stride', 'mem::validate_bmp_stride'],
}
TAIL_FNS = ['ascii::copy_stride_tail', 'ascii::unpack_stride_tail', 'ascii::pack_stride_tail', 'ascii::validate_ascii_stride_tail',
            'ascii::validate_basic_latin_stride_tail']


def arg_units(ty):
    dims = [int(x) for x in re.findall(r';\s*(\d+)\]', ty)]
    n = 1
    for d in dims:
        n *= d
    return n


def sub_range(x, total):
    """sub-part of argument 1 -> (start, units)"""
    x = strip(x)
    if x == ('loc', 1):
        return (0, total)
    if x[0] == 'idx' and strip(x[1]) == ('loc', 1) and x[2][0] == 'c':
        # element of [[T; 16]; 2] or a single unit of [T; 16]
        return None if total is None else ('idx', x[2][1])
    if x[0] == 'fld' and x[1][0] == 'call' and x[1][1] == 'simd_funcs::split_u16_stride':
        inner = sub_range(x[1][2][0], total)
        return ('half', inner, int(x[2]))
    return None


def resolve_range(d, total, elem):
    """descriptor -> (start, units); elem = units of one first-level element of the argument (16 for [[T;16];2], 1 for [T;16])"""
    if d is None:
        return None
    if isinstance(d, tuple) and len(d) == 2 and isinstance(d[0], int):
        return d
    if d[0] == 'idx':
        return (d[1] * elem, elem)
    if d[0] == 'half':
        inner = resolve_range(d[1], total, elem)
        if inner is None:
            return None
        return (inner[0] + 8 * d[2], 8)
    return None


def vec_ranges(e, total, elem):
    """vector expression (into(..) | bitor tree) -> list of (start, units) or None"""
    if e[0] == 'call' and 'BitOr' in (e[1] or ''):
        a, c_ = vec_ranges(e[2][0], total, elem), vec_ranges(e[2][1], total, elem)
        return None if a is None or c_ is None else a + c_
    if e[0] == 'call' and short(e[1]) == 'into' and len(e[2]) == 1:
        x = e[2][0]
        if x[0] == 'deref':
            x = x[1]
        r_ = resolve_range(sub_range(x, total), total, elem)
        return [r_] if r_ is not None else None
    return None


def covered(ranges, total):
    seen = [False] * total
    for s_, n_ in ranges:
        for i in range(s_, min(s_ + n_, total)):
            seen[i] = True
    return [i for i in range(total) if not seen[i]]


def feasible_consts(p):
    for e in p.events:
        if e[0] == 'cond' and isinstance(e[1], tuple) and e[1] and e[1][0] == 'c' and isinstance(e[2], bool) and bool(e[1][1]) != e[2]:
            return False
    return True


def option_normal_form(f, p, rv):
    """A returned Option that is the result of a vector validation handed on as it is (`let r = validate(v); if r.is_some() { return r }`)
    or through `.map(|(c, pos)| (c, K + pos))` is rewritten, when the path has established which variant it is, to the explicit
    None / Some((c, K + pos)) the other forms of the same function return."""
    def bare(e):
        e = strip(e)
        while e[0] in ('deref', 'ref'):
            e = strip(e[1])
        return e
    K = 0
    src = rv
    if rv[0] == 'call' and (rv[1] or '').endswith('Option::<T>::map') and len(rv[2]) == 2 and rv[2][1][0] == 'agg' and rv[2][1][1] == 'closure' and len(rv[2][1]) == 4:
        cb = f.body(rv[2][1][3])
        if cb is None or cb.arg_count != 2 or len(cb.defs.get(0, [])) != 1 or cb.defs[0][0][2] != 'assign':
            return rv
        v = Resolver(cb).rvalue(cb.defs[0][0][3]['rv'])
        if not (v[0] == 'agg' and v[1] == 'tuple' and len(v[2]) == 2 and v[2][0] == ('fld', ('loc', 2), '0')):
            return rv
        t_, k_ = add_terms(fold(v[2][1]))
        if t_ != (('fld', ('loc', 2), '1'),):
            return rv
        K, src = k_, rv[2][0]
    if not (src[0] == 'call' and src[1] in VEC_VALIDATE):
        return rv
    which = None
    for e in p.events:
        if e[0] != 'cond':
            continue
        ce = e[1]
        if isinstance(ce, tuple) and ce and ce[0] == 'call' and (ce[1] or '').endswith(('Option::<T>::is_some', 'Option::<T>::is_none')) and isinstance(e[2], bool) \
                and bare(ce[2][0]) in (rv, src):
            which = 'Some' if (ce[1].endswith('is_some') == e[2]) else 'None'
        elif isinstance(ce, tuple) and ce and ce[0] == 'variant' and bare(ce[1]) in (rv, src) and e[2] in ('Some', 'None'):
            which = e[2]
    if which == 'None':
        return ('agg', 'core::option::Option::None', ())
    if which == 'Some':
        pay = ('fld', ('as', src, 'Some'), '0')
        pos = ('fld', pay, '1')
        if K:
            pos = ('bin', 'Add', ('c', K, 'usize'), pos)
        return ('agg', 'core::option::Option::Some', (('agg', 'tuple', (('fld', pay, '0'), pos)),))
    return rv


def stride_function(rep, f, c, rule, fn):
    b = f.body(fn)
    if b is None:
        rep.undecidable(rule, fn, 'function not found', None, c)
        return 0
    site = sp_str(b.raw['span'])
    ty = b.locals[1]['ty']
    total = arg_units(ty)
    dims = [int(x) for x in re.findall(r';\s*(\d+)\]', ty)]
    elem = dims[0] if len(dims) == 2 else 1
    n = 0
    for p in region_paths(b, 0):
        if p.end[0] != 'return' or not feasible_consts(p):
            continue
        rv = p.env.get(0)
        if rv is None:
            continue
        rv = option_normal_form(f, p, rv)
        cov = []
        failed_whole = False
        for e in p.events:
            if e[0] != 'cond':
                continue
            ce = e[1]
            if isinstance(ce, tuple) and ce and ce[0] == 'call' and ce[1] in VEC_TESTS and e[2] is True:
                r_ = vec_ranges(ce[2][0], total, elem)
                if r_:
                    cov += r_
            if isinstance(ce, tuple) and ce and ce[0] == 'call' and ce[1] in WHOLE_TESTS:
                if strip(ce[2][0]) == ('loc', 1):
                    if e[2] is True:
                        cov.append((0, total))
                    else:
                        failed_whole = True
            if isinstance(ce, tuple) and ce and ce[0] == 'variant' and ce[1][0] == 'call' and ce[1][1] in VEC_VALIDATE and e[2] == 'None':
                for a in ce[1][2]:
                    r_ = vec_ranges(a, total, elem)
                    if r_:
                        cov += r_
            # the same asked with is_some() / is_none()
            if isinstance(ce, tuple) and ce and ce[0] == 'call' and (ce[1] or '').endswith(('Option::<T>::is_some', 'Option::<T>::is_none')) and isinstance(e[2], bool) \
                    and (ce[1].endswith('is_none') == e[2]):
                x_ = strip(ce[2][0])
                while x_[0] in ('deref', 'ref'):
                    x_ = strip(x_[1])
                if x_[0] == 'call' and x_[1] in VEC_VALIDATE:
                    for a in x_[2]:
                        r_ = vec_ranges(a, total, elem)
                        if r_:
                            cov += r_
            # scalar chain: (stride[i] & 0xF800) != 0xD800
            if isinstance(ce, tuple) and ce and ce[0] == 'bin' and ce[1] in ('Ne', 'Eq') and isinstance(e[2], bool):
                for sub in walk(ce):
                    if isinstance(sub, tuple) and sub and sub[0] == 'idx' and strip(sub[1]) == ('loc', 1) and sub[2][0] == 'c' and (e[2] is True) == (ce[1] == 'Ne'):
                        cov.append((sub[2][1], 1))
        vn = variant_name(rv) if rv[0] == 'agg' else None
        key = None
        # destination sub-strides stored on this path (functions that also take a destination stride)
        if b.arg_count >= 2 and 'mut' in b.locals[2]['ty']:
            dims2 = [int(x) for x in re.findall(r';\s*(\d+)\]', b.locals[2]['ty'])]
            nsub = dims2[-1] if len(dims2) == 2 else 1
            stored = set()

            def dst_part(x):
                x = strip(x)
                if x == ('loc', 2):
                    return 'all'
                if x[0] == 'idx' and strip(x[1]) == ('loc', 2) and x[2][0] == 'c':
                    return x[2][1]
                return None
            for e in p.events:
                if e[0] == 'store':
                    dp = dst_part(e[1])
                    if dp is not None:
                        stored |= set(range(nsub)) if dp == 'all' else {dp}
                elif e[0] == 'call':
                    for a in e[2]:
                        dp = dst_part(a)
                        if dp is not None:
                            stored |= set(range(nsub)) if dp == 'all' else {dp}
            need = None
            if vn == 'None':
                need = set(range(nsub))
            elif vn == 'Some':
                pay = rv[2][0]
                cs_ = list(pay[2]) if pay[0] == 'agg' else [pay]
                pos_ = fold(cs_[-1])
                t_, k_ = add_terms(pos_)
                need = set(range(min(nsub, k_ // 16 + 1)))
            elif rv[0] == 'call':
                need = set(range(nsub))
            if need is not None and vn == 'Some' and b.locals[2]['ty'].count('u8') and nsub > 1:
                # what is stored beyond the sub-stride that holds the reported position is garbage after `written`: the &mut str
                # receivers scrub MAX_STRIDE_SIZE (one sub-stride) bytes and no more (C05-D1), the "leaves the rest unmodified"
                # contracts (C15-D1) are computed from the same bound
                n += 1
                extra_ = sorted(stored - need)
                rep.ob(rule + '.excess', '%s:Some@+%d' % (fn, k_), not extra_,
                       'an offending unit is reported in sub-stride %d but destination sub-stride(s) %s have been stored as well: more than one stride of unvalidated '
                       'bytes can follow the reported count (the str receivers scrub one stride)' % (max(need), extra_), site, {'stored': sorted(stored)}, c)
            if need is not None:
                n += 1
                miss_ = sorted(need - stored)
                rep.ob(rule + '.store', '%s:%s' % (fn, 'None' if vn == 'None' else ('Some@+%d' % (k_ if vn == 'Some' else 0) if vn == 'Some' else 'delegate')), not miss_,
                       'the result counts units of destination sub-stride(s) %s as converted, but nothing is stored into them on this path' % miss_,
                       site, {'stored': sorted(stored)}, c)
        if vn == 'None':
            n += 1
            miss = covered(cov, total)
            rep.ob(rule + '.none', '%s:None' % fn, not miss,
                   'returns None (no offending unit in the stride) although units %s of the source stride are not covered by a test that passed on this path' % miss[:8],
                   site, {'units': total, 'covered_ranges': sorted(set(cov))}, c)
        elif rv[0] == 'call' and rv[1] in VEC_VALIDATE:
            n += 1
            rs = []
            for a in rv[2]:
                rs += vec_ranges(a, total, elem) or []
            miss = covered(rs, total)
            contiguous = [x[0] for x in rs] == [sum(y[1] for y in rs[:i]) for i in range(len(rs))]
            rep.ob(rule + '.delegate', '%s:%s' % (fn, short(rv[1])), not miss and contiguous,
                   'the stride verdict is delegated to %s on vectors that do not cover the source stride in order (missing units %s)' % (short(rv[1]), miss[:8]), site, None, c)
        elif vn == 'Some':
            payload = rv[2][0]
            comps = list(payload[2]) if payload[0] == 'agg' else [payload]
            pos = fold(comps[-1])
            if payload[0] == 'call' and short(payload[1]).endswith('_tail'):
                n += 1
                rep.ob(rule + '.some-tail', '%s:%s' % (fn, short(payload[1])), failed_whole and strip(payload[2][0]) == ('loc', 1),
                       'the scalar tail search must run on the same source stride and only after the whole-stride test failed', site, None, c)
                continue
            terms, k = add_terms(pos)
            if any('Enumerate' in repr(t_) for t_ in terms):
                continue      # scalar search loop: decided by tail_function
            ok = False
            why = 'position is not the payload of a vector validation'
            if len(terms) == 1:
                x = terms[0]
                while x[0] == 'fld':
                    x = x[1]
                if x[0] == 'as' and x[2] == 'Some' and x[1][0] == 'call' and x[1][1] in VEC_VALIDATE:
                    rs = []
                    for a in x[1][2]:
                        rs += vec_ranges(a, total, elem) or []
                    if rs:
                        start = rs[0][0]
                        contiguous = [y[0] for y in rs] == [start + sum(z[1] for z in rs[:i]) for i in range(len(rs))]
                        before = [i for i in covered(cov, total) if i < start]
                        ok = contiguous and k == start and not before
                        why = 'offset %d added to the position found in the vectors starting at unit %d; units before it not proven clean: %s' % (k, start, before[:8])
            n += 1
            rep.ob(rule + '.some', '%s:Some@+%d' % (fn, k), ok, 'offending unit reported at a wrong offset: ' + why, site, None, c)
        elif rv[0] == 'agg' and rv[1] == 'tuple' or rv[0] in ('c', 'fld', 'deref'):
            pass
    return n


def tail_function(rep, f, c, rule, fn):
    """(c, i) / i returned from `for (i, ..) in ...enumerate()` must be the enumerate counter of the current element"""
    b = f.body(fn)
    if b is None:
        rep.undecidable(rule, fn, 'function not found', None, c)
        return 0
    site = sp_str(b.raw['span'])
    n = 0
    heads = loop_heads(b)
    for h in heads:
        for p in region_paths(b, h, stop=set(heads)):
            if p.end[0] != 'return' or not feasible_consts(p):
                continue
            rv = p.env.get(0)
            if rv is None:
                continue
            nx = [e for e in p.events if e[0] == 'cond' and isinstance(e[1], tuple) and e[1][0] == 'variant' and e[2] == 'Some'
                  and e[1][1][0] == 'call' and 'Enumerate' in (e[1][1][1] or '')]
            if not nx:
                continue
            comps = list(rv[2]) if rv[0] == 'agg' else [rv]
            pos = comps[-1]
            want = ('fld', ('fld', ('as', nx[0][1][1], 'Some'), '0'), '0')
            n += 1
            rep.ob(rule + '.tail', fn, pos == want, 'the reported index is not the enumerate() counter of the offending element: %s' % expr_str(pos, b)[:100], site, None, c)
    return n


def stride_level(rep, f, c, rule):
    n = 0
    fam = 'simd' if c.startswith('simd') else 'default'
    for fn in STRIDE_FNS[fam]:
        n += stride_function(rep, f, c, rule, fn)
    if fam == 'default':
        for fn in TAIL_FNS + ['mem::validate_bmp_stride']:
            n += tail_function(rep, f, c, rule, fn)
    return n


# ---------------------------------------------------------------------------------------------- rule driver
# group -> family -> [(function, has position counter, hybrid)]
KERNELS = {
    'validate': {
        'default': [('ascii::ascii_valid_impl', True, False), ('mem::utf16_valid_up_to', True, True)],
        'simd': [('ascii::ascii_valid_impl', True, False), ('mem::utf16_valid_up_to', True, True), ('mem::is_str_latin1_impl', True, False)],
    },
    'copy': {
        'default': [('ascii::ascii_to_ascii_impl', True, False), ('ascii::ascii_to_basic_latin_impl', True, False), ('ascii::basic_latin_to_ascii_impl', True, False),
                    ('mem::unpack_latin1', False, False), ('mem::pack_latin1', False, False)],
        'simd': [('ascii::ascii_to_ascii_impl', True, False), ('ascii::ascii_to_basic_latin_impl', True, False), ('ascii::basic_latin_to_ascii_impl', True, False),
                 ('mem::unpack_latin1', False, False), ('mem::pack_latin1', False, False),
                 ('x_user_defined::UserDefinedDecoder::decode_to_utf16_raw', False, False)],
    },
    'classify': {
        'default': [('mem::is_ascii_impl', False, False), ('mem::is_basic_latin_impl', False, False), ('mem::is_utf16_latin1_impl', False, False)],
        'simd': [('mem::is_ascii_impl', False, False), ('mem::is_basic_latin_impl', False, False), ('mem::is_utf16_latin1_impl', False, False),
                 ('mem::is_utf16_bidi_impl', False, False), ('mem::is_str_latin1_bool_impl', False, False),
                 ('mem::check_utf16_for_latin1_and_bidi_impl', False, False)],
    },
}
# obligations measured on the pinned tree per (group, family); floors are ~85% of these (coverage itself is the K1 rule)
MEASURED = {('validate', 'default'): 17, ('validate', 'simd'): 32, ('copy', 'default'): 58, ('copy', 'simd'): 90,
            ('classify', 'default'): 15, ('classify', 'simd'): 39}


def run(rep, f, c, rule, groups, stride=True):
    fam = 'simd' if c.startswith('simd') else 'default'
    total = 0
    for g in groups:
        n = 0
        for fn0, counter, hybrid in KERNELS[g][fam]:
            vs = impl_bodies(f, fn0)
            k_ = 0
            for fn in vs:
                k_ = analyse(rep, f, c, rule, fn, counter_expected=counter, hybrid=hybrid)
            n += k_          # versions of one function count once towards the floor
        rep.count('kernel.obligations:%s:%s' % (c, g), n)
        rep.floor(rule, 'kernel obligations decided for group %s' % g, n, int(MEASURED[(g, fam)] * 0.85), c)
        total += n
    if stride:
        n = stride_level(rep, f, c, 'R-STRIDE')
        rep.count('stride.obligations:%s' % c, n)
        rep.floor('R-STRIDE', 'stride-level obligations', n, 22, c)
        total += n
    return total
