"""R-ASCIICOPY — the ASCII fast-path helpers of the handles keep source and destination positions in step.

copy_ascii_from_check_space_* (decoder side) and copy_ascii_to_check_space_* (encoder side) run an ASCII kernel on the remaining
source and destination, advance both positions by what the kernel consumed and either stop (reporting (result, read, written))
or go on with the non-ASCII unit.  The caller loops re-push input from the reported read count, so an ASCII run that is counted
on one side only is converted twice or lost (C02/C04: chunking; C08: the documented caller loop does not terminate).  Per path:
  None         both positions advance by the same amount;
  Some((_, n)) the destination position advances by exactly n, the source position by n + k, k a constant >= 0 that is 0 on every
               path that stops;
  Stop((r, read, written))  read is the source position itself and written the destination position (or dest.written())."""
from mirlib import *
from paths import *
from shape import *

KERNELS = ('ascii::ascii_to_basic_latin', 'ascii::ascii_to_ascii', 'ascii::basic_latin_to_ascii')


def _pos(n):
    return ('fld', ('deref', ('loc', n)), 'pos')


def _bare(e):
    e = strip_ref(e)
    while e[0] in ('deref', 'ref'):
        e = strip_ref(e[1])
    return e


def run(rep, f, c, rule='R-ASCIICOPY', want=lambda n: True):
    n = 0
    for name, b in sorted(f.bodies.items()):
        short = name.rsplit('::', 1)[-1]
        if not (short.startswith('copy_ascii_from_check_space_') or short.startswith('copy_ascii_to_check_space_')) or not want(name):
            continue
        site = sp_str(b.raw['span'])
        from_side = short.startswith('copy_ascii_from_')
        src_pos = _pos(2) if from_side else _pos(1)
        dst_pos = _pos(1) if from_side else None          # encoder side: the destination is advanced through ByteDestination::advance
        try:
            ps = [p for p in region_paths(b, 0) if p.end[0] == 'return']
        except OverflowError as e:
            rep.undecidable(rule, name, str(e), site, c)
            continue
        bad = []
        k_paths = 0
        for p in ps:
            kc = [e for e in p.calls() if e[1] in KERNELS]
            if len(kc) != 1:
                continue
            res = ('call', kc[0][1], kc[0][2], kc[0][3])
            arm = [e for e in p.conds() if e[1][0] == 'variant' and e[1][1] == res and e[2] in ('Some', 'None')]
            if len(arm) != 1:
                continue
            k_paths += 1
            at = sp_str(b.blocks[p.blocks[-1]]['tsp'])

            def delta(place):
                terms, k = [], 0
                for e in p.stores():
                    if e[1] != place:
                        continue
                    try:
                        t_, k_ = add_terms(e[2])
                    except Exception:
                        return None
                    t_ = list(t_)
                    if place not in t_:
                        return None          # not an increment of the position
                    t_.remove(place)
                    terms += t_
                    k += k_
                return tuple(sorted(terms, key=repr)), k
            d_src = delta(src_pos)
            if dst_pos is not None:
                d_dst = delta(dst_pos)
            else:
                terms, k = [], 0
                for e in p.calls():
                    if (e[1] or '').endswith('ByteDestination::advance') and len(e[2]) == 2 and _bare(e[2][0]) == ('loc', 2):
                        t_, k_ = add_terms(e[2][1])
                        terms += list(t_)
                        k += k_
                d_dst = (tuple(sorted(terms, key=repr)), k)
            if d_src is None or d_dst is None:
                bad.append(('a position is assigned something that is not an increment of itself', at))
                continue
            rv = p.env.get(0)
            stop = rv is not None and rv[0] == 'agg' and variant_name(rv) == 'Stop'
            if arm[0][2] == 'None':
                if d_src != d_dst:
                    bad.append(('the kernel found no non-ASCII unit but source and destination advance differently (%s vs %s)' % (d_src, d_dst), at))
            else:
                consumed = ('fld', ('fld', ('as', res, 'Some'), '0'), '1')
                if d_dst != ((consumed,), 0):
                    bad.append(('after the kernel consumed n units the destination position must advance by exactly n; it advances by %s' % (d_dst,), at))
                if d_src[0] != (consumed,) or d_src[1] < 0 or (stop and d_src[1] != 0):
                    bad.append(('after the kernel consumed n units the source position must advance by n%s; it advances by %s'
                                % (' (nothing more on a path that stops)' if stop else ' + the units of the non-ASCII character', d_src), at))
            if stop:
                tup = rv[2][0] if rv[2] else None
                if not (tup is not None and tup[0] == 'agg' and len(tup[2]) == 3):
                    bad.append(('Stop does not carry (result, read, written)', at))
                else:
                    rd, wr = tup[2][1], tup[2][2]
                    wr_ok = (dst_pos is not None and wr == dst_pos) or (wr[0] == 'call' and (wr[1] or '').endswith('ByteDestination::written') and _bare(wr[2][0]) == ('loc', 2))
                    # ... or what the destination's own space check reports as written in its Full answer (R-HANDLE: Full carries written())
                    if not wr_ok and wr[0] == 'fld' and wr[2] == '0' and wr[1][0] == 'as' and wr[1][2] == 'Full' and wr[1][1][0] == 'call' and \
                            '::check_space_' in (wr[1][1][1] or '') and _bare(wr[1][1][2][0]) == (('loc', 1) if from_side else ('loc', 2)):
                        wr_ok = True
                    if rd != src_pos:
                        bad.append(('the read count reported with Stop is not the source position: %s' % expr_str(rd, b)[:60], at))
                    if not wr_ok:
                        bad.append(('the written count reported with Stop is not the destination position: %s' % expr_str(wr, b)[:60], at))
        n += 1
        rep.ob(rule, name, not bad and k_paths >= 2, bad[0][0] if bad else 'no path through the ASCII kernel found', bad[0][1] if bad else site,
               {'paths': k_paths, 'problems': len(bad)}, c)
    return n
