"""R-LOOKAHEAD — surrogate look-ahead exactness: after a high surrogate, the decision "there is no next unit, so it is
unpaired" must test exactly the index that the pairing code then reads.  A guard that is tighter than the read
(e.g. `pos + 1 < len` before reading `src[pos]`) makes a valid pair at the end of a buffer look unpaired."""
from mirlib import *
from ranges import *
import r_surr

HI = ISet.of((0xD800, 0xDBFF))


def index_reads(b, r):
    """[(bb, slice_expr, index_expr)] for element reads slice[idx] / get_unchecked(slice, idx) / UnalignedU16Slice::at."""
    out = []
    for bi, blk in enumerate(b.blocks):
        for st in blk['s']:
            if 'assign' in st:
                rv = st['rv']
                ops = []
                if 'use' in rv:
                    ops = [rv['use']]
                elif 'cast' in rv:
                    ops = [rv['x']]
                for o in ops:
                    pl = op_place(o)
                    if pl and any(isinstance(e, dict) and 'index' in e for e in pl['p']):
                        base = {'l': pl['l'], 'p': []}
                        for e in pl['p']:
                            if isinstance(e, dict) and 'index' in e:
                                rr = Resolver(b)
                                out.append((bi, strip_ref(rr.place(base)), rr.local(e['index'])))
                                break
                            base['p'].append(e)
        t = blk['t']
        if 'call' in t:
            fn = b.callee(t) or ''
            if fn.endswith('::get_unchecked') or fn.endswith('UnalignedU16Slice::at'):
                rr = Resolver(b)
                out.append((bi, strip_ref(rr.operand(t['args'][0])), rr.operand(t['args'][1])))
    return out


def norm_len(e):
    """len(x) or handles::UnalignedU16Slice::len(x) -> x"""
    if e[0] == 'len':
        return strip_ref(e[1])
    if e[0] == 'call' and (e[1] or '').endswith('UnalignedU16Slice::len'):
        return strip_ref(e[2][0])
    return None


def run(rep, f, c, rule, want=lambda n: True):
    n = 0
    for name, b in sorted(f.bodies.items()):
        if not want(name):
            continue
        preds = [p for p in scalar_predicates(f, b) if p['bits'] in (16, 32) and p['true_set'] is not None]
        his = []
        ctxs = r_surr.contexts(f, b, preds) if preds else {}
        for p in preds:
            # the test in its context (see R-SURR): `u < 0xDC00` under an is-surrogate test is a high-surrogate test
            ctx = ctxs[id(p)]
            ts, fs = p['true_set'] & ctx, ctx - p['true_set']
            if ts == HI and fs:
                his.append((p, True))
            elif fs == HI and ts:
                his.append((p, False))
        if not his:
            continue
        r = Resolver(b)
        reads = index_reads(b, r)
        for p, truth in his:
            S = p['bb']
            t = b.blocks[S]['t']
            if 'switch' not in t:
                continue
            hi_targets = [tg for lab, tg in switch_edges(b, S) if bool_truth(b, S, lab) is truth]
            if not hi_targets:
                continue
            region = b.reach_from(hi_targets, stop=set(h for _, h in b.back_edges()))
            # the first length guard inside the high-surrogate region
            for G in sorted(region):
                tg = b.blocks[G]['t']
                if 'switch' not in tg or tg.get('sty') != 'bool':
                    continue
                if not any(x in b.dom[G] for x in hi_targets):
                    continue
                cond = Resolver(b).operand(tg['switch'])
                if cond[0] != 'bin' or cond[1] not in ('Lt', 'Eq', 'Ne', 'Ge', 'Le', 'Gt'):
                    continue
                A, L = cond[2], cond[3]
                sl = norm_len(L)
                if sl is None:
                    sl = norm_len(A)
                    A, L = L, A
                    if sl is None:
                        continue
                op = cond[1]
                # in-bounds side
                if op == 'Lt':
                    inb = True
                elif op in ('Eq',):
                    inb = False
                elif op == 'Ne':
                    inb = True
                elif op == 'Ge':
                    inb = False
                else:
                    continue
                in_targets = [x for lab, x in switch_edges(b, G) if bool_truth(b, G, lab) is inb]
                if not in_targets:
                    continue
                inside = b.reach_from(in_targets, stop=set(h for _, h in b.back_edges()))
                # first read of the same slice on the in-bounds side, dominated by that edge
                cands = [(bi, idx) for bi, s_, idx in reads if bi in inside and any(x in b.dom[bi] for x in in_targets) and (s_ == sl or strip_ref(s_) == sl)]
                if not cands:
                    continue
                cands.sort()
                bi0, idx = cands[0]
                n += 1
                key = '%s:%s' % (name, expr_str(A, b)[:60])
                rep.ob(rule, key, idx == A,
                       'after a high surrogate the code decides "no next unit" by testing index %s against the length but then reads index %s: '
                       'a valid pair ending the buffer would be treated as unpaired (or the read is out of step)' % (expr_str(A, b)[:60], expr_str(idx, b)[:60]),
                       sp_str(b.blocks[G]['tsp']), {'guard_index': expr_str(A, b)[:60], 'read_index': expr_str(idx, b)[:60]}, c)
                break
    return n
