"""Exact character classes of the ASCII-compatible encoders' BMP arm (C03-D4/D5): which code units are folded onto
which constant bytes, which are reported unmappable outright — extracted by interval propagation over `bmp`."""
from mirlib import *
from paths import loop_heads
from shape import *
from ranges import *

BMP = ISet.of((0x80, 0xD7FF), (0xE000, 0xFFFF))


def bmp_classes(f, b):
    # the BMP arm's code unit: a u16 local whose single definition is the payload of NonAscii::BmpExclAscii (found structurally)
    bl = []
    r0 = Resolver(b)
    for i, l in enumerate(b.locals):
        if l['ty'] == 'u16' and i > b.arg_count:
            ds0 = [d for d in b.defs.get(i, []) if d[2] == 'assign']
            if len(ds0) == 1 and len(b.defs.get(i, [])) == 1:
                pl0 = op_place(ds0[0][3]['rv']['use']) if 'use' in ds0[0][3]['rv'] else None
                # the binding itself (`_n = copy (x as BmpExclAscii).0`), not later copies of it
                if pl0 is not None and any(isinstance(e, dict) and e.get('downcast') == 'BmpExclAscii' for e in pl0['p']):
                    bl.append(i)
    if not bl:
        return None
    out = {}
    mixed = []
    gates = {}
    for L in bl:
        ds = [d for d in b.defs.get(L, []) if d[2] == 'assign']
        if len(ds) != 1:
            continue
        r = Resolver(b)
        xkeys = {('loc', L), r.rvalue(ds[0][3]['rv'])}
        ra = RangeAnalysis(f, b, xkeys, 16, BMP, entries=[ds[0][0]], stop=set(loop_heads(b)), opaque_ok=True, N=0x10000)
        mixed += ra.mixed
        for bi, blk in enumerate(b.blocks):
            reach = ra.reach_of(bi) & BMP
            if not reach or bi == ds[0][0] and False:
                continue
            t = blk['t']
            if 'call' not in t:
                continue
            fn = b.callee(t) or ''
            key = None
            if fn.endswith('Handle::write_one'):
                a = r.operand(t['args'][1])
                key = 'one:%02X' % a[1] if a[0] == 'c' else 'one:expr'
            elif fn.endswith('Handle::write_two'):
                a1, a2 = r.operand(t['args'][1]), r.operand(t['args'][2])
                key = 'two:%s,%s' % ('%02X' % a1[1] if a1[0] == 'c' else '*', '%02X' % a2[1] if a2[0] == 'c' else '*')
            elif fn.endswith('Handle::write_four'):
                key = 'four'
            elif fn == 'EncoderResult::unmappable_from_bmp':
                key = 'unmappable'
            elif fn.endswith('::encode_hanzi'):
                key = 'hanzi'
            if key:
                out[key] = out.get(key, ISet()) | reach
                # boolean gates on self fields controlling this block (e.g. gb18030 `extended`)
                for k, e, v, S in block_conditions(b, bi, r):
                    if k == 'bool' and e[0] == 'fld' and e[1] == ('deref', ('loc', 1)):
                        gates.setdefault(key, set()).add((e[2], v))
                    if k == 'bool' and e[0] == 'un' and e[1] == 'Not' and e[2][0] == 'fld' and e[2][1] == ('deref', ('loc', 1)):
                        gates.setdefault(key, set()).add((e[2][2], not v))
    return out, mixed, gates


I = ISet.of
EXPECT = {
    # Encoding Standard encoders: EUC-JP steps 5-7, Shift_JIS steps 4-6, gb18030 steps 3-5
    'euc_jp::EucJpEncoder': {'one:5C': I(0xA5), 'one:7E': I(0x203E), 'two:A1,DD': I(0x2212), 'two:8E,*': I((0xFF61, 0xFF9F))},
    'shift_jis::ShiftJisEncoder': {'one:5C': I(0xA5), 'one:7E': I(0x203E), 'two:81,7C': I(0x2212), 'one:80': I(0x80), 'one:expr': I((0xFF61, 0xFF9F))},
    'gb18030::Gb18030Encoder': {'one:80': I(0x20AC)},
    'big5::Big5Encoder': {},
    'euc_kr::EucKrEncoder': {},
}


def run(rep, f, c, rule):
    n = 0
    for ty, exp in sorted(EXPECT.items()):
        for src in ('utf8', 'utf16'):
            fn = '%s::encode_from_%s_raw' % (ty, src)
            b = f.body(fn)
            if b is None:
                rep.undecidable(rule, fn, 'not found', None, c)
                continue
            site = sp_str(b.raw['span'])
            res = bmp_classes(f, b)
            if res is None:
                rep.undecidable(rule, fn, 'BMP arm not found', site, c)
                continue
            cl, mixed, gates = res
            if mixed:
                rep.undecidable(rule, fn, 'classification not decidable: %r' % (mixed[:1],), site, c)
                continue
            n += 1
            consts = {k: v for k, v in cl.items() if k.startswith('one:') or (k.startswith('two:') and k != 'two:*,*')}
            for k, want in exp.items():
                got = consts.get(k, ISet())
                rep.ob(rule, '%s:%s' % (fn, k), got == want, 'characters folded onto %s: implementation %r, Standard %r' % (k, got, want), site, {'set': repr(got)}, c)
            extra = {k: v for k, v in consts.items() if k not in exp and k.startswith('one:')}
            rep.ob(rule, '%s:no-other-folding' % fn, not extra, 'characters folded onto constant single bytes the Standard does not fold: %r' % {k: repr(v) for k, v in extra.items()}, site, None, c)
            if ty == 'gb18030::Gb18030Encoder':
                # GBK vs gb18030: euro as 0x80 only when !extended; four-byte forms only when extended; U+E5E5 always unmappable
                rep.ob(rule, fn + ':euro-gate', gates.get('one:80') == {('extended', False)}, 'the single-byte euro must be gated by !extended (GBK only): %r' % gates.get('one:80'), site, None, c)
                rep.ob(rule, fn + ':four-byte-gate', ('extended', False) not in gates.get('four', set()) and bool(cl.get('four')),
                       'four-byte output must not be reachable when !extended (GBK)', site, {'gates': sorted(map(str, gates.get('four', [])))}, c)
                # the unified-ideograph block U+4E00-U+9FA5, and nothing else, goes to the hanzi encoder (range interpolation / the
                # direct table): U+9FA6 on is in the ranges part of gb18030
                if 'hanzi' in cl:
                    rep.ob(rule, fn + ':hanzi-block', cl['hanzi'] == I((0x4E00, 0x9FA5)),
                           'the characters routed to encode_hanzi are %r; the unified ideographs are U+4E00-U+9FA5' % cl['hanzi'], site, {'set': repr(cl['hanzi'])}, c)
                un = cl.get('unmappable', ISet())
                rep.ob(rule, fn + ':E5E5', 0xE5E5 in un and not (un & I((0x4E00, 0x9FA5))), 'U+E5E5 must be unmappable and the unified ideographs never: %r' % un, site, None, c)
    rep.floor(rule, 'encoder BMP arms analysed', n, 10, c)


FETCH = ('ascii::basic_latin_to_ascii', 'ascii::ascii_to_ascii', 'ReadHandle::read', 'ReadHandle::read_enum', 'copy_ascii_to_check_space_one', 'copy_ascii_to_check_space_two', 'copy_ascii_to_check_space_four')


def origins(b, e, seen=None, depth=0):
    """Where can the value of expression e come from?  {'fetch', 'FFFD', 'const', 'src', 'other'}"""
    seen = seen if seen is not None else set()
    out = set()
    if depth > 30:
        return {'other'}
    k = e[0]
    if k == 'c':
        return {'FFFD'} if e[1] == 0xFFFD else {'const'}
    if k == 'call':
        fn = e[1] or ''
        if fn.endswith(FETCH):
            return {'fetch'}
        if fn.endswith('::get_unchecked') or 'index' in fn.rsplit('::', 1)[-1] or (fn.startswith('core::slice::<impl [T]>::') and fn.rsplit('::', 1)[-1] in ('get', 'first', 'last')):
            base = strip_ref(e[2][0])
            return {'src'} if base == ('loc', 2) else {'other'}
        if fn.startswith('core::') or fn.startswith('EncoderResult::'):
            for a in e[2]:
                out |= origins(b, a, seen, depth + 1)
            return out or {'other'}
        return {'other'}
    if k == 'loc':
        l = e[1]
        if l in seen:
            return set()
        seen.add(l)
        ds = b.defs.get(l, [])
        if not ds:
            return {'other'}
        for bi, si, kind, node in ds:
            r = Resolver(b)
            if kind == 'assign':
                out |= origins(b, r.rvalue(node['rv']), seen, depth + 1)
            elif kind == 'call':
                out |= origins(b, r.call(node, bi, 0), seen, depth + 1)
            else:
                out.add('other')
        return out
    if k in ('fld', 'as', 'deref', 'ref', 'un', 'discr'):
        return origins(b, e[1] if k != 'un' else e[2], seen, depth + 1)
    if k == 'cast':
        return origins(b, e[2], seen, depth + 1)
    if k == 'bin':
        return origins(b, e[2], seen, depth + 1) | origins(b, e[3], seen, depth + 1)
    if k == 'idx':
        base = strip_ref(e[1])
        return {'src'} if base == ('loc', 2) else {'other'}
    if k == 'agg':
        for a in e[2]:
            out |= origins(b, a, seen, depth + 1)
        return out or {'const'}
    return {'other'}


def payloads(rep, f, c, rule):
    """Every Unmappable payload is the character fetched in this iteration (possibly assembled from a surrogate pair read
    from src), or U+FFFD at a site that is about surrogates / forbidden controls."""
    n = 0
    for name, b in sorted(f.bodies.items()):
        if 'Encoder::encode_from_' not in name or not name.endswith('_raw') or name.startswith(('variant::', 'Encoder::')):
            continue
        r = Resolver(b)
        k_ = 0
        for bi, blk in enumerate(b.blocks):
            sites = []
            for st in blk['s']:
                if 'assign' in st and 'aggregate' in st['rv'] and isinstance(st['rv']['aggregate'], dict) and st['rv']['aggregate'].get('variant') == 'Unmappable' \
                        and st['rv']['aggregate'].get('adt') == 'EncoderResult':
                    sites.append((r.operand(st['rv']['ops'][0]), sp_str(st['sp'])))
            t = blk['t']
            if 'call' in t and (b.callee(t) or '').startswith('EncoderResult::unmappable_from'):
                sites.append((r.operand(t['args'][0]), sp_str(blk['tsp'])))
            for e, at in sites:
                n += 1
                og = origins(b, e)
                ok = 'other' not in og and ('fetch' in og or 'src' in og or og == {'FFFD'})
                if og == {'FFFD'}:
                    # allowed only in the ISO-2022-JP encoder (forbidden controls; class checked exactly elsewhere) and in the
                    # hand-written single-byte UTF-16 loop, where the site must be about surrogates
                    if name.startswith('iso_2022_jp::'):
                        ok = True
                    elif name == 'single_byte::SingleByteEncoder::encode_from_utf16_raw':
                        cs = block_conditions(b, bi, r)
                        ok = any(kk == 'bool' and any(s_[0] == 'c' and s_[1] in (0xD800, 0xDC00, 0xFC00) for s_ in walk(ee)) for kk, ee, vv, S in cs)
                        if not ok:
                            # the same in any other form: the site is controlled by a test that, in its context, denotes a surrogate class
                            import r_surr
                            from ranges import scalar_predicates
                            preds = [p_ for p_ in scalar_predicates(f, b) if p_['bits'] in (16, 32) and p_['true_set'] is not None]
                            ctxs = r_surr.contexts(f, b, preds) if preds else {}
                            tests = set()
                            for p_ in preds:
                                ctx = ctxs[id(p_)]
                                ts_, fs_ = p_['true_set'] & ctx, ctx - p_['true_set']
                                if (ts_ and fs_) and (ts_ in (r_surr.HI, r_surr.LO, r_surr.SUR) or fs_ in (r_surr.HI, r_surr.LO, r_surr.SUR)):
                                    tests.add(p_['bb'])
                                    tt_ = b.blocks[p_['bb']]['t']
                                    if 'call' in tt_ and tt_.get('target') is not None:
                                        tests.add(tt_['target'])
                            ok = any(S in tests for kk, ee, vv, S in cs)
                    else:
                        ok = False
                rep.ob(rule, '%s:payload#%s' % (name, '+'.join(sorted(og))), ok,
                       'Unmappable payload does not derive from the character fetched in this iteration (origins: %s)' % sorted(og), at, {'origins': sorted(og)}, c)
    rep.floor(rule, 'Unmappable payload sites', n, 50, c)


# small tables that are searched whole, in one place, behind a range guard: confirmed on the pinned tree that every entry passes
# the guard (the guard is a pre-filter, the table is the mapping).  An entry outside the guard can never be found: the mapping the
# Standard prescribes for it (gb18030-2022 PUA overrides, the KS X 1001 / GB 2312 symbol rows) is lost.  Tables with entries that
# are deliberately handled elsewhere (GB2312_PINYIN: U+1E3F; the sliced GB2312_SYMBOLS / KSX1001_SYMBOLS / GBK_BOTTOM) are not listed.
GUARDED_TABLES = ('gb18030_2022::GB18030_2022_OVERRIDE_PUA', 'data::GB2312_SYMBOLS_AFTER_GREEK', 'data::KSX1001_LOWERCASE', 'data::KSX1001_UPPERCASE',
                  'data::KSX1001_BOX')


def guarded_tables(rep, f, c, rule):
    import json as _json
    n = 0
    for name, b in sorted(f.bodies.items()):
        r = None
        for bi, t in b.calls():
            if (b.callee(t) or '') != 'data::position' or len(t['args']) != 2:
                continue
            r = r or Resolver(b)
            a0 = strip_ref(r.operand(t['args'][0]))
            while a0[0] in ('deref', 'ref'):
                a0 = strip_ref(a0[1])
            # the whole table: &T[..]
            if not (a0[0] == 'call' and len(a0[2]) == 2 and a0[2][1][0] == 'agg' and a0[2][1][1].endswith('RangeFull::RangeFull')):
                continue
            base = strip_ref(a0[2][0])
            while base[0] in ('deref', 'ref'):
                base = strip_ref(base[1])
            if not (base[0] == 'cptr' and '"static"' in base[1]):
                continue
            tname = _json.loads(base[1]).get('static')
            if tname not in GUARDED_TABLES or tname not in f.statics:
                continue
            raw = bytes.fromhex(f.statics[tname]['alloc']['bytes'])
            tab = [raw[i] | (raw[i + 1] << 8) for i in range(0, len(raw), 2)]
            leaf = strip_ref(r.operand(t['args'][1]))
            if leaf[0] != 'loc' or b.locals[leaf[1]]['ty'] != 'u16':
                continue
            ra = RangeAnalysis(f, b, {leaf}, 16, ISet.of((0, 0xFFFF)), opaque_ok=True, N=0x10000)
            if ra.mixed:
                continue
            reach = ra.reach_of(bi)
            miss = sorted({v for v in tab if v and v not in reach})
            n += 1
            rep.ob(rule, '%s:%s' % (name, tname.rsplit('::', 1)[-1]), not miss,
                   'the table %s is searched only for code units in %r, but it holds entries outside that set which can therefore never be found: %s'
                   % (tname, reach, ', '.join('U+%04X' % v for v in miss[:6])), sp_str(b.blocks[bi]['tsp']), {'entries': len(tab), 'guard': repr(reach)}, c)
    return n
