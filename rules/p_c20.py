"""C20 — Encoding metadata predicates tell the truth (table clauses; DESIGN.md §6 C20)."""
from mirlib import *
from ranges import *
import json

MANIFEST = {
    'category': 'proof',
    'text': 'Finite obligations over the 40 Encoding statics, all discharged from const-evaluated statics and MIR: each '
            'public `X: &Encoding` points at its own X_INIT with a distinct name and the variant the Standard assigns; the '
            'predicates is_ascii_compatible / is_potentially_borrowable / output_encoding / can_encode_everything are evaluated '
            'as exact subsets of the 40 instances (abstract interpretation over the finite pointer domain) and equal the '
            'Standard\'s sets; output_encoding is idempotent and is what new_encoder() dispatches on (its unreachable arms are '
            'exactly the remapped variants); is_single_byte is exactly {SingleByte, UserDefined} and exactly those variants\' '
            'length queries are the identity; eq/hash are by address and no Encoding can be constructed, cloned or mutated '
            'outside the crate. R-XUD: for x-user-defined, which has no table, the converters\' exact classes are extracted by interval '
            'propagation (bytes 00-7F / U+0000-U+007F identity, 80-FF <-> U+F780-U+F7FF, everything else unmappable with the '
            'character itself as payload). That bytes 00-7F really round-trip in each of the other ASCII-compatible converters is '
            'behaviour and not decided here (their ASCII paths are the shared kernels of C14/C17). C20-D2.encode: every returning path of Encoding::encode reports, as the encoding used, the value of its self.output_encoding() call.',
    'note': 'Trusted: rustc const evaluation and MIR, mirx, rule library, the Standard\'s encoding list transcribed in rules/p_c20.py.',
    'technique': 'abstract interpretation over a finite pointer domain (40 statics) + obligations on const-evaluated statics',
}
CONFIGS = {'quick': ['default'], 'thorough': ['default', 'noalloc', 'simd', 'fast']}

# Encoding Standard §4 (names) -> implementation variant
SPEC = {
    'Big5': 'Big5', 'EUC-JP': 'EucJp', 'EUC-KR': 'EucKr', 'GBK': 'Gbk', 'IBM866': 'SingleByte', 'ISO-2022-JP': 'Iso2022Jp',
    'ISO-8859-10': 'SingleByte', 'ISO-8859-13': 'SingleByte', 'ISO-8859-14': 'SingleByte', 'ISO-8859-15': 'SingleByte',
    'ISO-8859-16': 'SingleByte', 'ISO-8859-2': 'SingleByte', 'ISO-8859-3': 'SingleByte', 'ISO-8859-4': 'SingleByte',
    'ISO-8859-5': 'SingleByte', 'ISO-8859-6': 'SingleByte', 'ISO-8859-7': 'SingleByte', 'ISO-8859-8': 'SingleByte',
    'ISO-8859-8-I': 'SingleByte', 'KOI8-R': 'SingleByte', 'KOI8-U': 'SingleByte', 'Shift_JIS': 'ShiftJis',
    'UTF-16BE': 'Utf16Be', 'UTF-16LE': 'Utf16Le', 'UTF-8': 'Utf8', 'gb18030': 'Gb18030', 'macintosh': 'SingleByte',
    'replacement': 'Replacement', 'windows-1250': 'SingleByte', 'windows-1251': 'SingleByte', 'windows-1252': 'SingleByte',
    'windows-1253': 'SingleByte', 'windows-1254': 'SingleByte', 'windows-1255': 'SingleByte', 'windows-1256': 'SingleByte',
    'windows-1257': 'SingleByte', 'windows-1258': 'SingleByte', 'windows-874': 'SingleByte', 'x-mac-cyrillic': 'SingleByte',
    'x-user-defined': 'UserDefined',
}
NOT_ASCII_COMPAT = {'replacement', 'UTF-16BE', 'UTF-16LE', 'ISO-2022-JP'}
TO_UTF8 = {'replacement', 'UTF-16BE', 'UTF-16LE'}


def inits(f):
    """{X_INIT: (name, variant)} from the static initializer bodies."""
    out = {}
    for n, b in f.bodies.items():
        if b.kind != 'static' or not n.endswith('_INIT') or f.statics.get(n, {}).get('ty') != 'Encoding':
            continue
        name = var = None
        r = Resolver(b)
        for blk in b.blocks:
            for st in blk['s']:
                if 'assign' in st and 'aggregate' in st['rv']:
                    k = st['rv']['aggregate']
                    if isinstance(k, dict) and k.get('adt') == 'Encoding':
                        ops = dict(zip(k['fields'], st['rv']['ops']))
                        c = ops['name'].get('const')
                        if c and 'str' in c:
                            name = c['str']
                        v = r.operand(ops['variant'])
                        if v[0] == 'agg' and v[1].startswith('variant::VariantEncoding::'):
                            var = v[1].rsplit('::', 1)[1]
        out[n] = (name, var)
    return out


def run_cfg(rep, f, c):
    I = inits(f)
    rep.floor('C20-D1', 'Encoding *_INIT statics', len(I), 40, c, exact=True)
    rep.ob('C20-D1.count', 'instances', len(I) == 40, 'the Standard defines 40 encodings (incl. x-user-defined, replacement); found %d' % len(I), None, {'count': len(I)}, c)
    names = {}
    for st, (name, var) in sorted(I.items()):
        ok = name in SPEC and SPEC[name] == var
        rep.ob('C20-D1.variant', st, ok, 'static %s has name %r variant %r; the Standard/implementation table expects %r' % (st, name, var, SPEC.get(name)),
               sp_str(f.statics[st]['span']), {'name': name, 'variant': var}, c)
        names.setdefault(name, []).append(st)
    rep.ob('C20-D1.distinct', 'names', all(len(v) == 1 for v in names.values()) and set(names) == set(SPEC),
           'names are not exactly the 40 distinct names of the Standard: extra %r missing %r' % (sorted(set(names) - set(SPEC)), sorted(set(SPEC) - set(names))), None, None, c)
    # public pointer statics X -> X_INIT
    ptr = {}
    for n, s in f.statics.items():
        if s['ty'] == "&'static Encoding" or s['ty'] == '&Encoding':
            rl = s['alloc']['relocs']
            tgt = rl[0]['to'].get('static') if len(rl) == 1 and rl[0]['off'] == 0 else None
            ptr[n] = tgt
            rep.ob('C20-D1.pointer', n, tgt == n + '_INIT', 'static %s does not point at %s_INIT (points at %r)' % (n, n, tgt),
                   sp_str(s['span']), {'target': tgt}, c)
    rep.ob('C20-D1.pointers', 'public statics', sorted(ptr.values()) == sorted(I), 'public Encoding statics do not cover the 40 instances one-to-one',
           None, {'count': len(ptr)}, c)
    order = sorted(I)
    idx = {st: i for i, st in enumerate(order)}
    f.ptrmap = dict(idx)
    for n, tgt in ptr.items():
        if tgt in idx:
            f.ptrmap[n] = idx[tgt]
    DOM = ISet.of((0, len(order) - 1))
    name_of = {idx[st]: I[st][0] for st in order}

    def setnames(s):
        return {name_of[i] for lo, hi in s.iv for i in range(lo, hi + 1)}

    def pred_set(fn):
        b = f.body(fn)
        if b is None:
            rep.undecidable('C20-D2', fn, 'function not found', None, c)
            return None, None
        ra = RangeAnalysis(f, b, {('loc', 1)}, 8, DOM)
        if ra.mixed:
            rep.undecidable('C20-D2', fn, 'not a pure chain of instance comparisons: %r' % (ra.mixed[:1],), sp_str(b.raw['span']), c)
            return None, None
        return ra, b

    # is_ascii_compatible
    ra, b = pred_set('Encoding::is_ascii_compatible')
    if ra:
        ts, fs, us = ra.return_value().truth_set()
        rep.ob('C20-D2.ascii_compatible', 'Encoding::is_ascii_compatible', not (us & DOM) and setnames(fs & DOM) == NOT_ASCII_COMPAT,
               'false-set is %r; the Standard\'s non-ASCII-compatible encodings are %r' % (sorted(setnames(fs & DOM)), sorted(NOT_ASCII_COMPAT)),
               sp_str(b.raw['span']), {'false_set': sorted(setnames(fs & DOM))}, c)
    if c != 'noalloc':
        ra, b = pred_set('Encoding::is_potentially_borrowable')
        if ra:
            ts, fs, us = ra.return_value().truth_set()
            rep.ob('C20-D2.borrowable', 'Encoding::is_potentially_borrowable', not (us & DOM) and setnames(fs & DOM) == TO_UTF8,
                   'false-set is %r, expected %r' % (sorted(setnames(fs & DOM)), sorted(TO_UTF8)), sp_str(b.raw['span']),
                   {'false_set': sorted(setnames(fs & DOM))}, c)
    # output_encoding as a map index -> index
    ra, b = pred_set('Encoding::output_encoding')
    outmap = None
    if ra:
        rv = ra.return_value()
        outmap = {}
        bad = False
        for lo, hi, k, a in rv.pieces:
            for i in range(lo, min(hi, len(order) - 1) + 1):
                if k == 'c':
                    outmap[i] = a
                elif k == 'x':
                    outmap[i] = i + a
                else:
                    bad = True
        utf8 = idx.get('UTF_8_INIT')
        want = {i: (utf8 if name_of[i] in TO_UTF8 else i) for i in range(len(order))}
        rep.ob('C20-D2.output_encoding', 'Encoding::output_encoding', not bad and outmap == want,
               'output_encoding map differs from the Standard (§4.3: replacement, UTF-16BE/LE -> UTF-8, identity otherwise): %r' %
               {name_of[i]: name_of.get(outmap.get(i)) for i in want if outmap.get(i) != want[i]}, sp_str(b.raw['span']),
               {'remapped': sorted(name_of[i] for i in outmap if outmap[i] != i)}, c)
        rep.ob('C20-D2.idempotent', 'Encoding::output_encoding', not bad and all(outmap.get(outmap.get(i)) == outmap.get(i) for i in range(len(order))),
               'output_encoding is not idempotent', sp_str(b.raw['span']), None, c)
    ra, b = pred_set('Encoding::can_encode_everything')
    if ra and outmap is not None:
        ts, fs, us = ra.return_value().truth_set()
        want = {name_of[i] for i in outmap if outmap[i] == idx.get('UTF_8_INIT')}
        rep.ob('C20-D2.can_encode_everything', 'Encoding::can_encode_everything', not (us & DOM) and setnames(ts & DOM) == want,
               'true-set %r is not {encodings whose output encoding is UTF-8} = %r' % (sorted(setnames(ts & DOM)), sorted(want)),
               sp_str(b.raw['span']), {'true_set': sorted(setnames(ts & DOM))}, c)
    # new_encoder: enc = self.output_encoding(); enc.variant.new_encoder(enc)
    b = f.body('Encoding::new_encoder')
    if b is None:
        rep.undecidable('C20-D2.new_encoder', 'Encoding::new_encoder', 'not found', None, c)
    else:
        r = Resolver(b)
        calls = [(bi, t) for bi, t in b.calls()]
        oe = [t for bi, t in calls if b.callee(t) == 'Encoding::output_encoding']
        ne = [t for bi, t in calls if b.callee(t) == 'variant::VariantEncoding::new_encoder']
        ok = len(oe) == 1 and len(ne) == 1 and strip_ref(r.operand(oe[0]['args'][0])) == ('loc', 1)
        if ok:
            enc = r.local(oe[0]['dest']['l'])
            a0 = strip_ref(r.operand(ne[0]['args'][0]))
            a1 = strip_ref(r.operand(ne[0]['args'][1]))
            ok = a1 == enc and a0 == ('fld', enc, 'variant') or (a0[0] == 'fld' and a0[2] == 'variant' and strip_ref(a0[1]) == enc and a1 == enc)
        rep.ob('C20-D2.new_encoder', 'Encoding::new_encoder', ok, 'new_encoder does not dispatch on output_encoding()\'s variant with that encoding',
               sp_str(b.raw['span']), None, c)
    # VariantEncoding::new_encoder: unreachable arms == variants remapped by output_encoding
    vb = f.body('variant::VariantEncoding::new_encoder')
    adt = f.adts.get('variant::VariantEncoding')
    if vb is None or adt is None:
        rep.undecidable('C20-D2.unreachable', 'variant::VariantEncoding::new_encoder', 'not found', None, c)
    else:
        unreachable_vars = set()
        handled = set()
        for bi, blk in enumerate(vb.blocks):
            t = blk['t']
            if t.get('variants') and t.get('enum') == 'variant::VariantEncoding':
                for lab, tgt in switch_edges(vb, bi):
                    v = variant_of_edge(vb, bi, lab)
                    if lab == 'else' and v is None:
                        continue
                    # does this arm only diverge?
                    rr = vb.reach_from([tgt])
                    returns = any('return' in vb.blocks[x]['t'] for x in rr)
                    (handled if returns else unreachable_vars).add(v)
        want_unreach = {SPEC[n] for n in TO_UTF8}
        rep.ob('C20-D2.unreachable', 'variant::VariantEncoding::new_encoder', unreachable_vars == want_unreach,
               'diverging arms %r are not exactly the variants output_encoding() remaps %r' % (sorted(unreachable_vars), sorted(want_unreach)),
               sp_str(vb.raw['span']), {'diverging_arms': sorted(unreachable_vars), 'handled': len(handled)}, c)
    # D3 is_single_byte
    sb = f.body('variant::VariantEncoding::is_single_byte')
    if sb is None or adt is None:
        rep.undecidable('C20-D3', 'variant::VariantEncoding::is_single_byte', 'not found', None, c)
    else:
        discr = {v['discr']: v['name'] for v in adt['variants']}
        D = ISet.of(*sorted(discr))
        xkey = ('discr', ('deref', ('loc', 1)))
        ra = RangeAnalysis(f, sb, {xkey}, 64, D, N=max(discr) + 1)
        if ra.mixed:
            rep.undecidable('C20-D3', 'variant::VariantEncoding::is_single_byte', 'not a pure match on the variant', sp_str(sb.raw['span']), c)
        else:
            ts, fs, us = ra.return_value().truth_set()
            got = {discr[i] for lo, hi in (ts & D).iv for i in range(lo, hi + 1)}
            rep.ob('C20-D3.set', 'variant::VariantEncoding::is_single_byte', got == {'SingleByte', 'UserDefined'} and not (us & D),
                   'true for variants %r; must be exactly SingleByte and UserDefined' % sorted(got), sp_str(sb.raw['span']), {'true_variants': sorted(got)}, c)
        eb = f.body('Encoding::is_single_byte')
        if eb is not None:
            r = Resolver(eb)
            cs = [t for bi, t in eb.calls() if eb.callee(t) == 'variant::VariantEncoding::is_single_byte']
            ok = len(cs) == 1 and strip_ref(r.operand(cs[0]['args'][0])) == ('fld', ('deref', ('loc', 1)), 'variant') and \
                r.local(0) == r.local(cs[0]['dest']['l']) if cs else False
            if cs and not ok:
                ok = strip_ref(r.operand(cs[0]['args'][0])) == ('fld', ('deref', ('loc', 1)), 'variant') and eb.defs.get(0) and eb.defs[0][0][2] == 'call'
            rep.ob('C20-D3.delegate', 'Encoding::is_single_byte', bool(ok), 'does not return self.variant.is_single_byte()', sp_str(eb.raw['span']), None, c)
        # behavioural link: exactly the single-byte converters' length queries are the identity
        ident = {}
        for n, b2 in f.bodies.items():
            if n.endswith('Decoder::max_utf16_buffer_length') and n.count('::') == 2 and not n.startswith('Decoder::') and not n.startswith('variant::'):
                r2 = Resolver(b2)
                e = r2.local(0)
                if e == ('loc', 0):
                    ds = b2.defs.get(0, [])
                    e = r2.rvalue(ds[0][3]['rv']) if len(ds) == 1 and ds[0][2] == 'assign' else e
                ident[n] = e == ('agg', 'core::option::Option::Some', (('loc', 2),))
        one = sorted(n for n, v in ident.items() if v)
        rep.ob('C20-D3.link', 'decoder max_utf16_buffer_length identity', one == ['single_byte::SingleByteDecoder::max_utf16_buffer_length', 'x_user_defined::UserDefinedDecoder::max_utf16_buffer_length'],
               'decoders whose UTF-16 length query is the identity: %r; expected exactly the single-byte and x-user-defined decoders' % one, None,
               {'identity': one, 'decoders': len(ident)}, c)
        rep.floor('C20-D3.link', 'variant decoders', len(ident), 11, c, exact=True)
    # D4 identity semantics
    eqb = f.body('<Encoding as core::cmp::PartialEq>::eq')
    if eqb is None:
        rep.undecidable('C20-D4', 'PartialEq for Encoding', 'impl not found', None, c)
    else:
        cs = [eqb.callee(t) for bi, t in eqb.calls()]
        r = Resolver(eqb)
        ok = cs == ['core::ptr::eq']
        if ok:
            t = [t for bi, t in eqb.calls()][0]
            a = {json.dumps(strip_cast(r.operand(x))) for x in t['args']}
            ok = a == {json.dumps(('loc', 1)), json.dumps(('loc', 2))}
        rep.ob('C20-D4.eq', 'PartialEq for Encoding', ok, 'equality is not address identity (ptr::eq(self, other))', sp_str(eqb.raw['span']), {'callees': cs}, c)
    hb = f.body('<Encoding as core::hash::Hash>::hash')
    if hb is None:
        rep.undecidable('C20-D4', 'Hash for Encoding', 'impl not found', None, c)
    else:
        r = Resolver(hb)
        hs = [t for bi, t in hb.calls()]
        ok = len(hs) == 1 and 'hash' in (hb.callee(hs[0]) or '') and '*const' in (hb.callee(hs[0]) or '') + ' '.join(hs[0]['call'].get('generic', []))
        if ok:
            a0 = strip_cast(r.operand(hs[0]['args'][0]))
            ok = a0 == ('loc', 1)
        rep.ob('C20-D4.hash', 'Hash for Encoding', ok, 'hash is not computed from the address alone', sp_str(hb.raw['span']),
               {'callee': hb.callee(hs[0]) if hs else None}, c)
    enc = f.adts.get('Encoding')
    if enc is None:
        rep.undecidable('C20-D4', 'Encoding', 'struct not found', None, c)
    else:
        fields = enc['variants'][0]['fields']
        impls = [i['trait'] for i in f.impls if i['self'] == 'Encoding']
        bad = [t for t in impls if t.endswith('::Clone') or t.endswith('::Copy') or t.endswith('::Default')]
        rep.ob('C20-D4.closed', 'Encoding', all(not fl['pub'] for fl in fields) and not bad and not enc.get('copy'),
               'Encoding can be constructed or copied outside the crate (public field / Clone / Copy / Default): fields %r impls %r' %
               ([fl['name'] for fl in fields if fl['pub']], bad), sp_str(enc['span']), {'fields': [fl['name'] for fl in fields], 'trait_impls': impls}, c)
        # no function returns an owned Encoding
        owners = [n for n, b2 in f.bodies.items() if b2.raw.get('ret') == 'Encoding' and b2.kind != 'static']
        rep.ob('C20-D4.no-ctor', 'Encoding', not owners, 'functions returning an owned Encoding exist: %r' % owners[:3], None, None, c)
        # Encoding is Freeze (no interior mutability): instances cannot be mutated through &'static
        rep.ob('C20-D4.freeze', 'Encoding', enc.get('freeze') is True, 'Encoding has interior mutability', sp_str(enc['span']), None, c)


def strip_cast(e):
    e = strip_ref(e)
    while e[0] == 'cast':
        e = strip_ref(e[2])
    return e


def encode_reports(rep, f, c):
    """C20 clause "output_encoding() is the encoding that ... encode() actually use[s]": every returning path of Encoding::encode reports,
    as the second component of its result, the value of the one `self.output_encoding()` call (directly or through the local that
    carries it into the conversion loop)."""
    import paths as P
    SELF = ('loc', 1)
    fn = 'Encoding::encode'
    b = f.body(fn)
    if b is None:
        if c == 'noalloc':
            return None      # Encoding::encode returns a Cow and exists only with the `alloc` feature
        rep.undecidable('C20-D2.encode', fn, 'not found', None, c)
        return 0
    heads = P.loop_heads(b)
    n = 0
    carriers = set()
    oe = None
    pre = [p for p in (P.summarize(b, blks, end) for blks, end in P.enumerate_block_paths(b, 0, stop=heads))]
    for p in pre:
        oc = [e for e in p.calls() if e[1] == 'Encoding::output_encoding' and strip_ref(e[2][0]) == SELF]
        if len(oc) != 1:
            continue
        oe = ('call', oc[0][1], oc[0][2], oc[0][3])
        if p.end[0] == 'stop':
            for l, v in p.env.items():
                if isinstance(l, int) and strip_ref(v) == oe:
                    carriers.add(l)
    def judge(p):
        rv = p.env.get(0)
        got = strip_ref(rv[2][1]) if rv is not None and rv[0] == 'agg' and rv[1] == 'tuple' and len(rv[2]) == 3 else None
        ok = got is not None and (got == oe or (got[0] == 'init' and got[1] in carriers and len(b.defs.get(got[1], [])) == 1))
        rep.ob('C20-D2.encode', fn, ok, 'a returning path of encode() reports an encoding other than the value of self.output_encoding() '
               '(the encoding it actually converts with)', sp_str(b.blocks[p.blocks[-1]]['tsp']), None, c)
    for p in pre:
        if p.end[0] == 'return':
            n += 1
            judge(p)
    for h in heads:
        for p in P.region_paths(b, h):
            if p.end[0] == 'return':
                n += 1
                judge(p)
    return n


def run(rep, facts, tier):
    import r_xud
    for c, f in facts.items():
        run_cfg(rep, f, c)
        r_xud.run(rep, f, c)
        ne = encode_reports(rep, f, c)
        if ne is not None:
            rep.floor('C20-D2.encode', 'returning paths of Encoding::encode', ne, 3, c)
    return ('proof', MANIFEST['text'], ['Encoding Standard encoding list / output-encoding rule transcribed in rules/p_c20.py (SPEC, TO_UTF8, NOT_ASCII_COMPAT)'])
