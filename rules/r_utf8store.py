"""R-UTF8STORE — hand-inlined UTF-8 writers store exactly the UTF-8 form of the scalar they were reached with.

Outside handles.rs several conversion loops build UTF-8 bytes inline (`(unit >> 6) as u8 | 0xC0` ...).  For each of the listed
bodies, every acyclic region between loop heads is summarised; maximal runs of stores to consecutive positions of a `&mut [u8]`
are collected with their value expressions.  The surrogate-pair formula ((hi << 10) + lo - C) is recognised by shape, its
constant is checked ((0xD800 << 10) - 0x10000 + 0xDC00) and it is treated as one 21-bit input whose domain is the supplementary
planes (the path must have tested hi and lo to be a high and a low surrogate).  Otherwise the run must depend on one scalar leaf;
its domain is the intersection of the exact sets of the single-leaf conditions on the path.  Every stored byte is evaluated as an
exact piecewise function of the input (R-RANGE) and compared, piece by piece over the whole domain, with the bytes of the UTF-8
encoding of that input: same count, same bytes.  Constant runs must be a complete UTF-8 sequence (EF BF BD).
"""
from mirlib import *
from paths import *
from ranges import ISet, _mk, leaves
import scan, r_kernel

FUNCS = ['utf_8::convert_utf16_to_utf8_partial_inner', 'utf_8::convert_utf16_to_utf8_partial_tail', 'mem::convert_latin1_to_utf8_partial',
         'handles::convert_unaligned_utf16_to_utf8', 'handles::Utf8Destination::write_mid_bmp', 'handles::Utf8Destination::write_upper_bmp',
         'handles::Utf8Destination::write_astral']
PAIR_C = (0xD800 << 10) - 0x10000 + 0xDC00
ASTRAL = ISet.of((0x10000, 0x10FFFF))
HIGH, LOW = ISet.of((0xD800, 0xDBFF)), ISet.of((0xDC00, 0xDFFF))
X32 = ('loc', 999999)


def utf8(x):
    if x < 0x80:
        return [x]
    if x < 0x800:
        return [0xC0 | x >> 6, 0x80 | x & 0x3F]
    if x < 0x10000:
        return [0xE0 | x >> 12, 0x80 | (x >> 6) & 0x3F, 0x80 | x & 0x3F]
    return [0xF0 | x >> 18, 0x80 | (x >> 12) & 0x3F, 0x80 | (x >> 6) & 0x3F, 0x80 | x & 0x3F]


def strip_casts(e):
    while True:
        if e[0] == 'cast' and e[1] == 'IntToInt':
            e = e[2]
        elif e[0] == 'call' and (e[1] or '').endswith('::from') and 'From<' in (e[1] or '') and len(e[2]) == 1:
            e = e[2][0]
        else:
            return e


def pair_formula(e):
    """((u32(hi) << 10) + u32(lo)) - C   ->  (hi, lo, C)"""
    if e[0] == 'bin' and e[1] == 'Sub' and e[3][0] == 'c':
        a = e[2]
        if a[0] == 'bin' and a[1] == 'Add':
            for sh, lo in ((a[2], a[3]), (a[3], a[2])):
                if sh[0] == 'bin' and sh[1] == 'Shl' and sh[3][0] == 'c' and sh[3][1] == 10:
                    return strip_casts(sh[2]), strip_casts(lo), e[3][1]
    return None


def fold_consts(e):
    if not isinstance(e, tuple) or not e:
        return e
    if e[0] == 'bin':
        a, c = fold_consts(e[2]), fold_consts(e[3])
        if a[0] == 'c' and c[0] == 'c' and isinstance(a[1], int) and isinstance(c[1], int):
            v = {'Add': a[1] + c[1], 'Sub': a[1] - c[1], 'Mul': a[1] * c[1], 'Shl': a[1] << c[1] if 0 <= c[1] < 64 else None,
                 'Shr': a[1] >> c[1] if 0 <= c[1] < 64 else None, 'BitOr': a[1] | c[1], 'BitAnd': a[1] & c[1]}.get(e[1])
            if v is not None:
                return ('c', v, a[2])
        return ('bin', e[1], a, c)
    return tuple(fold_consts(x) if isinstance(x, tuple) else x for x in e)


def abstract_pairs(e, found):
    if not isinstance(e, tuple) or not e:
        return e
    e2 = fold_consts(e) if e[0] == 'bin' else e
    pf = pair_formula(e2)
    if pf is not None:
        found.append(pf)
        return X32
    return tuple(abstract_pairs(x, found) if isinstance(x, tuple) else x for x in e)


def store_target(pl, b):
    """place of a store -> (root, linear index) for stores into a &mut [u8]"""
    try:
        lp = scan.load_pos(pl)
    except Exception:
        return None
    if lp is None:
        return None
    root, l = lp
    if root[0] in ('loc', 'init'):
        ty = b.locals[root[1]]['ty']
        if 'mut [u8]' in ty:
            return root, l
    return None


def runs_of(p, b):
    """maximal runs of stores to consecutive indices of one &mut [u8]: [(values, first bb)]"""
    out = []
    cur = None
    wcu = [ev for ev in p.events if ev[0] == 'call' and (ev[1] or '') == 'handles::Utf8Destination::write_code_unit']
    if wcu:
        return [{'root': ('wcu',), 'last': None, 'vals': [ev[2][1] for ev in wcu], 'bb': wcu[0][3]}]
    for ev in p.events:
        if ev[0] != 'store':
            continue
        tg = store_target(ev[1], b)
        if tg is None:
            continue
        root, l = tg
        if cur is not None and cur['root'] == root:
            d = scan.lin_const(scan.lin_add(l, cur['last'], -1))
            if d == 1:
                cur['vals'].append(ev[2])
                cur['last'] = l
                continue
        if cur is not None:
            out.append(cur)
        cur = {'root': root, 'last': l, 'vals': [ev[2]], 'bb': ev[3]}
    if cur is not None:
        out.append(cur)
    return out


def leaf_domain(f, b, p, leaf, bits):
    """intersection of the exact sets of the path's single-leaf conditions on `leaf`"""
    N = 1 << bits
    dom = ISet.of((0, N - 1))
    res = Resolver(b)
    for ev in p.events:
        if ev[0] != 'cond' or not isinstance(ev[2], bool):
            continue
        e = scan.unwrap_ident(ev[1])
        if not isinstance(e, tuple) or not e or e[0] == 'c':
            continue
        ls = []
        for l_ in leaves(e):
            if l_ not in ls:
                ls.append(l_)
        if ls != [leaf]:
            continue
        ra = _mk(f, b, res, leaf, bits, N)
        ts, fs, us = ra.ev(e).truth_set()
        if us:
            continue
        dom = dom & (ts if ev[2] else fs)
    return dom


KERNELS = ('ascii::basic_latin_to_ascii', 'ascii::ascii_to_ascii', 'ascii::ascii_to_basic_latin', 'ascii::validate_ascii')


def kernel_payload(leaf):
    """(kernel(..) as Some).0.0 / (copy_*_basic_latin_to_ascii(..) as GoOn).0.0 — the first non-ASCII unit the ASCII kernels hand
    over (>= 0x80 by their contract: R-KERNEL/R-STRIDE for the ascii:: kernels, C01/C03 ASCII-copy rules for the handle copies)"""
    if not (leaf[0] == 'fld' and leaf[2] == '0' and leaf[1][0] == 'fld' and leaf[1][2] == '0' and leaf[1][1][0] == 'as' and leaf[1][1][1][0] == 'call'):
        return False
    var, fn = leaf[1][1][2], leaf[1][1][1][1] or ''
    if var == 'Some' and fn in KERNELS:
        return True
    return var == 'GoOn' and ('basic_latin_to_ascii' in fn or 'copy_ascii' in fn)


def head_invariant(f, b, heads, h, l, bits):
    """value set of the loop-carried local l at loop head h: union over every region path that arrives at h"""
    N = 1 << bits
    out = ISet()
    for h0 in [0] + sorted(heads):
        for p in region_paths(b, h0, stop=heads):
            if p.end[0] not in ('stop', 'back') or p.end[1] != h:
                continue
            v = p.env.get(l)
            if v is None:
                if h0 == h:
                    continue          # unchanged around the loop
                v = ('init', l)
            v = strip_casts(v)
            if kernel_payload(v):
                out = out | ISet.of((0x80, N - 1))
            elif v[0] == 'c':
                out = out | ISet.of(v[1])
            elif v == ('init', l) and h0 != h:
                return ISet.of((0, N - 1))
            else:
                ls = []
                for l_ in leaves(v):
                    if l_ not in ls:
                        ls.append(l_)
                if ls == [v]:
                    out = out | leaf_domain(f, b, p, v, bits)
                else:
                    return ISet.of((0, N - 1))
    return out


def leaf_domain32(f, b, p, leaf):
    N = 0x110000
    dom = ISet.of((0, N - 1))
    res = Resolver(b)
    for ev in p.events:
        if ev[0] != 'cond' or not isinstance(ev[2], bool):
            continue
        e = scan.unwrap_ident(ev[1])
        if not isinstance(e, tuple) or not e or e[0] == 'c':
            continue
        ls = []
        for l_ in leaves(e):
            if l_ not in ls:
                ls.append(l_)
        if ls != [leaf]:
            continue
        ra = _mk(f, b, res, leaf, 32, N)
        ts, fs, us = ra.ev(e).truth_set()
        if us:
            continue
        dom = dom & (ts if ev[2] else fs)
    return dom


def compare(f, b, vals, leaf, bits, dom, N):
    """-> None if every stored byte equals the UTF-8 encoding over dom, else a message"""
    res = Resolver(b)
    avs = []
    for v in vals:
        ra = _mk(f, b, res, leaf, bits, N)
        avs.append(ra.ev(v))
    cuts = set()
    for av in avs:
        for lo, hi, k, a in av.pieces:
            cuts.add(lo)
            cuts.add(hi + 1)
    for lo, hi in dom.iv:
        cuts.add(lo)
        cuts.add(hi + 1)
        x = (lo // 64) * 64
        while x <= hi + 1:
            cuts.add(x)
            x += 64
    cuts = sorted(c_ for c_ in cuts if 0 <= c_ <= N)
    ptr = [0] * len(avs)
    checked = 0
    for i in range(len(cuts) - 1):
        lo, hi = cuts[i], cuts[i + 1] - 1
        if not any(dl <= lo and hi <= dh for dl, dh in dom.iv):
            continue
        want_lo, want_hi = utf8(lo), utf8(hi)
        if len(want_lo) != len(vals) or len(want_hi) != len(vals):
            return 'for x in %X-%X the run stores %d byte(s) but UTF-8 needs %d' % (lo, hi, len(vals), len(want_lo)), checked
        for vi, av in enumerate(avs):
            ps = av.pieces
            j = ptr[vi]
            while j < len(ps) and ps[j][1] < lo:
                j += 1
            ptr[vi] = j
            if not (j < len(ps) and ps[j][0] <= lo and hi <= ps[j][1]) or ps[j][2] not in ('c', 'x'):
                return 'byte %d not decidable for x in %X-%X' % (vi, lo, hi), checked
            _, _, k, a = ps[j]
            got_lo, got_hi = (a, a) if k == 'c' else (lo + a, hi + a)
            if got_lo != want_lo[vi] or got_hi != want_hi[vi]:
                return 'for x in %X-%X byte %d is %02X..%02X, the UTF-8 encoding has %02X..%02X' % (lo, hi, vi, got_lo & 0xFFFF, got_hi & 0xFFFF, want_lo[vi], want_hi[vi]), checked
        checked += 1
    return None, checked


def run(rep, f, c, rule='R-UTF8STORE'):
    n = 0
    for fn0 in FUNCS:
        for fn in impl_bodies(f, fn0):
            b = f.body(fn)
            if b is None:
                rep.undecidable(rule, fn, 'function not found', None, c)
                continue
            heads = set(loop_heads(b))
            seen = set()
            for h in [0] + sorted(heads):
                try:
                    paths = region_paths(b, h, stop=heads)
                except OverflowError:
                    rep.undecidable(rule, fn, 'path bound exceeded', None, c)
                    continue
                for p in paths:
                    if not r_kernel.feasible_consts(p):
                        continue
                    for r_ in runs_of(p, b):
                        found = []
                        vals = [abstract_pairs(strip_casts(v) if False else v, found) for v in r_['vals']]
                        ls = []
                        for v in vals:
                            for l_ in leaves(v):
                                if l_ not in ls:
                                    ls.append(l_)
                        site = sp_str(b.blocks[r_['bb']]['tsp']) or sp_str(b.raw['span'])
                        if not ls:
                            bs = [fold_consts(v) for v in vals]
                            if not all(x[0] == 'c' for x in bs):
                                continue
                            seq = bytes(x[1] & 0xFF for x in bs)
                            key = '%s:const:%s' % (fn, seq.hex())
                            if key in seen:
                                continue
                            seen.add(key)
                            try:
                                ok = len(seq.decode('utf-8')) == 1
                            except UnicodeDecodeError:
                                ok = False
                            if len(seq) == 1 and seq[0] == 0:
                                continue      # zero fill / scrub
                            n += 1
                            rep.ob(rule, key, ok, 'constant byte run %s is not one complete UTF-8 sequence' % seq.hex(), site, None, c)
                            continue
                        if len(ls) != 1:
                            continue
                        leaf = ls[0]
                        if leaf == X32:
                            hi_, lo_, C = found[0]
                            dh = leaf_domain(f, b, p, hi_, 16)
                            dl = leaf_domain(f, b, p, lo_, 16)
                            key = '%s:pair->%d bytes' % (fn, len(vals))
                            if key in seen:
                                continue
                            seen.add(key)
                            n += 1
                            okf = C == PAIR_C and all(x[2] == C for x in found) and not (dh - HIGH) and not (dl - LOW)
                            rep.ob(rule + '.pair', key, okf,
                                   'surrogate pair formula: constant %#x (must be %#x) or the operands are not proven high (%r) and low (%r) surrogates on this path' % (C, PAIR_C, dh, dl), site, None, c)
                            if not okf:
                                continue
                            bits, dom, N = 32, ASTRAL, 0x110000
                        else:
                            bits = _ranges_bits(b, leaf)
                            if bits not in (8, 16, 32):
                                continue
                            if bits == 32:
                                N = 0x110000
                                dom = leaf_domain32(f, b, p, leaf) & ISet.of((0, 0x10FFFF))
                            else:
                                dom = leaf_domain(f, b, p, leaf, bits)
                                N = 1 << bits
                            if kernel_payload(leaf):
                                dom = dom & ISet.of((0x80, N - 1))
                            elif leaf[0] == 'init' and h in heads:
                                dom = dom & head_invariant(f, b, heads, h, leaf[1], bits)
                            is_param = leaf[0] == 'loc' and leaf[1] <= b.arg_count     # a writer's parameter: its callers owe the contract (R-WRITERS)
                            if bits == 16 and len(vals) >= 2 and (dom & ISet.of((0xD800, 0xDFFF))) and not is_param:
                                # a code unit that can still be a surrogate on this path must not be written as a sequence of its
                                # own (ED A0..BF xx is not UTF-8): it has to be paired or replaced by U+FFFD first
                                key = '%s:%d bytes:surrogate' % (fn, len(vals))
                                if key not in seen:
                                    seen.add(key)
                                    n += 1
                                    rep.ob(rule + '.surrogate', key, False,
                                           'a UTF-16 code unit that can be a surrogate on this path (%r) is stored as a %d-byte sequence of its own: the output is not UTF-8 '
                                           '(an unpaired surrogate must become U+FFFD)' % (dom & ISet.of((0xD800, 0xDFFF)), len(vals)), site, None, c)
                                continue
                        if not dom:
                            continue
                        if len(vals) == 1 and not (dom - ISet.of((0, 0x7F))):
                            continue          # ASCII pass-through
                        key = '%s:%d bytes:%r' % (fn, len(vals), dom)
                        if key in seen:
                            continue
                        seen.add(key)
                        n += 1
                        bad, checked = compare(f, b, vals, leaf, bits, dom, N)
                        rep.ob(rule, key, bad is None and checked > 0, 'inline UTF-8 writer: %s' % bad, site, {'domain': repr(dom), 'pieces_checked': checked}, c)
    rep.count('utf8store.runs:%s' % c, n)
    rep.floor(rule, 'inline UTF-8 store runs decided', n, 12, c)
    return n


def _ranges_bits(b, leaf):
    from ranges import expr_bits
    bits = expr_bits(b, leaf)
    if bits is None and leaf[0] in ('init', 'loc'):
        from ranges import ty_bits
        bits = ty_bits(b.locals[leaf[1]]['ty'])
    if bits is None and leaf[0] == 'fld':
        # payload of a kernel result: (basic_latin_to_ascii(..) as Some).0.0 -> the source unit type
        s = repr(leaf)
        if 'basic_latin_to_ascii' in s:
            return 16
        if 'ascii_to_ascii' in s or 'validate_ascii' in s:
            return 8
    return bits
