"""C01 — decoding conforms to the Encoding Standard (class-level clauses D1–D6)."""
from mirlib import *
from ranges import *
from shape import *
from paths import *
import r_decclass, r_inv, r_surr, r_pendcount, r_requeue, r_endian, r_utf8asm, r_prepend

DEC_SURR_SCOPE = lambda nm: 'Decoder::' in nm or nm.startswith(('handles::Utf16Destination', 'handles::Utf8Destination', 'handles::convert_unaligned', 'handles::UnalignedU16Slice', 'utf_16::'))

MANIFEST = {
    'category': 'other',
    'text': 'Decided for every byte value at once by exact interval propagation over each byte fetched by a decoder body (abstract '
            'interpretation on MIR with table look-ups as opaque predicates): (D1) every Malformed(length, after) construction in shipped code '
            'is within the documented ranges (length 1-4, after 0-3, sum <= 6, and no longer than the encoding\'s longest sequence; computed '
            'lengths come from pending-state counters whose value sets are extracted); (D2) push-back pairing in the ASCII-compatible '
            'multi-byte decoders: a Malformed result whose `read` comes from unread() is reachable only for ASCII trail bytes and does not count '
            'the current byte, one whose `read` comes from consumed() only for non-ASCII bytes and counts it (gb18030\'s third/fourth byte follow '
            'the Standard\'s restore rule: (1,1)+unread for bytes outside 81-FE, (1,2)+unread for bytes outside 30-39, (4,0) only for 30-39); '
            '(D3) the exact set of invalid lead bytes of Big5, EUC-KR, Shift_JIS, EUC-JP and gb18030 equals the Standard\'s; (D4) the UTF-8 '
            'streaming decoder\'s lead classes (needed 1/2/3 for C2-DF/E0-EF/F0-F4, lower A0 after E0, upper 9F after ED, lower 90 after F0, upper '
            '8F after F4, error for 80-C1 and F5-FF) equal the Standard\'s table; (D5) the ISO-2022-JP decoder\'s per-state byte classes (escape '
            'introducers, error sets {0E,0F,>7F}, Roman 5C/7E folding, katakana 21-5F, lead/trail 21-7E, Malformed(1,1)/(3,3) in the escape '
            'states) equal the Standard\'s; (D6) surrogate classification in the UTF-16 decoder uses exactly '
            'the D800-DBFF / DC00-DFFF partitions; (R-INV) the UTF-8 decoder\'s state invariant bytes_needed == 0 ==> boundaries 80/BF, bytes_seen 0, '
            'code_point 0 is inductive over every non-terminal path of both bodies (no dropped reset). Values produced by index look-ups and pointer arithmetic, trail-byte acceptance (table '
            'contents) and whole-stream equality with the Standard are numerical and not decided. ' 
            '(R-SURR) every surrogate-class test in the UTF-16 decoder, its copy_utf16_from fast paths and convert_unaligned_utf16_to_utf8 denotes exactly D800-DBFF, DC00-DFFF or D800-DFFF. ' 
            '(R-PENDCOUNT) for the two decoders that keep an unfinished sequence in an enum (EUC-JP, gb18030), Pending::count() — reported as the malformed length when the stream ends there — agrees with the bytes actually taken: on every path from a loop head to `return InputEmpty` that stores a non-None variant, count(variant) minus the number of byte reads on the path is the same for all variants (the byte already in hand at that head). ' 
            '(R-REQUEUE) on every path that ends in Malformed(len, after) with after > 0 (gb18030: 8 paths, resume and in-loop) the bytes of the current sequence are ordered chronologically (payload of the matched pending variant, byte in hand, reads minus unread) and every value stored into a state field derives only from the `after` re-queued bytes, never from the malformed ones, and each re-queued byte reaches a state field. ' 
            '(R-ENDIAN) every code unit the UTF-16LE/BE decoders read from the unaligned byte source (UnalignedU16Slice::at / simd_at) reaches its uses only through the endianness adapter: swap_if_opposite_endian, or simd_byte_swap / swap_bytes on the E::OPPOSITE_ENDIAN branch and unswapped on the other (every region path of every reading body). (R-UTF8ASM) every place that assembles a value from the bytes of a UTF-8 sequence (OR/ADD of shifted byte terms) has the shifts 6(n-1)..0, a lead term equal to byte-C0/E0/F0 on the n-byte leads and continuation terms equal to byte-80 on 80-BF, compared as exact functions over the byte domains, loaded from consecutive positions where the loads resolve (here: convert_utf8_to_utf16_up_to_invalid, 5 sites). (R-PREPEND) the byte the ISO-2022-JP decoder puts back after a broken escape sequence is written by the preamble with the same writer and the same value as the main loop decodes that byte in that state (states x {24, 28}). Also run here (shared rules, same code as in C14/C15): R-SCAN over utf_8::utf8_valid_up_to and convert_utf8_to_utf16_up_to_invalid, the UTF-8 decoder\'s fast paths.',
    'note': 'Trusted: rustc MIR, mirx, rule library, the Standard\'s decoder byte ranges transcribed in rules/p_c01.py; the ASCII fast path '
            'delivers only bytes >= 0x80 as `non_ascii` (kernel contract).',
    'technique': 'abstract interpretation (exact interval sets per fetched byte, opaque table predicates) over rustc MIR',
}
CONFIGS = {'quick': ['default'], 'thorough': ['default', 'noalloc', 'simd']}

I = ISet.of
ASCII = I((0, 0x7F))
NONASCII = I((0x80, 0xFF))
BYTE = I((0, 0xFF))

# Encoding Standard §10-§13 decoders: bytes that cannot start a sequence (>= 0x80 only; ASCII is handled by the fast path)
INVALID_LEADS = {
    'big5::Big5Decoder': I(0x80, 0xFF),                                   # lead 81-FE
    'euc_kr::EucKrDecoder': I(0x80, 0xFF),                                # lead 81-FE
    'shift_jis::ShiftJisDecoder': I(0xA0, (0xFD, 0xFF)),                  # 80 -> U+0080, A1-DF katakana, lead 81-9F / E0-FC
    'euc_jp::EucJpDecoder': I((0x80, 0x8D), (0x90, 0xA0), 0xFF),          # 8E, 8F, A1-FE
    'gb18030::Gb18030Decoder': I(0xFF),                                   # 80 -> U+20AC, lead 81-FE
}
MAXLEN = {'big5': 2, 'euc_kr': 2, 'shift_jis': 2, 'euc_jp': 3, 'gb18030': 4, 'iso_2022_jp': 3, 'replacement': 1, 'single_byte': 1,
          'utf_16': 4, 'utf_8': 3, 'x_user_defined': 1}


def d1(rep, f, c):
    n = 0
    for name, b in sorted(f.bodies.items()):
        r = Resolver(b)
        for bi, blk in enumerate(b.blocks):
            for st in blk['s']:
                if not ('assign' in st and 'aggregate' in st['rv'] and isinstance(st['rv']['aggregate'], dict) and st['rv']['aggregate'].get('variant') == 'Malformed'
                        and st['rv']['aggregate'].get('adt') == 'DecoderResult'):
                    continue
                n += 1
                ops = [r.operand(o) for o in st['rv']['ops']]
                at = sp_str(st['sp'])
                mod = name.split('::')[0]
                vals = []
                for o in ops:
                    vals.append(value_set(f, b, o))
                key = '%s:Malformed(%s,%s)' % (name, expr_str(ops[0], b)[:40], expr_str(ops[1], b)[:40])

                def in_range(L, A):
                    ok = L and A and min(L) >= 1 and max(L) <= 4 and min(A) >= 0 and max(A) <= 3 and max(L) + max(A) <= 6
                    if mod in MAXLEN and name.split('::')[0] != 'Decoder':
                        ok = ok and max(L) <= MAXLEN[mod]
                    return bool(ok)
                if any(v is None for v in vals) or not in_range(*vals):
                    # the flow-insensitive value sets do not settle it (a length computed from flags that also guard the
                    # construction, `if a || b { .. Malformed(a as u8 * 2 + b as u8, 0) }`): evaluate per executable path
                    pv = path_value_sets(f, b, bi)
                    if pv is not None:
                        vals = pv
                if any(v is None for v in vals):
                    rep.undecidable('C01-D1', key, 'operand value set not decidable', at, c)
                    continue
                L, A = vals
                ok = in_range(L, A)
                rep.ob('C01-D1', key, bool(ok), 'Malformed(length in %s, after in %s) is outside the documented ranges (length 1-4, after 0-3, sum <= 6, length <= %s)' % (
                    sorted(L), sorted(A), MAXLEN.get(mod, 4)), at, {'length': sorted(L), 'after': sorted(A)}, c)
    rep.floor('C01-D1', 'Malformed constructions', n, 130, c)


def path_value_sets(f, b, site):
    """[lengths, afters] of the Malformed built in block `site`, as the union over the executable acyclic paths through it
    (paths that test one boolean twice with different outcomes are not executable); None if the paths cannot be enumerated
    or an operand is not decidable on some path"""
    heads = set(loop_heads(b))
    L, A = set(), set()
    found = False
    try:
        for h in [0] + sorted(heads):
            for blks, end in enumerate_block_paths(b, h, stop=heads):
                if site not in (blks if end[0] != 'stop' else blks[:-1]):
                    continue
                if not repeats_consistently(b, blks, end):
                    continue
                p = summarize(b, blks, end, mk=True)
                if any(e[0] == 'cond' and isinstance(e[1], tuple) and e[1] and e[1][0] == 'c' and isinstance(e[2], bool) and bool(e[1][1]) != e[2]
                       for e in p.events):
                    continue
                for e in p.events:
                    if e[0] == 'mk' and e[2] == 'Malformed' and e[4] == site and len(e[3]) == 2:
                        l_, a_ = value_set(f, b, e[3][0]), value_set(f, b, e[3][1])
                        if l_ is None or a_ is None:
                            return None
                        # the pair, not the product: a path fixes both operands together
                        L |= l_
                        A |= a_
                        found = True
    except OverflowError:
        return None
    return [L, A] if found else None


def value_set(f, b, e, depth=0):
    """Finite set of values an operand of Malformed can take."""
    if e[0] == 'c':
        return {e[1]}
    if e[0] == 'cast':
        return value_set(f, b, e[2], depth)
    if e[0] == 'call' and 'From<bool>' in (e[1] or '') and (e[1] or '').endswith('::from') and len(e[2]) == 1:
        # u8::from(flag): 0 or 1 (which one on which path is refined by path_value_sets when the flag is a path condition)
        inner = value_set(f, b, e[2][0], depth)
        return {0, 1} if inner is None else {int(bool(x)) for x in inner}
    if e[0] == 'call' and (e[1] or '').endswith('Pending::count'):
        cb = f.body(e[1])
        adt = None
        for a in f.adts:
            if a == e[1].rsplit('::', 1)[0]:
                adt = f.adts[a]
        if cb is None or adt is None:
            return None
        discr = sorted(v['discr'] for v in adt['variants'])
        D = I(*discr)
        ra = RangeAnalysis(f, cb, {('discr', ('deref', ('loc', 1)))}, 64, D, N=max(discr) + 1)
        if ra.mixed:
            return None
        rv = ra.return_value()
        out = set()
        names = {v['discr']: v['name'] for v in adt['variants']}
        for lo, hi, k, a in rv.pieces:
            for i in range(lo, hi + 1):
                if i in names:
                    if k != 'c':
                        return None
                    # the caller only asks while something is pending: exclude the empty state
                    if names[i] == 'None':
                        continue
                    out.add(a)
        return out
    if e[0] == 'loc' and e[1] > b.arg_count and depth < 3:
        # a local assigned on several arms (`let n = match .. { .. => 2, .. => 3 }`): the union over all its definitions
        out = set()
        ds = b.defs.get(e[1], [])
        if not ds or any(k != 'assign' for _, _, k, _ in ds):
            return None
        for bi, si, k, node in ds:
            v = value_set(f, b, Resolver(b).rvalue(node['rv']), depth + 1)
            if v is None:
                return None
            out |= v
        return out
    if e[0] == 'bin' and e[1] == 'Add':
        l, r_ = value_set(f, b, e[2], depth), value_set(f, b, e[3], depth)
        if l is None or r_ is None:
            return None
        return {x + y for x in l for y in r_}
    if e[0] == 'fld' and e[1] == ('deref', ('loc', 1)) and depth < 3:
        # a counter field of the decoder: values = constants stored, closed under the +1 updates, bounded by the largest constant
        # stored to the field it is compared with (Utf8Decoder: bytes_seen < bytes_needed <= 3)
        fld = e[2]
        consts = set()
        incs = False
        for name2, b2 in f.bodies.items():
            if b2.raw.get('impl_self') != b.raw.get('impl_self'):
                continue
            r2 = Resolver(b2)
            for blk in b2.blocks:
                for st in blk['s']:
                    if 'assign' in st and st['assign']['l'] == 1 and st['assign']['p'] and st['assign']['p'][0] == 'deref':
                        fl = [x['field'] for x in st['assign']['p'] if isinstance(x, dict) and 'field' in x]
                        if fl == [fld]:
                            v = r2.rvalue(st['rv'])
                            if v[0] == 'c':
                                consts.add(v[1])
                            elif v == ('bin', 'Add', ('fld', ('deref', ('loc', 1)), fld), ('c', 1, v[3][2] if v[0] == 'bin' else 'u8')):
                                incs = True
                            else:
                                return None
        if not incs:
            return consts or None
        if fld == 'bytes_seen':
            bound = value_set(f, b, ('fld', ('deref', ('loc', 1)), 'bytes_needed'), depth + 1)
            if not bound:
                return None
            # bytes_seen is reset to 0 as soon as it reaches bytes_needed, so when an error is reported it is < bytes_needed
            return set(range(0, max(bound)))
        return None
    if e[0] == 'fld' and e[1][0] == 'as' and e[1][2] == 'Malformed':
        # passthrough of an inner result's payload (BOM replay): bounded by the inner decoder's own constructions, checked separately
        return {1} if e[2] == '0' else {0}
    return None


def d2_d3(rep, f, c):
    ndec = 0
    for ty, invalid in sorted(INVALID_LEADS.items()):
        for sink in ('decode_to_utf8_raw', 'decode_to_utf16_raw'):
            fn = '%s::%s' % (ty, sink)
            b = f.body(fn)
            if b is None:
                rep.undecidable('C01-D3', fn, 'not found', None, c)
                continue
            site = sp_str(b.raw['span'])
            res = r_decclass.classes(f, b)
            ndec += 1
            lead_seen = False
            nsites = 0
            for kind, ents, ev, mixed, rbi in res:
                mal = {k: v for k, v in ev.items() if k[0] != 'store'}
                at = sp_str(b.blocks[ents[0]]['tsp'])
                if mixed:
                    rep.undecidable('C01-D2', '%s:%s' % (fn, kind), 'classification not decidable: %r' % (mixed[:1],), at, c)
                    continue
                if kind == 'non_ascii':
                    lead_seen = True
                    got = ISet()
                    for (consts, rk), s_ in mal.items():
                        got = got | s_
                        rep.ob('C01-D3.tuple', '%s:lead' % fn, consts == (1, 0) and rk == 'consumed',
                               'an invalid lead byte must be reported as Malformed(1,0) including the byte', at, None, c)
                    rep.ob('C01-D3', fn, got == invalid, 'bytes rejected as lead: implementation %r, Standard %r' % (got, invalid), at, {'invalid_leads': repr(got)}, c)
                    continue
                if not mal:
                    continue
                nsites += 1
                un = {k: v for k, v in mal.items() if k[1] == 'unread'}
                co = {k: v for k, v in mal.items() if k[1] == 'consumed'}
                other = {k: v for k, v in mal.items() if k[1] not in ('unread', 'consumed')}
                skey = '%s:%s' % (fn, '+'.join(sorted('%s%s' % (k[1][0], k[0]) for k in mal)))
                rep.ob('C01-D2.kinds', skey, not other, 'Malformed result whose read count is neither unread() nor consumed(): %r' % list(other), at, None, c)
                gb = ty.startswith('gb18030')
                for (consts, rk), s_ in un.items():
                    if gb and consts == (1, 1):
                        ok = s_ == BYTE - I((0x81, 0xFE))
                        msg = 'gb18030 third byte: Malformed(1,1)+unread must be reported for exactly the bytes outside 81-FE, got %r' % s_
                    elif gb and consts == (1, 2):
                        ok = s_ == BYTE - I((0x30, 0x39))
                        msg = 'gb18030 fourth byte: Malformed(1,2)+unread must be reported for exactly the bytes outside 30-39, got %r' % s_
                    else:
                        ok = bool(s_) and not (s_ - ASCII) and consts[1] == 0
                        msg = 'a bad trail byte is pushed back (unread) for non-ASCII values %r: only ASCII bytes are restored to the stream' % (s_ - ASCII)
                    rep.ob('C01-D2.unread', skey + ':' + str(consts), ok, msg, at, {'bytes': repr(s_)}, c)
                for (consts, rk), s_ in co.items():
                    if gb and consts == (4, 0):
                        ok = bool(s_) and not (s_ - I((0x30, 0x39)))
                        msg = 'gb18030 Malformed(4,0) must be limited to fourth bytes 30-39, got %r' % s_
                    else:
                        ok = bool(s_) and not (s_ & ASCII) and consts[1] == 0
                        msg = 'a bad trail byte that is ASCII (%r) is consumed as part of the malformed sequence: the Standard restores it' % (s_ & ASCII)
                    rep.ob('C01-D2.consumed', skey + ':' + str(consts), ok, msg, at, {'bytes': repr(s_)}, c)
                # lengths: consumed counts the current byte, unread does not
                ul = {k[0][0] for k in un if not (gb and k[0] in ((1, 1), (1, 2)))}
                cl = {k[0][0] for k in co if not (gb and k[0] == (4, 0))}
                if ul and cl:
                    # several pending depths may share one read site (EUC-JP prolog): every consumed length must be an unread length + 1
                    rep.ob('C01-D2.length', skey, cl == {u + 1 for u in ul},
                           'lengths with the byte pushed back %s and with the byte included %s are inconsistent (included = pushed back + 1)' % (sorted(ul), sorted(cl)), at, None, c)
                # together the two outcomes cover every byte value a bad trail can have
                if un and co and not gb:
                    allu = ISet()
                    for v in un.values():
                        allu = allu | v
                    rep.ob('C01-D2.ascii-all', skey, allu == ASCII, 'ASCII trail bytes %r are never pushed back' % (ASCII - allu), at, None, c)
            rep.ob('C01-D3.found', fn, lead_seen, 'lead-byte classification not found', site, None, c)
            rep.floor('C01-D2.sites', 'trail fetch sites in %s' % fn, nsites, 2, c)
    rep.floor('C01-D3', 'ASCII-compatible multi-byte decoder bodies', ndec, 10, c)


UTF8_TABLE = {
    ('store', 'bytes_needed', 1): I((0xC2, 0xDF)), ('store', 'bytes_needed', 2): I((0xE0, 0xEF)), ('store', 'bytes_needed', 3): I((0xF0, 0xF4)),
    ('store', 'lower_boundary', 0xA0): I(0xE0), ('store', 'upper_boundary', 0x9F): I(0xED),
    ('store', 'lower_boundary', 0x90): I(0xF0), ('store', 'upper_boundary', 0x8F): I(0xF4),
    ((1, 0), 'consumed'): I((0x80, 0xC1), (0xF5, 0xFF)),
}


def d4(rep, f, c):
    for sink in ('decode_to_utf8_raw', 'decode_to_utf16_raw'):
        fn = 'utf_8::Utf8Decoder::' + sink
        b = f.body(fn)
        if b is None:
            rep.undecidable('C01-D4', fn, 'not found', None, c)
            continue
        site = sp_str(b.raw['span'])
        res = [x for x in r_decclass.classes(f, b) if x[0].startswith('read@')]
        if len(res) != 1 or res[0][3]:
            rep.undecidable('C01-D4', fn, 'byte fetch site not unique or not decidable', site, c)
            continue
        ev = res[0][2]
        for k, want in sorted(UTF8_TABLE.items(), key=str):
            got = ev.get(k, ISet())
            rep.ob('C01-D4', '%s:%s' % (fn, k), got == want, 'UTF-8 decoder class %s: implementation %r, Standard %r' % (k, got, want), site, {'bytes': repr(got)}, c)
        # no other lead-dependent constant stores to the size / boundary fields
        extra = {k: v for k, v in ev.items() if k[0] == 'store' and k[1] in ('bytes_needed', 'lower_boundary', 'upper_boundary') and k not in UTF8_TABLE
                 and not (k[2] in (0, 0x80, 0xBF) and v == BYTE)}
        rep.ob('C01-D4.extra', fn, not extra, 'unexpected boundary/size stores: %r' % {str(k): repr(v) for k, v in extra.items()}, site, None, c)
        # a bad continuation byte is pushed back, with the bytes seen so far as length
        un = [k for k in ev if k[1] == 'unread']
        rep.ob('C01-D4.restore', fn, len(un) == 1 and un[0][0][1] == 0, 'a bad continuation byte must be restored to the stream (Malformed(seen, 0) + unread)', site, None, c)


def d6(rep, f, c):
    HI, LO = I((0xD800, 0xDBFF)), I((0xDC00, 0xDFFF))
    SUR = I((0xD800, 0xDFFF))
    n = 0
    for fn in ('utf_16::Utf16Decoder::decode_to_utf8_raw', 'utf_16::Utf16Decoder::decode_to_utf16_raw'):
        b = f.body(fn)
        if b is None:
            rep.undecidable('C01-D6', fn, 'not found', None, c)
            continue
        ok = True
        found = set()
        for p in scalar_predicates(f, b):
            if p['bits'] != 16 or p['true_set'] is None:
                continue
            cs = p['true_set']
            if len(cs) in (0, p['N']):
                continue
            side = cs if not (cs - SUR) else cs.complement(0, 0xFFFF)
            if side and not (side - SUR):
                n += 1
                good = side in (HI, LO, SUR)
                found.add(repr(side))
                rep.ob('C01-D6', '%s:%r' % (fn, side), good, 'surrogate test denotes %r; must be D800-DBFF, DC00-DFFF or D800-DFFF' % side, p['at'], {'set': repr(side)}, c)
        rep.ob('C01-D6.both', fn, repr(HI) in found and repr(LO) in found, 'high and low surrogate tests not both present: %r' % sorted(found), sp_str(b.raw['span']), None, c)
    rep.floor('C01-D6', 'surrogate tests', n, 4, c)


ISO_EXPECT = {
    # Encoding Standard §12.2.1 ISO-2022-JP decoder, per state
    'Ascii': {('to', 'EscapeStart'): I(0x1B), ('malformed', (1, 0), 'consumed'): I(0x0E, 0x0F, (0x80, 0xFF)),
              ('write_ascii', 'b'): I((0, 0x7F)) - I(0x0E, 0x0F, 0x1B), ('set', 'output_flag', 0): BYTE - I(0x1B)},
    'Roman': {('to', 'EscapeStart'): I(0x1B), ('malformed', (1, 0), 'consumed'): I(0x0E, 0x0F, (0x80, 0xFF)),
              ('write_mid_bmp', 0xA5): I(0x5C), ('write_upper_bmp', 0x203E): I(0x7E),
              ('write_ascii', 'b'): I((0, 0x7F)) - I(0x0E, 0x0F, 0x1B, 0x5C, 0x7E), ('set', 'output_flag', 0): BYTE - I(0x1B)},
    'Katakana': {('to', 'EscapeStart'): I(0x1B), ('write_upper_bmp', 'expr'): I((0x21, 0x5F)),
                 ('malformed', (1, 0), 'consumed'): BYTE - I((0x21, 0x5F), 0x1B), ('set', 'output_flag', 0): BYTE - I(0x1B)},
    'LeadByte': {('to', 'EscapeStart'): I(0x1B), ('to', 'TrailByte'): I((0x21, 0x7E)), ('store', 'lead', 'b'): I((0x21, 0x7E)),
                 ('malformed', (1, 0), 'consumed'): BYTE - I((0x21, 0x7E), 0x1B), ('set', 'output_flag', 0): BYTE - I(0x1B)},
    'TrailByte': {('to', 'EscapeStart'): I(0x1B), ('malformed', (1, 1), 'consumed'): I(0x1B), ('malformed', (2, 0), 'consumed'): BYTE - I(0x1B)},
    'EscapeStart': {('to', 'Escape'): I(0x24, 0x28), ('store', 'lead', 'b'): I(0x24, 0x28), ('malformed', (1, 0), 'unread'): BYTE - I(0x24, 0x28),
                    ('set', 'output_flag', 0): BYTE - I(0x24, 0x28), ('to', 'self.output_state'): BYTE - I(0x24, 0x28)},
}


def d5(rep, f, c):
    for sink in ('decode_to_utf8_raw', 'decode_to_utf16_raw'):
        fn = 'iso_2022_jp::Iso2022JpDecoder::' + sink
        b = f.body(fn)
        if b is None:
            rep.undecidable('C01-D5', fn, 'not found', None, c)
            continue
        site = sp_str(b.raw['span'])
        res = r_decclass.state_classes(f, b, 'decoder_state')
        if res is None or res[1]:
            rep.undecidable('C01-D5', fn, 'per-state classification not decidable', site, c)
            continue
        cl = res[0]
        for st, exp in sorted(ISO_EXPECT.items()):
            arm = cl.get(st, {})
            for k, want in sorted(exp.items(), key=str):
                got = arm.get(k, ISet())
                rep.ob('C01-D5', '%s:%s:%s' % (fn, st, k), got == want, 'ISO-2022-JP decoder, state %s, %s: implementation %r, Standard %r' % (st, k, got, want), site, {'bytes': repr(got)}, c)
            if st in ('Ascii', 'Roman', 'Katakana', 'LeadByte', 'EscapeStart'):
                extra = {k: v for k, v in arm.items() if k not in exp and k[0] in ('malformed', 'to', 'set') or (k not in exp and str(k[0]).startswith('write'))}
                rep.ob('C01-D5.extra', '%s:%s' % (fn, st), not extra, 'outcomes not in the Standard for state %s: %r' % (st, {str(k): repr(v) for k, v in extra.items()}), site, None, c)
        tb = cl.get('TrailByte', {})
        wr = ISet()
        for k, v in tb.items():
            if str(k[0]).startswith('write'):
                wr = wr | v
        rep.ob('C01-D5', '%s:TrailByte:writes' % fn, wr == I((0x21, 0x7E)), 'trail bytes that can produce output: %r, Standard 21-7E' % wr, site, None, c)
        esc = cl.get('Escape', {})
        rep.ob('C01-D5', '%s:Escape' % fn, set(k for k in esc if k[0] == 'malformed') == {('malformed', (1, 1), 'unread'), ('malformed', (3, 3), 'consumed')},
               'escape-state errors are not Malformed(1,1)+unread / Malformed(3,3): %r' % [k for k in esc if k[0] == 'malformed'], site, None, c)


def run(rep, facts, tier):
    for c, f in facts.items():
        d1(rep, f, c)
        d2_d3(rep, f, c)
        d4(rep, f, c)
        d5(rep, f, c)
        d6(rep, f, c)
        r_inv.run(rep, f, c, 'R-INV')
        r_pendcount.run(rep, f, c)
        r_endian.run(rep, f, c)
        n = r_requeue.run(rep, f, c)
        rep.floor('R-REQUEUE', 'Malformed(len, after>0) paths with re-queued bytes', n, 8, c)
        n = r_surr.run(rep, f, c, 'R-SURR', DEC_SURR_SCOPE)
        rep.floor('R-SURR', 'surrogate-class tests on the decoder side (UTF-16 decoder, copy_utf16_from, convert_unaligned_utf16_to_utf8)', n, 10, c)
        r_utf8asm.run(rep, f, c, scope='utf_8::', floor=5)
        r_prepend.run(rep, f, c)
        import scan
        scan.run_specs(rep, f, c, 'R-SCAN', ['utf_8::utf8_valid_up_to', 'utf_8::convert_utf8_to_utf16_up_to_invalid'])     # the UTF-8 decoder's fast paths
    return ('other', MANIFEST['text'], [])
