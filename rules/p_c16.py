"""C16 — mem classification and bidi checks equal their per-character definitions."""
from mirlib import *
from ranges import *
import scan, r_kernel, r_lane

MANIFEST = {
    'category': 'other',
    'text': 'Static decision of the structural clauses of C16 for every input at once: (D1, exact) the true-sets of '
            'is_char_bidi and is_utf16_code_unit_bidi are extracted from MIR by interval propagation and equal the documented '
            'right-to-left list; (D2) every threshold comparison on a unit in the Latin1/ASCII iterator-kernel classifiers (scalar tails, '
            'stride reducers, both default and simd-accel builds) denotes exactly the documented range; (D3) the '
            'check_*_for_latin1_and_bidi functions compose the Latin1 scan and the bidi scan as documented (which result is '
            'returned under which outcome, hand-over offset, no unit skipped); (D4, R-SCAN) the byte-level automata is_utf8_bidi, '
            'is_str_bidi and the UTF-8/str Latin1 scanners are decided for every buffer by abstract interpretation of each acyclic '
            'segment between loop heads (exact interval set per byte, the UTF8_DATA table tests through the relation proven in C14-D2, '
            'distance-to-end zone, inductive cut-point invariants by fixpoint): (S1) the cursor only moves past bytes the path proves to be '
            'complete valid sequences whose scalars are disjoint from the documented right-to-left list (for is_str_bidi validity is the '
            'precondition), (S2) `false`/None is returned only with the end of the buffer proven reached, (S3) `true`/Some is returned only '
            'when every valid completion of the bytes at the cursor is right-to-left (resp. non-Latin1) or the sequence is invalid or '
            'proven truncated. (D5, R-KERNEL) the iterator kernels is_ascii_impl, is_basic_latin_impl, is_utf16_latin1_impl and, under simd-accel, '
            'is_utf16_bidi_impl, is_str_latin1_bool_impl and check_utf16_for_latin1_and_bidi_impl return a whole-buffer verdict (true / false / '
            'Latin1 / LeftToRight / the last part\'s own verdict) only after every part of the as_chunks tree (quad strides, strides, tail) was '
            'walked to exhaustion in buffer order — early exits are exactly the returns inside an iteration or repeating an early-exit value. '
            '(D6, R-LANE, simd-accel) the vector predicates are decided lane-wise: is_u16x8_bidi returns false early only when every lane '
            'is proven outside the right-to-left code-unit set and otherwise returns any(M) with the exact lane set of M equal to that set '
            '(0590-08FF, 200F, 202B, 202E, 2067, FB1D-FDFF, FE70-FEFE, D802-D803, D83A-D83B); simd_is_ascii / simd_is_basic_latin / simd_is_latin1 / '
            'simd_is_str_latin1 denote exactly 00-7F / 00-7F / 00-FF / 00-C3. Vendor intrinsic and core::simd semantics are trusted.',
    'note': 'Trusted: rustc MIR, mirx, rule library, the documented RTL block list transcribed in rules/p_c16.py, core iterator semantics (all/any/reduce/next).',
    'technique': 'abstract interpretation on rustc MIR: exact interval sets over one scalar input; path-sensitive interval products per byte with a distance-to-end zone and fixpoint invariants for the byte automata; control-dependence shape rules',
}

CONFIGS = {'quick': ['default', 'simd'], 'thorough': ['default', 'simd', 'noalloc']}

# Oracle: crate documentation of mem::is_char_bidi (DESIGN.md A.2)
RTL_CHAR = ISet.of((0x0590, 0x08FF), 0x200F, 0x202B, 0x202E, 0x2067, (0xFB1D, 0xFDFF), (0xFE70, 0xFEFE),
                   (0x10800, 0x10FFF), (0x1E800, 0x1EFFF))
CHAR_DOM = ISet.of((0, 0xD7FF), (0xE000, 0x10FFFF))
# code-unit image: BMP part + the high surrogates of the two astral blocks
RTL_UNIT = ISet.of((0x0590, 0x08FF), 0x200F, 0x202B, 0x202E, 0x2067, (0xFB1D, 0xFDFF), (0xFE70, 0xFEFE),
                   (0xD802, 0xD803), (0xD83A, 0xD83B))


def high_surrogates_of(lo, hi):
    return (0xD800 + ((lo - 0x10000) >> 10), 0xD800 + ((hi - 0x10000) >> 10))


assert ISet.of(high_surrogates_of(0x10800, 0x10FFF), high_surrogates_of(0x1E800, 0x1EFFF)) == ISet.of((0xD802, 0xD803), (0xD83A, 0xD83B))

I = ISet.of
# function -> list of (canonical partition side containing 0, domain size) that must each occur, and nothing else may
THRESHOLDS = {
    'default': {
        'mem::is_ascii_impl': [I((0, 0x7F))],
        'mem::is_basic_latin_impl': [I((0, 0x7F))],
        'mem::is_utf16_latin1_impl': [I((0, 0xFF))],
        'ascii::is_ascii': [I((0, 0x7F))],
        'ascii::is_basic_latin': [I((0, 0x7F))],
        'ascii::is_utf16_latin1': [I((0, 0xFF))],
        'mem::check_utf16_for_latin1_and_bidi_impl': [I((0, 0xFF))],
    },
    'simd': {
        'mem::is_ascii_impl': [I((0, 0x7F))],
        'mem::is_basic_latin_impl': [I((0, 0x7F))],
        'mem::is_utf16_latin1_impl': [I((0, 0xFF))],
        'mem::check_utf16_for_latin1_and_bidi_impl': [I((0, 0xFF))],
        'mem::is_str_latin1_impl': [I((0, 0xC3))],
        'mem::is_str_latin1_bool_impl': [I((0, 0xC3))],
    },
}
THRESHOLDS['noalloc'] = THRESHOLDS['default']


def d1(rep, f, c):
    for fn, dom, bits, want in (('mem::is_char_bidi', CHAR_DOM, 32, RTL_CHAR),
                                ('mem::is_utf16_code_unit_bidi', ISet.of((0, 0xFFFF)), 16, RTL_UNIT)):
        b = f.body(fn)
        if b is None:
            rep.undecidable('C16-D1', fn, 'function not found', None, c)
            continue
        ra = RangeAnalysis(f, b, {('loc', 1)}, bits, dom)
        site = sp_str(b.raw['span'])
        if ra.mixed:
            rep.undecidable('C16-D1', fn, 'not a pure comparison tree: %s' % (ra.mixed[:2],), site, c)
            continue
        ts, fs, us = ra.return_value().truth_set()
        ts, fs, us = ts & dom, fs & dom, us & dom
        panics = ISet()
        for s in ra.panics.values():
            panics = panics | (s & dom)
        rep.ob('C16-D1.total', fn, not us and not panics and (ts | fs) == dom,
               'predicate undefined or panicking for %r / %r' % (us, panics), site, None, c)
        rep.ob('C16-D1.set', fn, ts == want,
               'true-set differs from the documented RTL list: extra %r, missing %r' % (ts - want, want - ts), site,
               {'true_set': repr(ts)}, c)


def d2(rep, f, c):
    table = THRESHOLDS[c]
    n = 0
    for fn, wants in sorted(table.items()):
        b = f.body(fn)
        or_fold = False
        if b is None and '::{closure#' in fn and f.body(fn.split('::{closure#')[0]) is not None:
            # the per-unit closure (`s.iter().all(|b| *b < K)`) is gone: the same test may be made on the OR of all units
            # (`accu |= *b` ... `accu & !(K - 1) == 0`), which is the same for a power-of-two K
            fn = fn.split('::{closure#')[0]
            b = f.body(fn)
            or_fold = True
        if b is None:
            rep.undecidable('C16-D2', fn, 'function not found in configuration', None, c)
            continue
        preds = scalar_predicates(f, b)
        if or_fold:
            rr_ = Resolver(b)
            good = all(len(w) & (len(w) - 1) == 0 and 0 in w for w in wants)
            for p_ in preds:
                if p_['bits'] > 16 or p_['leaf'][0] != 'loc':
                    good = False
                    continue
                acc_l = p_['leaf'][1]
                for bi_, si_, k_, nd_ in b.defs.get(acc_l, []):
                    v_ = rr_.rvalue(nd_['rv']) if k_ == 'assign' else None
                    is_zero = v_ is not None and v_[0] == 'c' and v_[1] == 0
                    is_or = v_ is not None and v_[0] == 'bin' and v_[1] == 'BitOr' and ('loc', acc_l) in (v_[2], v_[3])
                    good = good and (is_zero or is_or)
            rep.ob('C16-D2.reducer', fn, good and bool(preds), 'the bound is tested on an accumulator that is not the bitwise OR of all units starting from 0 '
                   '(or the bound is not a power of two, for which the OR test is not the per-unit test)', sp_str(b.raw['span']), {'form': 'or-fold'}, c)
        if '{closure#' not in fn:
            # a test moved into a closure (`buffer.iter().position(|u| *u >= 0x100)`) is still this function's test
            for cname, cb in sorted(f.bodies.items()):
                if cname.startswith(fn + '::{closure#') and (fn + '::' + cname[len(fn) + 2:].split('::')[0]) not in table:
                    preds = preds + scalar_predicates(f, cb)
        found = []
        for p in preds:
            if p['bits'] > 16:
                continue
            cs = canon(p['true_set'], p['N'])
            if cs is None:
                rep.undecidable('C16-D2', fn, 'comparison on a unit could not be decided', p['at'], c)
                continue
            if len(cs) == p['N'] or len(cs) == 0:
                continue
            found.append(cs)
            n += 1
            rep.ob('C16-D2.allowed', '%s:%r' % (fn, cs), cs in wants,
                   'unit comparison denotes %r; documented range(s) for this classifier: %r' % (cs, wants), p['at'],
                   {'partition_side_with_0': repr(cs)}, c)
        for w in wants:
            rep.ob('C16-D2.present', '%s:%r' % (fn, w), w in found,
                   'expected threshold %r not found in %s' % (w, fn), sp_str(b.raw['span']), None, c)
    rep.floor('C16-D2', 'unit threshold comparisons', n, 6, c)
    # reducers of the unit_check tails must be bitwise OR (the bound is applied to the OR of all units)
    for fn in ('mem::is_ascii_impl', 'mem::is_basic_latin_impl', 'mem::is_utf16_latin1_impl'):
        for name, b in f.bodies.items():
            if name.startswith(fn + '::{closure#') and b.arg_count == 3 and b.raw['ret'] in ('u8', 'u16'):
                r = Resolver(b)
                e = r.local(0)
                if e == ('loc', 0):
                    ds = b.defs.get(0, [])
                    e = r.rvalue(ds[0][3]['rv']) if len(ds) == 1 else e
                und = lambda x: x[1] if x[0] == 'deref' else x       # fold(0, |acc, unit| acc | *unit) passes the element by reference
                ok = e[0] == 'bin' and e[1] == 'BitOr' and {und(e[2]), und(e[3])} == {('loc', 2), ('loc', 3)}
                rep.ob('C16-D2.reducer', name, ok, 'tail reducer is not a | b: %s' % expr_str(e, b), sp_str(b.raw['span']),
                       {'reducer': expr_str(e, b)}, c)


def call_expr(e, fn):
    return e[0] == 'call' and e[1] == fn


def d3_two_stage(rep, f, c, fn, scan, bidi, b=None, scan_name=None):
    """`scan` is the name of the first-non-Latin1 scanner, or a predicate on call expressions (for `iter().position(closure)`)"""
    b = b or f.body(fn)
    if b is None:
        rep.undecidable('C16-D3', fn, 'function not found', None, c)
        return
    if callable(scan):
        is_scan = scan
        scan = scan_name
    else:
        is_scan = lambda e, _s=scan: call_expr(e, _s) and strip_ref(e[2][0]) == ('loc', 1)
    site = sp_str(b.raw['span'])
    r = Resolver(b)
    rv = ret_variant_blocks(b, 'mem::Latin1Bidi')
    want = {'Latin1': ('None', None), 'Bidi': ('Some', True), 'LeftToRight': ('Some', False)}
    for var, (arm, truth) in want.items():
        blks = rv.get(var, [])
        if len(blks) != 1:
            rep.ob('C16-D3', '%s:%s' % (fn, var), False, 'expected exactly one construction of %s' % var, site, None, c)
            continue
        conds = block_conditions(b, blks[0][0], r)
        ok_arm = any(k == 'variant' and is_scan(e) and v == arm
                     for k, e, v, S in conds)
        ok_bidi = True
        if truth is not None:
            ok_bidi = False
            for k, e, v, S in conds:
                if k == 'bool' and call_expr(e, bidi) and v == truth:
                    arg = strip_ref(e[2][0])
                    # &buffer[offset..] with offset = payload of the scan result
                    if arg[0] == 'call' and 'index' in arg[1]:
                        base, rng = strip_ref(arg[2][0]), arg[2][1]
                        if base == ('loc', 1) and rng[0] == 'agg' and 'RangeFrom' in rng[1]:
                            off = rng[2][0]
                            if off[0] == 'fld' and off[1][0] == 'as' and off[1][2] == 'Some' and is_scan(off[1][1]):
                                ok_bidi = True
        rep.ob('C16-D3', '%s:%s' % (fn, var), ok_arm and ok_bidi,
               '%s is not returned exactly under %s(%s)=%s%s' % (var, scan, 'buffer', arm,
                                                                 '' if truth is None else ' and %s(&buffer[offset..])=%s' % (bidi, truth)),
               sp_str(b.blocks[blks[0][0]]['tsp']) or site, {'conditions': [(k, expr_str(e, b)[:80], v) for k, e, v, S in conds]}, c)


UNIT_TESTS = ('mem::is_utf16_code_unit_bidi', 'simd_funcs::is_u16x8_bidi')
LATIN1_TESTS = ('simd_funcs::simd_is_latin1',)


def d3_utf16(rep, f, c):
    fn = 'mem::check_utf16_for_latin1_and_bidi_impl'
    b = f.body(fn)
    if b is None:
        rep.undecidable('C16-D3', fn, 'function not found', None, c)
        return
    site = sp_str(b.raw['span'])
    r = Resolver(b)
    pos_calls = [bi for bi, t in b.calls() if (b.callee(t) or '').endswith('::position')]
    if pos_calls and not [bi for bi, t in b.calls() if (b.callee(t) or '').endswith('::next')]:
        # two-stage form: buffer.iter().position(|u| *u >= 0x100), then the bidi check of the rest
        def is_pos_scan(e):
            if not (e[0] == 'call' and (e[1] or '').endswith('::position') and len(e[2]) == 2):
                return False
            roots = r_kernel.iter_roots(e[2][0])
            if roots != [('arg', 1)]:
                return False
            # the closure's predicate: true exactly for the units that are not Latin1
            for cname, cb in f.bodies.items():
                if cname.startswith(fn + '::{closure#') and cb.arg_count == 2:
                    ra = RangeAnalysis(f, cb, {('deref', ('loc', 2)), ('loc', 2)}, 16, ISet.of((0, 0xFFFF)))
                    if ra.mixed:
                        continue
                    ts, fs, us = ra.return_value().truth_set()
                    if not us and ts == ISet.of((0x100, 0xFFFF)):
                        return True
            return False
        rep.ob('C16-D3', fn + ':latin1-tests', any(is_pos_scan(Resolver(b).call(b.blocks[bi]['t'], bi, 0)) for bi in pos_calls),
               'the position() predicate is not exactly "unit >= 0x100" over the whole buffer', site, {'form': 'position + bidi check of the rest'}, c)
        d3_two_stage(rep, f, c, fn, is_pos_scan, 'mem::is_utf16_bidi_impl', b=b, scan_name='position(|u| u >= 0x100)')
        return
    rv = ret_variant_blocks(b, 'mem::Latin1Bidi')
    # blocks where a unit (or half stride) is known to be non-Latin1
    nonlatin_targets = []
    latin_edges = []
    for bi, blk in enumerate(b.blocks):
        t = blk['t']
        if 'switch' not in t or t.get('sty') != 'bool':
            continue
        cond = r.operand(t['switch'])
        is_l1 = None
        if cond[0] == 'call' and cond[1] in LATIN1_TESTS:
            is_l1 = True   # true edge = latin1
        elif cond[0] == 'bin':
            ps = [p for p in scalar_predicates(f, b) if p['bb'] == bi or True]
            for p in scalar_predicates(f, b):
                pass
        if is_l1 is None:
            # scalar `*u < 0x100`
            tmp = [p for p in scalar_predicates(f, b) if p['true_set'] == ISet.of((0, 0xFF)) and p['bits'] == 16]
            for p in tmp:
                # the switch operand must be this comparison
                if p['bb'] == bi:
                    is_l1 = True
        if is_l1:
            for lab, tgt in switch_edges(b, bi):
                tr = bool_truth(b, bi, lab)
                if tr is False:
                    nonlatin_targets.append(tgt)
                else:
                    latin_edges.append((bi, tgt))
    rep.ob('C16-D3', fn + ':latin1-tests', len(nonlatin_targets) >= 1, 'no Latin1 threshold test found', site,
           {'non_latin1_edges': len(nonlatin_targets)}, c)
    after_nonlatin = b.reach_from(nonlatin_targets)
    for bi, l in rv.get('Latin1', []):
        conds = block_conditions(b, bi, r)
        exhausted = any(k == 'variant' and v == 'None' and e[0] == 'call' and e[1].endswith('::next') for k, e, v, S in conds)
        rep.ob('C16-D3', fn + ':Latin1', exhausted and bi not in after_nonlatin,
               'Latin1 can be returned after a non-Latin1 unit was seen, or before the input is exhausted',
               sp_str(b.blocks[bi]['tsp']), None, c)
    def any_of_unit_test(e):
        """e = it.any(|x| unit_test(x)): true = some remaining element tests positive, false = the rest was walked to its end"""
        if not (e[0] == 'call' and (e[1] or '').endswith('::any') and len(e[2]) == 2):
            return False
        cl = e[2][1]
        if not (cl[0] == 'agg' and cl[1] == 'closure' and len(cl) == 4):
            return False
        cb = f.body(cl[3])
        if cb is None or len(cb.defs.get(0, [])) != 1 or cb.defs[0][0][2] != 'call':
            return False
        return cb.callee(cb.defs[0][0][3]) in UNIT_TESTS
    for bi, l in rv.get('LeftToRight', []):
        conds = block_conditions(b, bi, r)
        exhausted = any(k == 'variant' and v == 'None' and e[0] == 'call' and e[1].endswith('::next') for k, e, v, S in conds) or \
            any(k == 'bool' and v is False and any_of_unit_test(e) for k, e, v, S in conds)
        dominated = any(t in b.dom[bi] for t in nonlatin_targets)
        rep.ob('C16-D3', fn + ':LeftToRight@bb', exhausted and dominated,
               'LeftToRight must be returned only after a non-Latin1 unit and at the end of input',
               sp_str(b.blocks[bi]['tsp']), None, c)
    for bi, l in rv.get('Bidi', []):
        conds = block_conditions(b, bi, r)
        ok = any(k == 'bool' and v is True and e[0] == 'call' and (e[1] in UNIT_TESTS or any_of_unit_test(e)) for k, e, v, S in conds)
        if not ok:
            # a short-circuit disjunction (`a || it.any(..) || tail.any(..)`): every edge into the block is the true edge of a unit test
            edges, seen_, stack = [], set(), [bi]
            while stack:
                x = stack.pop()
                if x in seen_:
                    continue
                seen_.add(x)
                for pb in b.pred[x]:
                    tp = b.blocks[pb]['t']
                    if 'switch' in tp and tp.get('sty') == 'bool':
                        tr_ = [bool_truth(b, pb, lab) for lab, tgt in switch_edges(b, pb) if tgt == x]
                        edges.append((r.operand(tp['switch']), tr_[0] if len(tr_) == 1 else None))
                    elif 'goto' in tp or ('call' in tp and tp.get('target') == x and not b.blocks[pb]['s'] and False):
                        stack.append(pb)
                    else:
                        edges.append((None, None))
            ok = bool(edges) and all(e_ is not None and tr_ is True and e_[0] == 'call' and (e_[1] in UNIT_TESTS or any_of_unit_test(e_)) for e_, tr_ in edges)
        rep.ob('C16-D3', fn + ':Bidi@bb', ok, 'Bidi returned without a positive bidi test on a unit',
               sp_str(b.blocks[bi]['tsp']), None, c)
    for v in ('Latin1', 'LeftToRight', 'Bidi'):
        rep.ob('C16-D3', fn + ':has-' + v, len(rv.get(v, [])) >= 1, 'no return of ' + v, site, None, c)
    # no unit skipped: from every Some-arm of an iterator next(), a test is reached before the next next()/return
    nexts = [bi for bi, t in b.calls() if (b.callee(t) or '').endswith('::next')]
    test_blocks = set()
    for bi, t in b.calls():
        if b.callee(t) in UNIT_TESTS or b.callee(t) in LATIN1_TESTS:
            test_blocks.add(bi)
    for p in scalar_predicates(f, b):
        if p['bits'] == 16 and p['true_set'] == ISet.of((0, 0xFF)):
            test_blocks.add(p['bb'])
    n = 0
    for nb in nexts:
        tgt = b.blocks[nb]['t']['target']
        # find Some successor of the discriminant switch
        sw = tgt
        t = b.blocks[sw]['t']
        if not t.get('variants'):
            continue
        for lab, s in switch_edges(b, sw):
            if variant_of_edge(b, sw, lab) == 'Some':
                n += 1
                seen = set()
                stack = [s]
                bad = None
                while stack:
                    x = stack.pop()
                    if x in seen:
                        continue
                    seen.add(x)
                    if x in test_blocks:
                        continue
                    tx = b.blocks[x]['t']
                    if 'return' in tx or x in nexts:
                        bad = x
                        break
                    stack.extend(b.succ[x])
                rep.ob('C16-D3.no-skip', '%s:next@%s' % (fn, expr_str(r.operand(b.blocks[nb]['t']['args'][0]), b)[:40]), bad is None,
                       'a unit taken from the iterator can reach the next fetch/return without being tested',
                       sp_str(b.blocks[nb]['tsp']), None, c)
    rep.floor('C16-D3.no-skip', 'iterator fetch sites', n, 2, c)


def run(rep, facts, tier):
    for c, f in facts.items():
        d1(rep, f, c)
        d2(rep, f, c)
        d3_two_stage(rep, f, c, 'mem::check_utf8_for_latin1_and_bidi', 'mem::is_utf8_latin1_impl', 'mem::is_utf8_bidi')
        d3_two_stage(rep, f, c, 'mem::check_str_for_latin1_and_bidi', 'mem::is_str_latin1_impl', 'mem::is_str_bidi')
        d3_utf16(rep, f, c)
        r_kernel.run(rep, f, c, 'R-KERNEL', ['classify'], stride=False)
        if c.startswith('simd'):
            r_lane.run(rep, f, c)
        scan.run_specs(rep, f, c, 'R-SCAN', ['mem::is_utf8_bidi', 'mem::is_str_bidi', 'mem::is_utf8_latin1_impl', 'mem::is_str_latin1_impl'])
    return ('other', MANIFEST['text'], ['documented RTL list (mem::is_char_bidi doc comment) transcribed as RTL_CHAR'])
