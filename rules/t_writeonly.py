"""T-WRITEONLY — nothing is computed from the destination (DESIGN.md §5): no element of a mutable output slice / array is
loaded in any shipped body, except the frozen in-place / scrub sites."""
import re
from mirlib import *
from taint import rvalue_operands
import t_dst

MUT_ARR = re.compile(r"^&(?:'\w+ )?mut \[")

EXCEPTIONS = {
    'mem::ensure_utf16_validity': 'in-place repair: the buffer is the input',
    'Decoder::decode_to_str': 'scrub loop after conversion: tests bytes beyond `written` for UTF-8 continuation bytes to restore str validity',
    'Decoder::decode_to_str_without_replacement': 'scrub loop after conversion',
    'mem::convert_utf16_to_str_partial': 'scrub loop after conversion',
    'mem::convert_latin1_to_str_partial': 'scrub loop after conversion',
}


SHARED_OK = {}


def is_out_ty(ty):
    ty2 = re.sub(r"'\w+ ", '', ty)
    return ty2.startswith('&mut [u8') or ty2.startswith('&mut [u16') or ty2.startswith('&mut [[u8') or ty2.startswith('&mut [[u16') or ty2 == '&mut str'


def root_out(body, l, seen=None):
    """Does local l (a reference) denote output memory?  Follow reborrows / sub-slices back to a `&mut [..]` typed local."""
    seen = seen or set()
    while l not in seen:
        seen.add(l)
        ty = body.locals[l]['ty']
        if is_out_ty(ty):
            return True
        if not ty.startswith('&') and not ty.startswith('*'):
            return False
        sd = body.single_def(l)
        if sd is None:
            return False
        if sd[2] == 'call':
            fn = sd[3]['call'].get('fn') or ''
            # sub-slicing / splitting a mutable slice yields output memory again
            if 'index_mut' in fn or 'split_at_mut' in fn or 'as_chunks_mut' in fn or fn.endswith('::remaining'):
                pl = op_place(sd[3]['args'][0])
                if pl is None:
                    return False
                l = pl['l']
                continue
            return False
        rv = sd[3]['rv']
        src = None
        if 'ref' in rv or 'rawptr' in rv:
            src = rv['place']
        elif 'use' in rv:
            src = op_place(rv['use'])
        elif 'cast' in rv:
            src = op_place(rv['x'])
        if src is None:
            return False
        l = src['l']
    return False


def loads(body):
    """[(bb, stmt, place)] element loads through a deref+index (or deref of a &mut array element) of output memory."""
    out = []
    for bi, blk in enumerate(body.blocks):
        if blk.get('cleanup'):
            continue
        for st in blk['s']:
            if 'assign' not in st:
                continue
            rv = st['rv']
            if rv.get('un') == 'PtrMetadata':
                continue
            for o in rvalue_operands(rv):
                pl = op_place(o)
                if pl is None or not pl['p'] or pl['p'][0] != 'deref':
                    continue
                elem = any(isinstance(e, dict) and ('index' in e or 'const_index' in e) for e in pl['p'])
                whole_array_copy = (len(pl['p']) == 1 and re.match(r"^&(?:'\w+ )?mut \[(u8|u16); \d+\]", body.locals[pl['l']]['ty']))
                if not (elem or whole_array_copy):
                    continue
                if root_out(body, pl['l']):
                    out.append((bi, st, pl))
    return out


READ_OK = ('::len', '::is_empty', '::as_ptr', '::as_mut_ptr', '::written', '::capacity')


def shared_uses(body):
    """[(bb, callee, place)] — output memory re-borrowed as a shared slice and handed to a callee that could read it."""
    out = []
    shared = {}
    for bi, blk in enumerate(body.blocks):
        for st in blk['s']:
            if 'assign' in st and st['rv'].get('ref') == 'shared' and not st['assign']['p']:
                pl = st['rv']['place']
                if pl['p'] and pl['p'][0] == 'deref' and root_out(body, pl['l']):
                    shared[st['assign']['l']] = pl
    # propagate through plain copies
    changed = True
    while changed:
        changed = False
        for blk in body.blocks:
            for st in blk['s']:
                if 'assign' in st and not st['assign']['p'] and ('use' in st['rv'] or 'cast' in st['rv']):
                    pl = op_place(st['rv'].get('use') or st['rv'].get('x'))
                    if pl and not pl['p'] and pl['l'] in shared and st['assign']['l'] not in shared:
                        shared[st['assign']['l']] = shared[pl['l']]
                        changed = True
    for bi, t in body.calls():
        if body.blocks[bi].get('cleanup'):
            continue
        fn = body.callee(t) or ''
        if fn.endswith(READ_OK) or fn in LEN_FNS or fn in IS_EMPTY_FNS:
            continue
        for a in t['args']:
            pl = op_place(a)
            if pl and not pl['p'] and pl['l'] in shared:
                out.append((bi, fn, shared[pl['l']]))
    return out


def run(rep, f, c, rule, want=lambda n: True):
    n = nb = 0
    for name, b in sorted(f.bodies.items()):
        if not want(name):
            continue
        nb += 1
        ls = loads(b)
        base = name.split('::{closure')[0]
        for bi, st, pl in ls:
            n += 1
            if base in EXCEPTIONS:
                rep.ob(rule + '.exception', '%s:%s' % (name, place_str(pl)), True, '', sp_str(st['sp']), {'reason': EXCEPTIONS[base]}, c)
            else:
                rep.ob(rule, '%s:%s' % (name, place_str(pl)), False,
                       'an element of the destination buffer is read (%s): results could depend on what the buffer held before the call' % place_str(pl, b),
                       sp_str(st['sp']), None, c)
        for bi, fn, pl in shared_uses(b):
            n += 1
            if base in EXCEPTIONS or (base, fn) in SHARED_OK:
                rep.ob(rule + '.exception', '%s:shared->%s' % (name, fn), True, '', sp_str(b.blocks[bi]['tsp']), {'reason': EXCEPTIONS.get(base) or SHARED_OK[(base, fn)]}, c)
            else:
                rep.ob(rule, '%s:shared->%s' % (name, fn), False,
                       'destination memory is handed to %s as a readable slice: results could depend on the buffer\'s previous contents' % fn,
                       sp_str(b.blocks[bi]['tsp']), None, c)
    return nb, n
