"""Forward taint over MIR, interprocedural by per-context summaries (DESIGN.md B.5).
Flow-insensitive inside a body (a local is tainted if any of its definitions mentions a tainted
local) — coarse but sound for "must never reach" rules."""
from mirlib import *


def operand_locals(o):
    p = op_place(o)
    if p is None:
        return []
    out = [p['l']]
    for e in p['p']:
        if isinstance(e, dict) and 'index' in e:
            out.append(e['index'])
    return out


def rvalue_operands(rv):
    if 'use' in rv:
        return [rv['use']]
    if 'bin' in rv:
        return [rv['l'], rv['r']]
    if 'un' in rv:
        return [rv['x']]
    if 'cast' in rv:
        return [rv['x']]
    if 'aggregate' in rv:
        return list(rv['ops'])
    if 'repeat' in rv:
        return [rv['repeat']]
    return []


def rvalue_locals(rv):
    out = []
    for o in rvalue_operands(rv):
        out += operand_locals(o)
    for k in ('place', 'discriminant'):
        if k in rv:
            out.append(rv[k]['l'])
    return out


class Taint:
    def __init__(self, facts, allowed_external, on_violation, sink_check):
        self.facts = facts
        self.allowed = allowed_external      # callable(fn_name) -> bool
        self.on_violation = on_violation     # callable(body, bb, kind, detail)
        self.sink_check = sink_check         # callable(body, bb, stmt, tainted_locals) -> None (reports itself)
        self.summaries = {}                  # (fn, frozenset(param idx)) -> bool (return tainted)
        self.visited_bodies = set()
        self.in_progress = set()

    def analyse(self, fn, tainted_params):
        key = (fn, frozenset(tainted_params))
        if key in self.summaries:
            return self.summaries[key]
        if key in self.in_progress:
            return True
        b = self.facts.body(fn)
        if b is None:
            return True
        self.in_progress.add(key)
        self.visited_bodies.add(fn)
        T = set(tainted_params)
        changed = True
        while changed:
            changed = False
            for bi, blk in enumerate(b.blocks):
                for st in blk['s']:
                    if 'assign' in st:
                        if any(l in T for l in rvalue_locals(st['rv'])):
                            l = st['assign']['l']
                            if l not in T:
                                T.add(l)
                                changed = True
                t = blk['t']
                if 'call' in t:
                    targs = [i for i, a in enumerate(t['args']) if any(l in T for l in operand_locals(a))]
                    if targs:
                        fn2 = t['call'].get('fn')
                        ret_t = True
                        if fn2 and self.facts.body(fn2) is not None:
                            ret_t = self.analyse(fn2, [i + 1 for i in targs])
                        if ret_t:
                            l = t['dest']['l']
                            if l not in T:
                                T.add(l)
                                changed = True
        # sinks
        for bi, blk in enumerate(b.blocks):
            for st in blk['s']:
                if 'assign' in st:
                    self.sink_check(b, bi, st, T)
            t = blk['t']
            if 'call' in t:
                targs = [i for i, a in enumerate(t['args']) if any(l in T for l in operand_locals(a))]
                fn2 = t['call'].get('fn')
                if targs and (fn2 is None or self.facts.body(fn2) is None):
                    # a closure handed to a combinator (opt.and_then(|n| n.checked_add(k))) is part of the computation: its body is
                    # checked with every parameter and capture tainted
                    for a in t['args']:
                        for l_ in operand_locals(a):
                            sd_ = b.single_def(l_)
                            if sd_ is not None and sd_[2] == 'assign' and isinstance(sd_[3]['rv'].get('aggregate'), dict) and 'closure' in sd_[3]['rv']['aggregate']:
                                cn_ = sd_[3]['rv']['aggregate']['closure']
                                cb_ = self.facts.body(cn_)
                                if cb_ is not None:
                                    # the environment (parameter 1) is tainted only if something captured is; the call parameters
                                    # come from the combinator's receiver and are
                                    cap_t = any(lc_ in T for o_ in sd_[3]['rv'].get('ops', []) for lc_ in operand_locals(o_))
                                    self.analyse(cn_, ([1] if cap_t else []) + list(range(2, cb_.arg_count + 1)))
                    try:
                        ok_ext = self.allowed(fn2 or '', t['call'].get('generic') or [])
                    except TypeError:
                        ok_ext = self.allowed(fn2 or '')
                    if not ok_ext:
                        self.on_violation(b, bi, 'call', (fn2 or '') + ('<%s>' % ','.join(t['call'].get('generic') or []) if t['call'].get('generic') else ''))
        ret = 0 in T
        self.summaries[key] = ret
        self.in_progress.discard(key)
        return ret
