"""C14 — validators return the exact length of the longest valid prefix (structural and table clauses D1–D4)."""
import json
from mirlib import *
from paths import *
from shape import *
from ranges import *
import r_unchecked, r_surr, r_lookahead, r_decclass, scan, r_kernel, r_lane
from r_writers import T37

MANIFEST = {
    'category': 'other',
    'text': 'Decided statically, for all inputs: (D1) fast-path dispatch — whenever fast_utf8_valid_up_to answers Some it is src.len() on Ok and '
            'e.valid_up_to() on Err of a simdutf8 validation of the whole slice (the length threshold itself is not a correctness matter), and utf8_valid_up_to returns that answer unchanged; (D2, exhaustive over the '
            'table) the const-evaluated UTF8_DATA.table satisfies, for every non-two-byte lead L in 80..FF and every second byte S in 00..FF, '
            '(table[S] & table[L + 0x80]) == 0  <=>  S is allowed after L by Unicode Table 3-7 (never for the invalid leads 80-C1, F5-FF), '
            'and every entry has its two low bits clear; every acceptance test that uses the table (utf8_valid_up_to, '
            'convert_utf8_to_utf16_up_to_invalid, mem) has one of the two expression shapes this interpretation assumes '
            '((t[second] & t[lead+0x80]) | third>>6) != 2, resp. ... | (fourth & 0xC0) << 2 != 0x202, with the operands being src[read+1..3] '
            'and the lead; (D3) the ISO-2022-JP validator rejects exactly {0E, 0F, 1B, >=80}; utf16_valid_up_to uses exactly '
            'the surrogate partitions and tests exactly the index it reads after a high surrogate; (D4) every unchecked read of the validators '
            'is in bounds (available-guard dataflow, shared with C06) — an out-of-bounds read would make the answer meaningless; '
            '(D5, R-SCAN) the index-driven scalar automata (utf8_valid_up_to, convert_utf8_to_utf16_up_to_invalid, the surrogate loop of '
            'utf16_valid_up_to, the UTF-8/str Latin1 scanners) are decided by abstract interpretation of every acyclic segment between loop '
            'heads with inductive cut-point invariants found by fixpoint: (S1) whenever the cursor moves by k units the path conditions '
            'constrain those units to complete valid sequences (exact interval sets per unit, the table tests interpreted through the '
            'relation proven in D2); (S2) the all-clear (len) is returned only with the distance to the end proven zero; (S3) an index short '
            'of the end is returned only when the path excludes every valid continuation (invalid lead, failed trail test, or proven '
            'truncation). (D6, R-KERNEL/R-STRIDE) the iterator kernels in front of them (ascii_valid_impl = ascii_valid_up_to/validate_ascii, the BMP '
            'kernel of utf16_valid_up_to, the simd is_str_latin1_impl): the all-clear is reachable only after every part of the '
            'as_chunks/split_first tree was walked to exhaustion, in buffer order (must-pass-through on the CFG); every continuing iteration '
            'adds exactly the element width (16/32/1 units, from the iterator item type) to the position counter and an offending unit is '
            'reported at counter + the position the stride function returned for the current element; a stride function answers None only '
            'if tests that passed on that path cover all 16/32 units of its source stride (SIMD vectors are traced back to the sub-arrays '
            'they were loaded from) and reports positions in the second half with the right offset. (D7, R-LANE, simd-accel) the vector predicates and validators of simd_funcs.rs are decided lane-wise: the exact set of lane '
            'values that sets each comparison mask is extracted and every reduction (all/any/first_set/movemask == 0) is checked per return '
            'path against the definition (ASCII 00-7F, Basic Latin, Latin1 00-FF, str-Latin1 00-C3, surrogates D800-DFFF; None iff no lane flagged, '
            'position from masks flagging exactly that set). Vendor intrinsic semantics (movemask, packus, deinterleave), core::simd, core '
            'iterator semantics and simdutf8 == core::str are trusted. (R-REPAIR) ensure_utf16_validity returns only on a path that has compared its scan position with buffer.len() with no constant offset, on the edge meaning reached.',
    'note': 'Trusted: rustc MIR and const evaluation, mirx, rule library, Unicode Table 3-7 as transcribed in rules/r_writers.py, simdutf8 == core::str validation.',
    'technique': 'exhaustive obligations over a const-evaluated table + expression-shape matching + exact interval extraction + bounds dataflow + path-sensitive abstract interpretation of the scanner automata (interval products per unit, distance-to-end zone, fixpoint invariants) on MIR',
}
CONFIGS = {'quick': ['default', 'simd'], 'thorough': ['default', 'simd', 'noalloc']}
I = ISet.of


def allowed_second(L, S):
    for (l0, l1), (s0, s1), n in T37:
        if l0 <= L <= l1 and n >= 3:
            return s0 <= S <= s1
    return False


def d2_table(rep, f, c):
    st = f.statics.get('utf_8::UTF8_DATA')
    if st is None:
        rep.undecidable('C14-D2.table', 'utf_8::UTF8_DATA', 'static not found', None, c)
        return
    tbl = bytes.fromhex(st['alloc']['bytes'])
    site = sp_str(st['span'])
    rep.ob('C14-D2.table.len', 'utf_8::UTF8_DATA', len(tbl) == 384, 'table length %d != 384 (256 second-byte entries + 128 lead entries)' % len(tbl), site, {'len': len(tbl)}, c)
    if len(tbl) != 384:
        return
    low = [i for i, v in enumerate(tbl) if v & 3]
    rep.ob('C14-D2.table.lowbits', 'utf_8::UTF8_DATA', not low, 'entries %r have one of the two low bits set: (x | third>>6) == 2 would accept a non-continuation third byte' % low[:5], site, None, c)
    bad = []
    n = 0
    for L in range(0x80, 0x100):
        if 0xC2 <= L <= 0xDF:
            continue
        for S in range(256):
            n += 1
            ok = (tbl[S] & tbl[L + 0x80]) == 0
            if ok != allowed_second(L, S):
                bad.append((L, S))
    rep.count('table_pairs_checked:' + c, n)
    rep.ob('C14-D2.table.pairs', 'utf_8::UTF8_DATA', not bad,
           '(table[second] & table[lead+0x80]) == 0 disagrees with Unicode Table 3-7 for (lead, second) = %s' % ', '.join('(%02X,%02X)' % p for p in bad[:6]),
           site, {'pairs_checked': n}, c)


def tbl_lookup(e):
    """table look-up -> ('S', x) for table[x as usize] / ('L', x) for table[(x as usize) + 0x80], else None"""
    e0 = e
    if e[0] == 'deref':
        e = e[1]
    idx = None
    if e[0] == 'idx' and 'UTF8_DATA' in str(e[1]):
        idx = e[2]
    elif e[0] == 'call' and (e[1] or '').endswith('::get_unchecked') and 'UTF8_DATA' in str(e[2][0]):
        idx = e[2][1]
    if idx is None:
        return None

    def unext(x):
        if x[0] == 'cast' and x[3] == 'usize':
            return x[2]
        if x[0] == 'call' and (x[1] or '').endswith('::from') and 'From<u8> for usize' in x[1]:
            return x[2][0]
        return None
    if idx[0] == 'bin' and idx[1] == 'Add' and idx[3] == ('c', 0x80, 'usize'):
        x = unext(idx[2])
        return ('L', x) if x is not None else None
    x = unext(idx)
    return ('S', x) if x is not None else None


def flatten_or(e):
    if e[0] == 'bin' and e[1] == 'BitOr':
        return flatten_or(e[2]) + flatten_or(e[3])
    if e[0] == 'call' and (e[1] or '').endswith('::from') and len(e[2]) == 1:
        return flatten_or(e[2][0])          # u16::from(x)
    if e[0] == 'cast' and e[1] == 'IntToInt':
        return flatten_or(e[2])
    return [e]


def src_at(e, k):
    """*src.get_unchecked(read + k) or src[read + k] -> base expression, else None"""
    x = e
    if x[0] == 'deref':
        x = x[1]
    if x[0] == 'call' and (x[1] or '').endswith('::get_unchecked'):
        b0, k0 = r_unchecked.split_index(x[2][1])
        return (strip_ref(x[2][0]), b0) if k0 == k else None
    if x[0] == 'idx':
        b0, k0 = r_unchecked.split_index(x[2])
        return (strip_ref(x[1]), b0) if k0 == k else None
    return None


def d2_shapes(rep, f, c):
    """Shape of the table-based acceptance tests — only for functions R-SCAN does not decide.  R-SCAN recognises the same tests over
    normalised loads (table_test) and fails the advance it cannot prove, so for its functions (all 18 tests on the pinned tree)
    a frozen operand shape here would only add alarms on equivalent rewrites (`src.get(read + 1..read + 3)` patterns)."""
    n = 0
    covered = 0
    for name, b in sorted(f.bodies.items()):
        r = Resolver(b)
        if name in scan.SPECS or any(name.startswith(k + '::') for k in scan.SPECS):
            covered += sum(1 for blk in b.blocks if 'switch' in blk['t'] and 'UTF8_DATA' in str(r.operand(blk['t']['switch'])))
            continue
        for bi, blk in enumerate(b.blocks):
            t = blk['t']
            if 'switch' not in t:
                continue
            e = r.operand(t['switch'])
            if 'UTF8_DATA' not in str(e):
                continue
            n += 1
            at = sp_str(blk['tsp'])
            key = '%s:table-test#%d' % (name, n)
            ok = False
            why = 'not a comparison'
            if e[0] == 'bin' and e[1] in ('Ne', 'Eq') and e[3][0] == 'c':
                terms = flatten_or(e[2])
                ands = [x for x in terms if x[0] == 'bin' and x[1] == 'BitAnd' and tbl_lookup(x[2]) and tbl_lookup(x[3])]
                shr = [x for x in terms if x[0] == 'bin' and x[1] == 'Shr' and x[3][0] == 'c' and x[3][1] == 6]
                shl = [x for x in terms if x[0] == 'bin' and x[1] == 'Shl' and x[3][0] == 'c' and x[3][1] == 2]
                if len(ands) == 1 and len(shr) == 1:
                    l1, l2 = tbl_lookup(ands[0][2]), tbl_lookup(ands[0][3])
                    kinds = {l1[0]: l1[1], l2[0]: l2[1]}
                    if set(kinds) == {'S', 'L'}:
                        s1 = src_at(kinds['S'], 1)
                        s2 = src_at(shr[0][2], 2)
                        lead = kinds['L']
                        if e[3][1] == 2 and len(terms) == 2 and not shl:
                            ok = s1 is not None and s2 is not None and s1 == s2
                            why = 'three-byte test operands are not (src[read+1], lead, src[read+2])'
                        elif e[3][1] == 0x202 and len(terms) == 3 and len(shl) == 1:
                            inner = shl[0][2]
                            while inner[0] in ('cast',) or (inner[0] == 'call' and (inner[1] or '').endswith('::from')):
                                inner = inner[2] if inner[0] == 'cast' else inner[2][0]
                            s3 = src_at(inner[2], 3) if inner[0] == 'bin' and inner[1] == 'BitAnd' and inner[3][0] == 'c' and inner[3][1] == 0xC0 else None
                            ok = s1 is not None and s2 is not None and s3 is not None and s1 == s2 == s3
                            why = 'four-byte test operands are not (src[read+1], lead, src[read+2], src[read+3] & 0xC0)'
                        else:
                            why = 'constant %s does not fit the number of terms' % e[3][1]
                        # the lead must be the byte at src[read] (a local holding it)
                    else:
                        why = 'the two table look-ups are not table[second] and table[lead + 0x80]'
                else:
                    why = 'expected one (table & table) term and one (third >> 6) term'
            rep.ob('C14-D2.shape', key, ok, 'table-based acceptance test has an unrecognised shape (%s): %s' % (why, expr_str(e, b)[:160]), at, None, c)
    rep.count('table-tests-decided-by-R-SCAN:' + c, covered)
    rep.floor('C14-D2.shape', 'table-based acceptance tests (shape-checked here or decided by R-SCAN)', n + covered, 6, c)


LEAD_SIDES = [I((0, 0x7F)), I((0, 0xC1), (0xE0, 0xFF)), I((0, 0xEF)), I((0, 0x7F), (0xC0, 0xFF)), I((0, 0xDF), (0xF0, 0xFF))]


def d3(rep, f, c):
    # the byte classes of the scalar UTF-8 validators are decided semantically by R-SCAN (D5); a per-comparison whitelist used here
    # before R-SCAN existed was removed because it fired on behaviour-preserving rewrites (x < 0x80 || x > 0xBF)
    rej = r_decclass.validator_reject_set(f, 'ascii::iso_2022_jp_ascii_valid_up_to')
    rep.ob('C14-D3.iso2022jp', 'ascii::iso_2022_jp_ascii_valid_up_to', rej == I(0x0E, 0x0F, 0x1B, (0x80, 0xFF)), 'reject set %r; must be {0E, 0F, 1B, 80-FF}' % rej, None, {'reject': repr(rej)}, c)
    # ASCII threshold of the scalar stride/tail validators
    m = 0
    for name, b in sorted(f.bodies.items()):
        if not name.startswith('ascii::') or 'stride_tail' not in name and 'ascii_valid_impl' not in name and 'copy_impl' not in name and not name.startswith('ascii::ascii_to') and not name.startswith('ascii::basic_latin_to'):
            continue
        for p in scalar_predicates(f, b):
            if p['bits'] not in (8, 16) or p['true_set'] is None:
                continue
            cs = canon(p['true_set'], p['N'])
            if len(cs) in (0, p['N']):
                continue
            m += 1
            rep.ob('C14-D3.ascii', '%s:%r' % (name, cs), cs == I((0, 0x7F)), 'ASCII test denotes %r; must be exactly 00-7F' % cs, p['at'], {'set': repr(cs)}, c)
    if c == 'default':
        rep.floor('C14-D3.ascii', 'ASCII threshold comparisons in ascii.rs', m, 5, c)
    k = r_surr.run(rep, f, c, 'R-SURR', lambda nm: nm.startswith('mem::utf16_valid_up_to') or nm.startswith('mem::ensure_utf16_validity'))
    rep.floor('R-SURR', 'surrogate tests in utf16_valid_up_to', k, 2, c)
    import r_repair
    rep.floor('R-REPAIR', 'returning paths of ensure_utf16_validity', r_repair.run(rep, f, c), 1, c)


def d1(rep, f, c):
    fn = 'utf_8::utf8_valid_up_to'
    b = f.body(fn)
    if b is None:
        rep.undecidable('C14-D1', fn, 'not found', None, c)
        return
    site = sp_str(b.raw['span'])
    heads = loop_heads(b)
    pre = [summarize(b, blks, end) for blks, end in enumerate_block_paths(b, 0, stop=heads)]
    ok = True
    kinds = set()
    for p in pre:
        fc = [e for e in p.calls() if e[1] == 'utf_8::fast_utf8_valid_up_to']
        if len(fc) != 1 or strip_ref(fc[0][2][0]) != ('loc', 1):
            ok = False
            continue
        res = ('call', fc[0][1], fc[0][2], fc[0][3])
        arm = [e for e in p.conds() if e[1][0] == 'variant' and e[1][1] == res]
        if arm and arm[0][2] == 'Some':
            kinds.add('fast')
            ok &= p.end[0] == 'return' and p.env.get(0) == ('fld', ('as', res, 'Some'), '0')
        elif arm:
            kinds.add('scalar')
            ok &= p.end[0] == 'stop'
    rep.ob('C14-D1.use', fn, ok and kinds == {'fast', 'scalar'}, 'utf8_valid_up_to does not return the fast-path answer unchanged / fall back to the scalar loop on None', site, None, c)
    fb = f.body('utf_8::fast_utf8_valid_up_to')
    if fb is None:
        rep.undecidable('C14-D1', 'utf_8::fast_utf8_valid_up_to', 'not found', None, c)
        return
    site = sp_str(fb.raw['span'])
    ok = True
    nsome = 0
    for p in region_paths(fb, 0):
        if p.end[0] != 'return':
            continue
        rv = p.env.get(0)
        if rv is not None and variant_name(rv) == 'Some':
            nsome += 1
            v = rv[2][0]
            val = [e for e in p.calls() if 'simdutf8' in (e[1] or '') and 'validate_utf8' in (e[1] or '')]
            ok &= len(val) == 1 and strip_ref(val[0][2][0]) == ('loc', 1)
            if val:
                res = ('call', val[0][1], val[0][2], val[0][3])
                arm = [e for e in p.conds() if e[1][0] == 'variant' and e[1][1] == res]
                if arm and arm[0][2] == 'Ok':
                    ok &= v == ('len', ('loc', 1))
                elif arm and arm[0][2] == 'Err':
                    ok &= v[0] == 'call' and (v[1] or '').endswith('valid_up_to') and 'simdutf8' in v[1]
                else:
                    ok = False
    rep.ob('C14-D1.fast', 'utf_8::fast_utf8_valid_up_to', ok, 'fast path is not: Some(x) only with x = src.len() on Ok and e.valid_up_to() on Err of simdutf8 validation of the whole slice', site, {'some_paths': nsome}, c)


def run(rep, facts, tier):
    for c, f in facts.items():
        d1(rep, f, c)
        d2_table(rep, f, c)
        d2_shapes(rep, f, c)
        d3(rep, f, c)
        n, d = r_unchecked.run(rep, f, c, 'R-UNCHECKED', lambda nm: nm.startswith(('utf_8::utf8_valid_up_to', 'utf_8::convert_utf8_to_utf16_up_to_invalid', 'mem::', 'ascii::')))
        rep.floor('R-UNCHECKED', 'unchecked reads in validators', n, 20, c)
        k = r_lookahead.run(rep, f, c, 'R-LOOKAHEAD', lambda nm: nm.startswith('mem::utf16_valid_up_to'))
        r_kernel.run(rep, f, c, 'R-KERNEL', ['validate'])
        if c.startswith('simd'):
            r_lane.run(rep, f, c)
        scan.run_specs(rep, f, c, 'R-SCAN', ['utf_8::utf8_valid_up_to', 'utf_8::convert_utf8_to_utf16_up_to_invalid', 'mem::utf16_valid_up_to',
                                             'mem::is_utf8_latin1_impl', 'mem::is_str_latin1_impl'])
    return ('other', MANIFEST['text'], [])
