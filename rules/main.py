"""Entry point: ./check <property> [--tier quick|thorough]"""
import importlib, os, sys, traceback
sys.path.insert(0, os.path.dirname(os.path.abspath(__file__)))
import factsbuild
from framework import Report
from mirlib import Facts

PROPS = ['C%02d' % i for i in range(1, 21)]


def main(argv):
    if not argv:
        print(__doc__)
        return 2
    if argv[0] == 'facts':
        print(factsbuild.ensure_facts(argv[1:] or ['default']))
        return 0
    pid = argv[0]
    tier = os.environ.get('VERIF_TIER', 'quick')
    if '--tier' in argv:
        tier = argv[argv.index('--tier') + 1]
    if tier not in ('quick', 'thorough'):
        tier = 'quick'
    if pid not in PROPS:
        print('unknown property', pid)
        return 2
    try:
        mod = importlib.import_module('p_' + pid.lower())
    except ImportError as e:
        print('no check module for %s: %s' % (pid, e))
        return 2
    rep = Report(pid, tier)
    cfgs = list(mod.CONFIGS[tier])
    rep.configs = cfgs
    facts = {}
    try:
        paths, th = factsbuild.ensure_facts(cfgs)
        rep.analysed['tree_sha256_24'] = th
        for c in cfgs:
            facts[c] = Facts(paths[c])
            rep.count('bodies_analysed:' + c, len(facts[c].bodies))
            rep.count('call_sites:' + c, sum(1 for b in facts[c].bodies.values() for _ in b.calls()))
    except RuntimeError as e:
        rep.ob('BUILD', 'configuration-compiles', False, str(e)[-1500:], None, None, 'build')
        return rep.finish('other', 'the tree does not compile in a configuration this property needs')
    try:
        level, expl, assumptions = mod.run(rep, facts, tier)
    except Exception as e:
        traceback.print_exc()
        rep.ob('INTERNAL', 'checker-exception', False,
               'the checker could not analyse the tree (fail closed): %r' % (e,), None, None, 'internal')
        return rep.finish('other', 'checker raised an exception; failing closed')
    return rep.finish(level, expl, assumptions)


if __name__ == '__main__':
    sys.exit(main(sys.argv[1:]))
