"""R-RANGE — exact extraction of constant-comparison predicates (DESIGN.md B.3).

Abstract interpretation over one scalar input x.  The abstract value of an expression is a
piecewise function of x over a partition of x's domain into intervals; each piece is
  ('x', a)   value = x + a   (exact integer, inside the value's type range on the piece)
  ('c', v)   value = v
  ('T', 0)   unknown
Branch conditions whose value is piecewise-constant refine the set of x reaching each
successor.  No statement is executed on a concrete input: pieces are intervals, transfer
functions split intervals at thresholds.  Anything outside the recognised operator set
becomes T; a branch on T inside a region is reported as `mixed` so rules can fail closed.
"""
from mirlib import *

MAX_PIECES = 200000


# ------------------------------------------------------------------ interval sets
class ISet:
    __slots__ = ('iv',)

    def __init__(self, iv=()):
        self.iv = self._norm(iv)

    @staticmethod
    def _norm(iv):
        iv = sorted((a, b) for a, b in iv if a <= b)
        out = []
        for a, b in iv:
            if out and a <= out[-1][1] + 1:
                if b > out[-1][1]:
                    out[-1] = (out[-1][0], b)
            else:
                out.append((a, b))
        return tuple(out)

    def __or__(self, o):
        return ISet(self.iv + o.iv)

    def __and__(self, o):
        out = []
        i = j = 0
        a, b = self.iv, o.iv
        while i < len(a) and j < len(b):
            lo = max(a[i][0], b[j][0])
            hi = min(a[i][1], b[j][1])
            if lo <= hi:
                out.append((lo, hi))
            if a[i][1] < b[j][1]:
                i += 1
            else:
                j += 1
        return ISet(out)

    def __sub__(self, o):
        if not self.iv:
            return self
        lo = self.iv[0][0]
        hi = self.iv[-1][1]
        return self & o.complement(lo, hi)

    def complement(self, lo, hi):
        out = []
        cur = lo
        for a, b in self.iv:
            if b < lo or a > hi:
                continue
            if a > cur:
                out.append((cur, a - 1))
            cur = max(cur, b + 1)
        if cur <= hi:
            out.append((cur, hi))
        return ISet(out)

    def __eq__(self, o):
        return isinstance(o, ISet) and self.iv == o.iv

    def __hash__(self):
        return hash(self.iv)

    def __bool__(self):
        return bool(self.iv)

    def __len__(self):
        return sum(b - a + 1 for a, b in self.iv)

    def __contains__(self, x):
        return any(a <= x <= b for a, b in self.iv)

    def __repr__(self):
        return '{' + ', '.join(('%X' % a) if a == b else ('%X-%X' % (a, b)) for a, b in self.iv) + '}'

    def to_json(self):
        return [[a, b] for a, b in self.iv]

    @staticmethod
    def of(*items):
        out = []
        for it in items:
            if isinstance(it, tuple):
                out.append(it)
            else:
                out.append((it, it))
        return ISet(out)


TYPE_BITS = {'u8': 8, 'u16': 16, 'u32': 32, 'u64': 64, 'usize': 64, 'i8': 8, 'i16': 16, 'i32': 32, 'i64': 64,
             'isize': 64, 'char': 32, 'bool': 1, 'u128': 128}


def ty_bits(ty):
    return TYPE_BITS.get(ty)


# ------------------------------------------------------------------ abstract values
class AV:
    """Piecewise function of x.  pieces: list of (lo, hi, kind, a) covering [0, N)."""
    __slots__ = ('pieces', 'bits')

    def __init__(self, pieces, bits):
        self.pieces = pieces
        self.bits = bits

    @staticmethod
    def const(v, bits, N):
        return AV([(0, N - 1, 'c', v)], bits)

    @staticmethod
    def top(bits, N):
        return AV([(0, N - 1, 'T', 0)], bits)

    @staticmethod
    def ident(bits, N):
        return AV([(0, N - 1, 'x', 0)], bits)

    def is_top(self):
        return any(k == 'T' for _, _, k, _ in self.pieces)

    def all_top(self):
        return all(k == 'T' for _, _, k, _ in self.pieces)

    def const_value(self):
        vs = {(k, a) for _, _, k, a in self.pieces}
        if len(vs) == 1:
            k, a = next(iter(vs))
            if k == 'c':
                return a
        return None

    def depends_on_x(self):
        return any(k == 'x' for _, _, k, _ in self.pieces) or len({(k, a) for _, _, k, a in self.pieces}) > 1

    def truth_set(self):
        """(set where value != 0, set where value == 0, set where unknown)"""
        t, f, u = [], [], []
        for lo, hi, k, a in self.pieces:
            if k == 'c':
                (t if a != 0 else f).append((lo, hi))
            elif k == 'x':
                # x + a == 0 at x = -a
                z = -a
                if lo <= z <= hi:
                    f.append((z, z))
                    if lo < z:
                        t.append((lo, z - 1))
                    if z < hi:
                        t.append((z + 1, hi))
                else:
                    t.append((lo, hi))
            else:
                u.append((lo, hi))
        return ISet(t), ISet(f), ISet(u)

    def value_set_where(self, v):
        """x such that value == v, x such that unknown"""
        s, u = [], []
        for lo, hi, k, a in self.pieces:
            if k == 'c':
                if a == v:
                    s.append((lo, hi))
            elif k == 'x':
                x = v - a
                if lo <= x <= hi:
                    s.append((x, x))
            else:
                u.append((lo, hi))
        return ISet(s), ISet(u)

    def compact(self):
        out = []
        for p in self.pieces:
            if out and out[-1][2] == p[2] and out[-1][3] == p[3] and out[-1][1] + 1 == p[0]:
                out[-1] = (out[-1][0], p[1], p[2], p[3])
            else:
                out.append(p)
        self.pieces = out
        return self

    def restrict_str(self):
        return ' '.join('%X-%X:%s%+d' % p if p[2] == 'x' else '%X-%X:%s%d' % p for p in self.pieces[:12])


def zip_pieces(a, b):
    """Common refinement of two piece lists."""
    out = []
    i = j = 0
    pa, pb = a.pieces, b.pieces
    lo = 0
    while i < len(pa) and j < len(pb):
        hi = min(pa[i][1], pb[j][1])
        out.append((lo, hi, pa[i], pb[j]))
        lo = hi + 1
        if pa[i][1] == hi:
            i += 1
        if pb[j][1] == hi:
            j += 1
    return out


def piece_range(lo, hi, k, a):
    if k == 'c':
        return a, a
    if k == 'x':
        return lo + a, hi + a
    return None


def wrap_pieces(pieces, bits):
    """Re-normalise 'x' pieces so that value stays inside [0, 2^bits) (wrapping arithmetic)."""
    M = 1 << bits
    out = []
    for lo, hi, k, a in pieces:
        if k == 'c':
            out.append((lo, hi, 'c', a % M))
        elif k == 'x':
            cur = lo
            while cur <= hi:
                v = cur + a
                q = v // M            # floor
                a2 = a - q * M
                # stays in this window while x + a2 < M
                end = min(hi, M - 1 - a2)
                out.append((cur, end, 'x', a2))
                cur = end + 1
                if len(out) > MAX_PIECES:
                    return None
        else:
            out.append((lo, hi, k, a))
    return out


def overflow_flag(pieces, bits):
    """Pieces of the boolean 'the unwrapped result leaves [0, 2^bits)'."""
    M = 1 << bits
    out = []
    for lo, hi, k, a in pieces:
        if k == 'c':
            out.append((lo, hi, 'c', 0 if 0 <= a < M else 1))
        elif k == 'x':
            # value = x + a in [0, M) iff -a <= x <= M-1-a
            gl, gh = max(lo, -a), min(hi, M - 1 - a)
            if gl > gh:
                out.append((lo, hi, 'c', 1))
            else:
                if lo < gl:
                    out.append((lo, gl - 1, 'c', 1))
                out.append((gl, gh, 'c', 0))
                if gh < hi:
                    out.append((gh + 1, hi, 'c', 1))
        else:
            out.append((lo, hi, 'T', 0))
    return out


CMP = {
    'Lt': lambda a, b: a < b, 'Le': lambda a, b: a <= b, 'Gt': lambda a, b: a > b,
    'Ge': lambda a, b: a >= b, 'Eq': lambda a, b: a == b, 'Ne': lambda a, b: a != b,
}


def cmp_x_const(op, lo, hi, a, c):
    """Pieces of  (x + a) <op> c  on [lo, hi]."""
    t = c - a  # compare x with t
    if op == 'Lt':
        true = (lo, min(hi, t - 1))
    elif op == 'Le':
        true = (lo, min(hi, t))
    elif op == 'Gt':
        true = (max(lo, t + 1), hi)
    elif op == 'Ge':
        true = (max(lo, t), hi)
    elif op == 'Eq':
        true = (t, t) if lo <= t <= hi else (1, 0)
    elif op == 'Ne':
        eq = cmp_x_const('Eq', lo, hi, a, c)
        return [(l, h, 'c', 1 - v) for l, h, _, v in eq]
    out = []
    tl, th = true
    if tl > th:
        return [(lo, hi, 'c', 0)]
    if lo < tl:
        out.append((lo, tl - 1, 'c', 0))
    out.append((tl, th, 'c', 1))
    if th < hi:
        out.append((th + 1, hi, 'c', 0))
    return out


FLIP = {'Lt': 'Gt', 'Le': 'Ge', 'Gt': 'Lt', 'Ge': 'Le', 'Eq': 'Eq', 'Ne': 'Ne'}


class RangeAnalysis:
    """analysis of `body` w.r.t. input x.

    xkeys: set of resolved expressions that denote x (e.g. {('loc', 1)} or {('deref', ('loc', 17))}).
    entries: blocks at which x ranges over its whole domain `dom` (an ISet).
    env: optional {local: AV} (used when analysing a callee in the caller's x)."""

    def __init__(self, facts, body, xkeys, xbits, dom, entries=(0,), env=None, depth=0, N=None, stop=(), opaque_ok=False, assume_variant=None):
        self.assume_variant = assume_variant
        self.facts = facts
        self.body = body
        self.xkeys = set(xkeys)
        self.xbits = xbits
        self.N = N if N is not None else (dom.iv[-1][1] + 1)
        self.dom = dom
        self.entries = list(entries)
        self.env = env or {}
        self.depth = depth
        self.stop = set(stop)
        self.opaque_ok = opaque_ok      # x-dependent conditions we cannot interpret become nondeterministic branches
        self.opaque_x = []
        self.res = Resolver(body)
        self.exact = {}              # x that reach a block through decided (or x-independent) branches only
        self._edge_opaque = set()    # blocks whose outgoing branch is an undecided x-dependent predicate
        self.ptrmap = getattr(facts, 'ptrmap', None)    # {static name: index} for finite pointer domains (C20)
        self.reach = {}
        self.mixed = []        # (bb, reason) branches that depend on x in a way we cannot decide
        self.opaque = []       # bbs with x-independent branches
        self.panics = {}       # bb -> ISet of x for which an assert fails
        self.acyclic = not body.back_edges()
        self._phi_guard = set()
        self._rd_guard = set()
        self._rd_cache = {}
        self.cur_block = None
        self.run()

    # ---------------------------------------------------------------- expression evaluation
    def top(self, bits=64):
        return AV.top(bits, self.N)

    def ev(self, e):
        N = self.N
        if e in self.xkeys:
            return AV.ident(self.xbits, N)
        k = e[0]
        if k == 'c':
            if isinstance(e[2], str) and e[2][:1] == 'i' and e[2] != 'isize' and isinstance(e[1], int) and (ty_bits(e[2]) or 0) in (8, 16, 32) and \
                    e[1] >= (1 << (ty_bits(e[2]) - 1)):
                return AV.const(e[1] - (1 << ty_bits(e[2])), ty_bits(e[2]), N)       # a negative constant of a signed type
            return AV.const(e[1], ty_bits(e[2]) or 64, N)
        if self.ptrmap is not None:
            pe = strip_ref(e)
            if pe in self.xkeys:
                return AV.ident(self.xbits, N)
            if pe[0] == 'cptr' and pe[2] == 0:
                import json as _json
                tgt = _json.loads(pe[1]).get('static')
                if tgt in self.ptrmap:
                    return AV.const(self.ptrmap[tgt], self.xbits, N)
        if k == 'loc':
            if e[1] in self.env:
                return self.env[e[1]]
            if not self.acyclic and self.cur_block is not None:
                ds = self.defs_reaching(e[1], self.cur_block)
                if ds is not None and len(ds) == 1 and e[1] not in self._rd_guard:
                    self._rd_guard.add(e[1])
                    try:
                        bi, si = ds[0]
                        saved = self.cur_block
                        self.cur_block = bi
                        try:
                            if si == 't':
                                return self.ev(Resolver(self.body).call(self.body.blocks[bi]['t'], bi, 0))
                            return self.ev(Resolver(self.body).rvalue(self.body.blocks[bi]['s'][si]['rv']))
                        finally:
                            self.cur_block = saved
                    finally:
                        self._rd_guard.discard(e[1])
            return self.phi(e[1])
        if k == 'cast':
            v = self.ev(e[2])
            kind = e[1]
            to = e[3]
            tb = ty_bits(to)
            if kind in ('IntToInt',) and tb:
                if tb == v.bits and to.startswith('i') and tb in (8, 16, 32):
                    # reinterpretation as the signed type of the same width (`b as i8`): values from 2^(w-1) up become value - 2^w
                    half, M_ = 1 << (tb - 1), 1 << tb
                    out_ = []
                    okp = True
                    for lo, hi, kk, a in v.pieces:
                        if kk == 'c':
                            out_.append((lo, hi, 'c', a - M_ if a >= half else a))
                        elif kk == 'x':
                            # value = x + a on [lo, hi], inside [0, 2^w)
                            cut = half - a          # first x whose value reaches 2^(w-1)
                            if hi < cut:
                                out_.append((lo, hi, 'x', a))
                            elif lo >= cut:
                                out_.append((lo, hi, 'x', a - M_))
                            else:
                                out_.append((lo, cut - 1, 'x', a))
                                out_.append((cut, hi, 'x', a - M_))
                        else:
                            out_.append((lo, hi, kk, a))
                    return AV(out_, tb)
                if tb >= v.bits and not to.startswith('i'):
                    return AV(v.pieces, tb)
                w = wrap_pieces(v.pieces, tb) if not to.startswith('i') else None
                return AV(w, tb).compact() if w is not None else self.top(tb)
            return self.top(tb or 64)
        if k == 'bin' or k == 'ovfflag':
            return self.binop(e)
        if k == 'un':
            v = self.ev(e[2])
            if e[1] == 'Not' and v.bits == 1:
                return AV([(lo, hi, kk, (1 - a) if kk == 'c' else 0) if kk != 'x' else (lo, hi, 'T', 0)
                           for lo, hi, kk, a in v.pieces], 1)
            return self.top(v.bits)
        if k == 'call':
            return self.call(e)
        if k == 'ref':
            return self.ev(e[1])
        if k == 'deref':
            # *(&expr)
            inner = e[1]
            if inner[0] == 'ref':
                return self.ev(inner[1])
            if inner[0] == 'cptr' and inner[2] == 0:
                # a promoted scalar constant (`debug_assert_eq!(x & 0xF800, 0xD800)` compares through references)
                try:
                    import json as _json
                    tgt = _json.loads(inner[1])
                    raw = self.facts.mem_bytes(tgt['mem']) if 'mem' in tgt and str(tgt['mem']) in self.facts.mems and \
                        not self.facts.mems[str(tgt['mem'])].get('relocs') else None
                except Exception:
                    raw = None
                if raw is not None and len(raw) in (1, 2, 4, 8):
                    return AV.const(int.from_bytes(raw, 'little'), len(raw) * 8, N)
            return self.top()
        return self.top()

    def binop(self, e):
        flag = e[0] == 'ovfflag'
        op, le, re_ = e[1], e[2], e[3]
        l = self.ev(le)
        r = self.ev(re_)
        bits = l.bits
        N = self.N
        if op in CMP and not flag:
            out = []
            for lo, hi, pl, pr in zip_pieces(l, r):
                kl, al = pl[2], pl[3]
                kr, ar = pr[2], pr[3]
                if kl == 'c' and kr == 'c':
                    out.append((lo, hi, 'c', int(CMP[op](al, ar))))
                elif kl == 'x' and kr == 'c':
                    out.extend(cmp_x_const(op, lo, hi, al, ar))
                elif kl == 'c' and kr == 'x':
                    out.extend(cmp_x_const(FLIP[op], lo, hi, ar, al))
                elif kl == 'x' and kr == 'x':
                    # (x + al) op (x + ar)
                    out.append((lo, hi, 'c', int(CMP[op](al, ar))))
                else:
                    out.append((lo, hi, 'T', 0))
            return AV(out, 1).compact()
        if op in ('Add', 'Sub'):
            sign = 1 if op == 'Add' else -1
            out = []
            for lo, hi, pl, pr in zip_pieces(l, r):
                kl, al = pl[2], pl[3]
                kr, ar = pr[2], pr[3]
                if kl == 'c' and kr == 'c':
                    out.append((lo, hi, 'c', al + sign * ar))
                elif kl == 'x' and kr == 'c':
                    out.append((lo, hi, 'x', al + sign * ar))
                elif kl == 'c' and kr == 'x' and sign == 1:
                    out.append((lo, hi, 'x', al + ar))
                elif kl == 'x' and kr == 'x' and sign == -1:
                    out.append((lo, hi, 'c', al - ar))
                else:
                    out.append((lo, hi, 'T', 0))
            if flag:
                return AV(overflow_flag(out, bits), 1).compact()
            w = wrap_pieces(out, bits)
            return AV(w, bits).compact() if w is not None else self.top(bits)
        if flag:
            # overflow flag of Mul etc.: constant-fold only
            lc, rc = l.const_value(), r.const_value()
            if lc is not None and rc is not None and op == 'Mul':
                return AV.const(0 if lc * rc < (1 << bits) else 1, 1, N)
            return self.top(1)
        if op in ('BitAnd', 'BitOr', 'BitXor') and l.bits == 1 and r.bits == 1:
            f = {'BitAnd': lambda a, b: a & b, 'BitOr': lambda a, b: a | b, 'BitXor': lambda a, b: a ^ b}[op]
            out = []
            for lo, hi, pl, pr in zip_pieces(l, r):
                if pl[2] == 'c' and pr[2] == 'c':
                    out.append((lo, hi, 'c', f(pl[3], pr[3])))
                elif op == 'BitAnd' and ((pl[2] == 'c' and pl[3] == 0) or (pr[2] == 'c' and pr[3] == 0)):
                    out.append((lo, hi, 'c', 0))
                elif op == 'BitOr' and ((pl[2] == 'c' and pl[3] == 1) or (pr[2] == 'c' and pr[3] == 1)):
                    out.append((lo, hi, 'c', 1))
                else:
                    out.append((lo, hi, 'T', 0))
            return AV(out, 1).compact()
        rc = r.const_value()
        lc = l.const_value()
        if op == 'BitAnd' and rc is not None:
            return self.mask(l, rc)
        lc = l.const_value()
        if op == 'BitAnd' and lc is not None:
            return self.mask(r, lc)
        if op == 'Shr' and rc is not None:
            return self.blockwise(l, 1 << rc, lambda v: v >> rc, bits)
        if op == 'BitOr' and (rc is not None or lc is not None):
            v, k = (l, rc) if rc is not None else (r, lc)
            out = []
            low = (k & -k) if k else (1 << bits)
            for lo, hi, kk, a in v.pieces:
                if kk == 'c':
                    out.append((lo, hi, 'c', a | k))
                elif kk == 'x' and hi + a < low and lo + a >= 0:
                    out.append((lo, hi, 'x', a + k))      # no bit overlap: OR is addition
                else:
                    out.append((lo, hi, 'T', 0))
            return AV(out, bits).compact()
        if op in ('Mul', 'Shl', 'BitOr', 'BitXor', 'Div', 'Rem') and lc is not None and rc is not None:
            f = {'Mul': lambda a, b: a * b, 'Shl': lambda a, b: a << b, 'BitOr': lambda a, b: a | b,
                 'BitXor': lambda a, b: a ^ b, 'Div': lambda a, b: a // b if b else 0, 'Rem': lambda a, b: a % b if b else 0}[op]
            return AV.const(f(lc, rc) % (1 << bits), bits, N)
        return self.top(bits)

    def mask(self, v, m):
        bits = v.bits
        full = (1 << bits) - 1
        m &= full
        # identity if the mask keeps every bit the value can have
        out = []
        ok_ident = True
        for lo, hi, k, a in v.pieces:
            rg = piece_range(lo, hi, k, a)
            if rg is None:
                ok_ident = False
                break
            top = rg[1]
            if top & ~m:
                # some value bit may be cleared
                need = (1 << max(top.bit_length(), 1)) - 1
                if (m & need) != need:
                    ok_ident = False
                    break
        if ok_ident:
            return v
        # low mask 2^k - 1: value mod 2^k, piecewise affine
        if m and (m & (m + 1)) == 0:
            w = wrap_pieces(v.pieces, m.bit_length())
            return AV(w, bits).compact() if w is not None else self.top(bits)
        # high mask: ones then zeros -> constant on aligned blocks of size 2^tz
        if m == 0:
            return AV.const(0, bits, self.N)
        tz = (m & -m).bit_length() - 1
        return self.blockwise(v, 1 << tz, lambda val: val & m, bits)

    def blockwise(self, v, block, f, bits):
        """value -> f(value) where f is constant on aligned blocks of `block` values."""
        out = []
        for lo, hi, k, a in v.pieces:
            if k == 'c':
                out.append((lo, hi, 'c', f(a)))
            elif k == 'x':
                cur = lo
                while cur <= hi:
                    val = cur + a
                    end_val = (val // block + 1) * block - 1
                    end = min(hi, end_val - a)
                    out.append((cur, end, 'c', f(val)))
                    cur = end + 1
                    if len(out) > MAX_PIECES:
                        return self.top(bits)
            else:
                out.append((lo, hi, 'T', 0))
        return AV(out, bits).compact()

    def call(self, e):
        fn, args = e[1], e[2]
        if fn is None:
            return self.top()
        short = fn.rsplit('::', 1)[-1]
        if fn.startswith('core::num::') and short in ('wrapping_sub', 'wrapping_add') and len(args) == 2:
            return self.binop(('bin', 'Sub' if short == 'wrapping_sub' else 'Add', args[0], args[1]))
        if short == 'from' and len(args) == 1 and ('convert::From' in fn or 'core::convert' in fn):
            v = self.ev(args[0])
            # widening integer / char->u32 conversions only
            m = None
            import re as _re
            mm = _re.search(r'impl (?:core::convert::)?From<(\w+)> for (\w+)', fn)
            if mm and ty_bits(mm.group(2)) and ty_bits(mm.group(1)) and ty_bits(mm.group(2)) >= ty_bits(mm.group(1)):
                return AV(v.pieces, ty_bits(mm.group(2)))
            return self.top()
        if short == 'contains' and 'Range' in fn and 'RangeInclusive' not in fn and len(args) == 2:
            # half-open Range<T>::contains: promoted constant (start, end) in declaration order, or a Range{start, end} aggregate
            rng = strip_ref(args[0])
            item = strip_ref(args[1])
            bounds = None
            if rng[0] == 'agg' and 'Range' in rng[1] and len(rng[2]) == 2:
                bounds = (rng[2][0], rng[2][1])
            elif rng[0] == 'cptr' and rng[2] == 0:
                import json as _json
                tgt = _json.loads(rng[1])
                raw = self.facts.mem_bytes(tgt['mem']) if 'mem' in tgt and str(tgt['mem']) in self.facts.mems else None
                if raw is not None and len(raw) in (2, 4, 8):
                    w = len(raw) // 2
                    a_, b_ = int.from_bytes(raw[:w], 'little'), int.from_bytes(raw[w:], 'little')
                    ty_ = {1: 'u8', 2: 'u16', 4: 'u32'}[w]
                    bounds = (('c', a_, ty_), ('c', b_, ty_))
            if bounds is not None:
                ge = self.binop(('bin', 'Ge', item, bounds[0]))
                lt = self.binop(('bin', 'Lt', item, bounds[1]))
                out = []
                for lo, hi, pl, pr in zip_pieces(ge, lt):
                    if pl[2] == 'c' and pr[2] == 'c':
                        out.append((lo, hi, 'c', pl[3] & pr[3]))
                    else:
                        out.append((lo, hi, 'T', 0))
                return AV(out, 1).compact()
            return self.top(1)
        if short == 'is_ascii' and fn.startswith('core::num::') and len(args) == 1:
            return self.binop(('bin', 'Lt', deref_arg(args[0]), ('c', 0x80, 'u8' if 'u8' in fn else 'u16')))
        if short == 'contains' and 'RangeInclusive' in fn and len(args) == 2:
            rng = strip_ref(args[0])
            while rng[0] in ('deref', 'ref'):
                rng = strip_ref(rng[1])
            item = strip_ref(args[1])
            bounds = None
            if rng[0] == 'call' and (rng[1] or '').endswith('::new') and len(rng[2]) == 2:
                bounds = (rng[2][0], rng[2][1])
            elif rng[0] == 'cptr' and rng[2] == 0 and ('<u16>' in fn or '<Idx>' in fn) and \
                    len(self.facts.mems.get(str(__import__('json').loads(rng[1]).get('mem')), {}).get('bytes', '')) == 12:
                import json as _json
                tgt = _json.loads(rng[1])
                raw = self.facts.mem_bytes(tgt['mem']) if 'mem' in tgt and str(tgt['mem']) in self.facts.mems else None
                if raw is not None and len(raw) == 6 and raw[4] == 0:
                    a_, b_ = int.from_bytes(raw[0:2], 'little'), int.from_bytes(raw[2:4], 'little')
                    if a_ <= b_:
                        bounds = (('c', a_, 'u16'), ('c', b_, 'u16'))
            elif rng[0] == 'cptr' and rng[2] == 0 and ('<char>' in fn or '<u32>' in fn or '<Idx>' in fn) and \
                    len(self.facts.mems.get(str(__import__('json').loads(rng[1]).get('mem')), {}).get('bytes', '')) == 24:
                # a promoted RangeInclusive<char> / <u32> constant: (start, end, exhausted = false) with padding
                import json as _json
                tgt = _json.loads(rng[1])
                raw = self.facts.mem_bytes(tgt['mem'])
                a_, b_ = int.from_bytes(raw[0:4], 'little'), int.from_bytes(raw[4:8], 'little')
                if raw[8] == 0 and a_ <= b_ and not any(raw[9:]):
                    bounds = (('c', a_, 'u32'), ('c', b_, 'u32'))
            elif rng[0] == 'cptr' and rng[2] == 0 and '<u8>' in fn + '<u8>':
                # a promoted RangeInclusive<u8> constant: three bytes (start, end, exhausted = 0)
                import json as _json
                tgt = _json.loads(rng[1])
                raw = self.facts.mem_bytes(tgt['mem']) if 'mem' in tgt and str(tgt['mem']) in self.facts.mems else None
                if raw is not None and len(raw) == 3:
                    # field order is the compiler's choice: exactly one reading (flag byte 0, 0 < start <= end) must fit
                    cands = []
                    if raw[2] == 0 and 0 < raw[0] <= raw[1]:
                        cands.append((raw[0], raw[1]))
                    if raw[0] == 0 and 0 < raw[1] <= raw[2]:
                        cands.append((raw[1], raw[2]))
                    if len(cands) == 1:
                        bounds = (('c', cands[0][0], 'u8'), ('c', cands[0][1], 'u8'))
            if bounds is not None:
                ge = self.binop(('bin', 'Ge', item, bounds[0]))
                le = self.binop(('bin', 'Le', item, bounds[1]))
                out = []
                for lo, hi, pl, pr in zip_pieces(ge, le):
                    if pl[2] == 'c' and pr[2] == 'c':
                        out.append((lo, hi, 'c', pl[3] & pr[3]))
                    else:
                        out.append((lo, hi, 'T', 0))
                return AV(out, 1).compact()
            return self.top(1)
        if self.ptrmap is not None and short in ('eq', 'ne') and len(args) == 2 and ('PartialEq' in fn or 'Encoding' in fn):
            return self.binop(('bin', 'Eq' if short == 'eq' else 'Ne', args[0], args[1]))
        b = self.facts.body(fn)
        if b is not None and self.depth < 3 and len(args) == b.arg_count:
            env = {}
            anyx = False
            for i, a in enumerate(args):
                av = self.ev(a)
                env[i + 1] = av
            sub = RangeAnalysis(self.facts, b, set(), self.xbits, self.dom, (0,), env, self.depth + 1, self.N)
            sub.ptrmap = self.ptrmap
            if sub.mixed:
                return self.top()
            return sub.return_value()
        return self.top()

    def defs_reaching(self, l, block):
        """Definitions (bb, si) of whole local l that reach the end of `block` (None if l is an argument / unknown)."""
        if l <= self.body.arg_count:
            return None
        if l not in self._rd_cache:
            self._rd_cache[l] = reaching_defs(self.body, l)
        inblock = [(bi, si) for bi, si, k, n in self.body.defs.get(l, []) if bi == block and k in ('assign', 'call')]
        if inblock:
            inblock.sort(key=lambda d: 10 ** 9 if d[1] == 't' else d[1])
            return [inblock[-1]]
        if any(k == 'partial' for _, _, k, _ in self.body.defs.get(l, [])):
            return None
        return sorted(self._rd_cache[l].get(block, ()), key=str)

    def depends_on_x(self, e, block, seen=None):
        """Syntactic closure: can the value of e depend on x (through multiply-assigned locals too)?"""
        seen = seen if seen is not None else set()
        for sub in walk(e):
            if sub in self.xkeys:
                return True
            if sub[0] == 'loc':
                l = sub[1]
                if l in self.env and self.env[l].depends_on_x():
                    return True
                if l in seen or l <= self.body.arg_count:
                    continue
                seen.add(l)
                for bi, si, k, n in self.body.defs.get(l, []):
                    if k == 'assign':
                        if self.depends_on_x(Resolver(self.body).rvalue(n['rv']), bi, seen):
                            return True
                    elif k == 'call':
                        if self.depends_on_x(Resolver(self.body).call(n, bi, 0), bi, seen):
                            return True
        return False

    def phi(self, l):
        """Value of a multiply-assigned local: merge of its definitions, each restricted to the x that
        reach the defining block (only in acyclic bodies, where those sets are final when needed)."""
        if l in self._phi_guard:
            return self.top()
        defs = self.body.defs.get(l, [])
        if not defs or any(k not in ('assign', 'call') for _, _, k, _ in defs):
            return self.top()
        if not self.acyclic:
            # In a body with loops the reach sets are those of the current lifetime of x (they restart at `entries`, the
            # definitions of x).  The merge is meaningful only if l is assigned afresh in every lifetime before this use:
            # no path from an entry to the use avoids all definitions of l.  The sets are not final while the propagation
            # runs; run() re-sweeps until they are (see there).
            use = self.cur_block
            dblocks = {bi for bi, _, _, _ in defs}
            if use is None or (set(self.entries) & dblocks):
                return self.top()
            seen, stack = set(), [e for e in self.entries]
            while stack:
                x = stack.pop()
                if x in seen or x in dblocks:
                    continue
                seen.add(x)
                if x == use:
                    return self.top()
                stack.extend(self.body.succ[x])
            self.used_phi = True
        self._phi_guard.add(l)
        try:
            bits = ty_bits(self.body.locals[l]['ty']) or 64
            acc = []   # (lo, hi, kind, a)
            covered = ISet()
            for bi, si, k, node in defs:
                r = self.reach.get(bi)
                if r is None or not r:
                    continue
                if covered & r:
                    return self.top(bits)
                covered = covered | r
                saved = self.res.cur
                saved_cb = self.cur_block
                if not self.acyclic:
                    self.cur_block = bi
                try:
                    if k == 'call':
                        v = self.ev(self.res.call(node, bi, 0))
                    else:
                        v = self.ev(self.res.rvalue(node['rv']))
                finally:
                    self.cur_block = saved_cb
                for lo, hi in r.iv:
                    for plo, phi_, kk, a in v.pieces:
                        a0, b0 = max(lo, plo), min(hi, phi_)
                        if a0 <= b0:
                            acc.append((a0, b0, kk, a))
            acc.sort()
            out = []
            cur = 0
            for p in acc:
                if p[0] > cur:
                    out.append((cur, p[0] - 1, 'T', 0))
                out.append(p)
                cur = p[1] + 1
            if cur <= self.N - 1:
                out.append((cur, self.N - 1, 'T', 0))
            return AV(out, bits).compact()
        finally:
            self._phi_guard.discard(l)

    def return_value(self):
        """Piecewise value of _0 at return (acyclic bodies)."""
        return self.phi(0) if len(self.body.defs.get(0, [])) != 1 or True else None

    # ---------------------------------------------------------------- propagation
    def run(self):
        body = self.body
        work = []
        for e in self.entries:
            self.reach[e] = self.dom
            self.exact[e] = self.dom
            work.append(e)
        order = {b: i for i, b in enumerate(body.rpo())}
        import heapq
        heap = [(order.get(b, 1 << 30), b) for b in work]
        heapq.heapify(heap)
        inq = set(work)
        iters = 0
        while heap:
            _, b = heapq.heappop(heap)
            inq.discard(b)
            iters += 1
            if iters > 200000:
                self.mixed.append((b, 'iteration bound'))
                break
            if b in self.stop:
                continue
            cur = self.reach.get(b, ISet())
            if not cur:
                continue
            ex_b = self.exact.get(b, ISet())
            for s, sset in self.edges(b, cur):
                if not sset:
                    continue
                old = self.reach.get(s, ISet())
                new = old | sset
                if s in self.entries:
                    new = self.dom
                olde = self.exact.get(s, ISet())
                newe = olde if b in self._edge_opaque else (olde | (ex_b & sset))
                if s in self.entries:
                    newe = self.dom
                if new != old or newe != olde:
                    self.reach[s] = new
                    self.exact[s] = newe
                    if s not in inq:
                        heapq.heappush(heap, (order.get(s, 1 << 30), s))
                        inq.add(s)
            if not heap and getattr(self, 'used_phi', False) and not self.acyclic:
                # merged locals were evaluated with reach sets that may have grown since: sweep every reached block once more;
                # the loop ends when a whole sweep adds nothing (the sets only grow), i.e. when they are inductive
                sweeps = getattr(self, '_sweeps', 0)
                snap = getattr(self, '_snap', None)
                cur_snap = {k_: v_ for k_, v_ in self.reach.items()}
                if snap != cur_snap and sweeps >= 50:
                    self.mixed.append((b, 'merge re-sweep bound'))
                if snap != cur_snap and sweeps < 50:
                    self._snap = cur_snap
                    self._sweeps = sweeps + 1
                    for b2 in self.reach:
                        if self.reach[b2] and b2 not in inq:
                            heapq.heappush(heap, (order.get(b2, 1 << 30), b2))
                            inq.add(b2)

    def edges(self, b, cur):
        body = self.body
        t = body.blocks[b]['t']
        if 'switch' in t and t.get('variants') and getattr(self, 'assume_variant', None):
            # a match on an enum-typed place whose variant the caller has fixed (per-state evaluation): only that arm is taken
            scr = self.res.place(t['discr_of'], record=False)
            if scr in self.assume_variant:
                want = self.assume_variant[scr]
                tg = [tgt for val, tgt in t['targets'] if t['variants'].get(str(val)) == want]
                return [(tg[0] if tg else t['otherwise'], cur)]
        if 'switch' in t:
            self.res.cur = (b, 't')
            self.cur_block = b
            cond = self.res.operand(t['switch'])
            v = self.ev(cond)
            if v.all_top():
                # does the condition depend on x at all?
                dep = self.depends_on_x(cond, b) or self.mentions_env(cond)
                if dep:
                    self._edge_opaque.add(b)
                if self.opaque_ok and dep:
                    self.opaque_x.append(b)
                elif dep:
                    self.mixed.append((b, 'condition depends on x beyond the recognised operators: %s' % expr_str(cond, body)[:200]))
                else:
                    self.opaque.append(b)
                return [(s, cur) for s in body.succ[b]]
            out = []
            rest = cur
            unknown = ISet()
            for val, tgt in t['targets']:
                s, u = v.value_set_where(val)
                s = s & cur
                unknown = unknown | (u & cur)
                rest = rest - s
                out.append((tgt, s))
            out.append((t['otherwise'], rest))
            if unknown:
                self._edge_opaque.add(b)
                if self.opaque_ok:
                    self.opaque_x.append(b)
                else:
                    self.mixed.append((b, 'condition undecided for x in %r: %s' % (unknown, expr_str(cond, body)[:200])))
                out = [(s, st | unknown) for s, st in out]
            return out
        if 'assert' in t:
            self.res.cur = (b, 't')
            self.cur_block = b
            cond = self.res.operand(t['assert'])
            v = self.ev(cond)
            tset, fset, uset = v.truth_set()
            ok = (tset if t['expected'] else fset) | uset
            bad = (fset if t['expected'] else tset) & cur
            if bad:
                self.panics[b] = self.panics.get(b, ISet()) | bad
            return [(t['target'], cur & ok)]
        return [(s, cur) for s in body.succ[b]]

    def mentions_env(self, cond):
        for sub in walk(cond):
            if sub[0] == 'loc' and sub[1] in self.env and self.env[sub[1]].depends_on_x():
                return True
        return False

    # ---------------------------------------------------------------- queries
    def reach_of(self, bb):
        return self.reach.get(bb, ISet())

    def exact_of(self, bb):
        return self.exact.get(bb, ISet())

    def blocks_assigning_const(self, local, value=None):
        """[(bb, const)] for statements `local = const` (whole-local)."""
        out = []
        for bi, si, k, node in self.body.defs.get(local, []):
            if k == 'assign' and 'use' in node['rv']:
                c = op_int(node['rv']['use'])
                if c is not None and (value is None or c == value):
                    out.append((bi, c))
        return out

    def set_where_local_const(self, local):
        """{const: ISet} for a local assigned only constants (e.g. a bool return value)."""
        out = {}
        for bi, c in self.blocks_assigning_const(local):
            out[c] = out.get(c, ISet()) | self.reach_of(bi)
        return out


# ------------------------------------------------------------------ single-branch predicates
def deref_arg(a):
    a = strip_ref(a)
    return a[1] if a[0] == 'deref' else a


def leaves(e):
    """Non-constant leaves of a resolved expression (loads, locals, calls we do not interpret)."""
    k = e[0]
    if k in ('c', 'cs', 'cfn', 'cptr', 'czst', 'cother'):
        return []
    if k == 'deref' and e[1][0] == 'cptr':
        return []              # a promoted constant behind a reference
    if k == 'deref' and e[1][0] == 'ref':
        return leaves(e[1][1])
    if k in ('bin', 'ovfflag'):
        return leaves(e[2]) + leaves(e[3])
    if k == 'un':
        return leaves(e[2])
    if k == 'cast':
        return leaves(e[2])
    if k == 'call':
        fn = e[1] or ''
        short = fn.rsplit('::', 1)[-1]
        if fn.startswith('core::num::') and short in ('wrapping_sub', 'wrapping_add'):
            return leaves(e[2][0]) + leaves(e[2][1])
        if short == 'from' and 'From<' in fn and len(e[2]) == 1:
            return leaves(e[2][0])
        if fn in ('in_range16', 'in_range32', 'in_inclusive_range8', 'in_inclusive_range16', 'in_inclusive_range32',
                  'in_inclusive_range'):
            out = []
            for a in e[2]:
                out += leaves(a)
            return out
        if short == 'contains' and 'Range' in fn and len(e[2]) == 2:
            it = strip_ref(e[2][1])
            return leaves(it[1] if it[0] == 'deref' else it)
        if short == 'is_ascii' and fn.startswith('core::num::') and len(e[2]) == 1:
            it = strip_ref(e[2][0])
            return leaves(it[1] if it[0] == 'deref' else it)
        return [e]
    return [e]


def strip_ty(ty):
    ty = ty.strip()
    while ty.startswith('&'):
        ty = ty[1:].lstrip()
        if ty.startswith("'"):
            ty = ty.split(' ', 1)[1] if ' ' in ty else ty
        if ty.startswith('mut '):
            ty = ty[4:]
    return ty


def expr_bits(body, e):
    """Bit width of the scalar denoted by leaf expression e, if it can be told from local types."""
    k = e[0]
    if k == 'loc':
        return ty_bits(body.locals[e[1]]['ty'])
    if k == 'deref':
        inner = e[1]
        if inner[0] == 'loc':
            return ty_bits(strip_ty(body.locals[inner[1]]['ty']))
        return None
    if k == 'idx':
        base = e[1]
        while base[0] in ('deref', 'ref'):
            base = base[1]
        if base[0] == 'loc':
            t = strip_ty(body.locals[base[1]]['ty'])
            if t.startswith('['):
                el = t[1:].split(';')[0].rstrip(']').strip()
                return ty_bits(el)
        return None
    return None


def const_bits_in(e):
    """Width of a <=32-bit integer constant compared against, if any."""
    for sub in walk(e):
        if sub[0] == 'c' and isinstance(sub[2], str) and (ty_bits(sub[2]) or 99) <= 32 and sub[2] != 'bool':
            return ty_bits(sub[2]), sub[2]
    return None, None


def _mk(facts, body, res, leaf, bits, N):
    ra = RangeAnalysis.__new__(RangeAnalysis)
    ra.facts, ra.body, ra.xkeys, ra.xbits, ra.N, ra.dom = facts, body, {leaf}, bits, N, ISet.of((0, N - 1))
    ra.env, ra.depth, ra.res, ra.reach, ra.mixed, ra.opaque, ra.panics = {}, 0, res, {}, [], [], {}
    ra.acyclic, ra._phi_guard, ra.entries, ra.stop = False, set(), [], set()
    ra.ptrmap = getattr(facts, 'ptrmap', None)
    ra._rd_guard, ra._rd_cache, ra.cur_block, ra.opaque_ok, ra.opaque_x = set(), {}, None, False, []
    return ra


class NamedResolver(Resolver):
    """Expresses values over the program's own variables: a named local is a leaf — unless it is itself a function of exactly one
    other variable (`let high_bits = code_unit & 0xFC00`), in which case it is seen through, so that a test of `high_bits` is
    judged as the test of `code_unit` it is."""

    def local(self, l, d=0):
        if l in self.cache:
            return self.cache[l]
        if self.b.locals[l].get('name') and l > self.b.arg_count and d > 0:
            sd = self.b.single_def(l)
            r = ('loc', l)
            if sd is not None and sd[2] == 'assign' and d < self.max_depth:
                self.cache[l] = r          # cycle guard
                saved = self.cur
                self.cur = (sd[0], sd[1])
                v = self.rvalue(sd[3]['rv'], d + 1)
                self.cur = saved
                uniq = []
                for x in leaves(v):
                    if x not in uniq:
                        uniq.append(x)
                if len(uniq) == 1 and uniq[0][0] == 'loc':
                    r = v
            self.cache[l] = r
            return r
        return Resolver.local(self, l, d)


def scalar_predicates(facts, body):
    """Every comparison (assigned or switched on) whose value depends on exactly one scalar leaf and
    constants: list of dict(bb, leaf, bits, ty, true_set|None, at).  Integer switches directly on a leaf
    are reported with true_set = union of the listed values and `values` = the individual ones."""
    out = []
    res = Resolver(body)

    res_named = NamedResolver(body)

    def one(bi, cond, at, is_switch_int=False, targets=None, remake=None):
        uniq = []
        for l in leaves(cond):
            if l not in uniq:
                uniq.append(l)
        if len(uniq) > 1 and remake is not None:
            # a test of a value assembled from several inputs (`let unit = hi << 8 | lo; if unit & 0xFC00 == 0xD800`): judge it
            # as a test of the program's own variable `unit`
            cond = remake(res_named)
            uniq = []
            for l in leaves(cond):
                if l not in uniq:
                    uniq.append(l)
        if len(uniq) != 1:
            return
        leaf = uniq[0]
        bits = expr_bits(body, leaf)
        ty = None
        if bits is None:
            bits, ty = const_bits_in(cond)
        if bits is None or bits > 32:
            return
        is_char = (leaf[0] == 'loc' and body.locals[leaf[1]]['ty'] == 'char') or ty == 'char'
        N = 0x110000 if is_char else (1 << bits)
        ra = _mk(facts, body, res, leaf, bits, N)
        v = ra.ev(cond)
        rec = {'bb': bi, 'leaf': leaf, 'bits': bits, 'N': N, 'at': at, 'true_set': None}
        if is_switch_int:
            allv = ISet()
            vals = []
            for val, tgt in targets:
                s_, u = v.value_set_where(val)
                if u:
                    out.append(rec)
                    return
                allv = allv | s_
                vals.append(s_)
            rec['true_set'] = allv
            rec['values'] = vals
        else:
            ts, fs, us = v.truth_set()
            if not us:
                rec['true_set'] = ts
        out.append(rec)

    for bi, blk in enumerate(body.blocks):
        for si, st in enumerate(blk['s']):
            if 'assign' in st and 'bin' in st['rv'] and st['rv']['bin'] in CMP:
                one(bi, res.rvalue(st['rv']), sp_str(st['sp']), remake=lambda rr, _st=st: rr.rvalue(_st['rv']))
        t = blk['t']
        if 'switch' in t and t.get('sty') != 'bool' and not t.get('variants'):
            one(bi, res.operand(t['switch']), sp_str(blk['tsp']), True, t['targets'], remake=lambda rr, _t=t: rr.operand(_t['switch']))
        if 'call' in t and (t['call'].get('fn') or '') in ('in_range16', 'in_range32', 'in_inclusive_range8',
                                                           'in_inclusive_range16', 'in_inclusive_range32'):
            r2 = Resolver(body)
            one(bi, r2.call(t, bi, 0), sp_str(blk['tsp']), remake=lambda rr, _t=t, _bi=bi: rr.call(_t, _bi, 0))
        elif 'call' in t:
            fn_ = t['call'].get('fn') or ''
            sh_ = fn_.rsplit('::', 1)[-1]
            if (sh_ == 'contains' and 'Range' in fn_ and 'core::ops' in fn_) or (sh_ == 'is_ascii' and fn_.startswith('core::num::')):
                r2 = Resolver(body)
                one(bi, r2.call(t, bi, 0), sp_str(blk['tsp']), remake=lambda rr, _t=t, _bi=bi: rr.call(_t, _bi, 0))
    return out


def canon(ts, N):
    """Canonical side of a two-way partition of [0, N): the side containing 0."""
    if ts is None:
        return None
    return ts if 0 in ts else ts.complement(0, N - 1)
