"""Build / cache mirx fact files for /repo's *current working tree*.

A fact file is keyed by the SHA-256 over every file cargo can see in /repo
(src/**, Cargo.toml, Cargo.lock, tests/test_data/**, build.rs) plus the mirx
binary itself, so any edit to the tree (or to the extractor) rebuilds.  The
dependency artefacts live in a shared target directory under /verif/.cache; the
analysed crate's own fingerprint is deleted before every build so cargo can
never skip the wrapper, and the run fails closed if the fact file is missing.
"""
import fcntl, hashlib, os, shutil, subprocess, sys, time, glob

VERIF = os.path.dirname(os.path.dirname(os.path.abspath(__file__)))
REPO = os.environ.get('VERIF_REPO', '/repo')
CACHE = os.environ.get('VERIF_CACHE') or os.path.join(VERIF, '.cache')     # VERIF_CACHE: development only (parallel scratch runs)
MIRX = os.path.join(VERIF, 'mirx', 'target', 'release', 'mirx')

CONFIGS = {
    'default': [],
    'noalloc': ['--no-default-features'],
    'simd': ['--features', 'simd-accel'],
    'simdstd': ['--features', 'simd-accel,std'],
    'fast': ['--features', 'fast-legacy-encode'],
    'lessslow': ['--features', 'less-slow-kanji-encode,less-slow-big5-hanzi-encode,less-slow-gb-hanzi-encode'],
    'fast-hangul': ['--features', 'fast-hangul-encode'],
    'fast-hanja': ['--features', 'fast-hanja-encode'],
    'fast-kanji': ['--features', 'fast-kanji-encode'],
    'fast-gb': ['--features', 'fast-gb-hanzi-encode'],
    'fast-big5': ['--features', 'fast-big5-hanzi-encode'],
}


def tree_hash():
    h = hashlib.sha256()
    files = []
    for root in ('src', 'tests/test_data'):
        for dp, dn, fn in os.walk(os.path.join(REPO, root)):
            dn.sort()
            for f in sorted(fn):
                files.append(os.path.join(dp, f))
    for f in ('Cargo.toml', 'Cargo.lock', 'build.rs'):
        p = os.path.join(REPO, f)
        if os.path.exists(p):
            files.append(p)
    files.append(MIRX)
    for p in files:
        h.update(p.encode())
        h.update(b'\0')
        with open(p, 'rb') as fh:
            while True:
                b = fh.read(1 << 20)
                if not b:
                    break
                h.update(b)
        h.update(b'\1')
    return h.hexdigest()[:24]


def ensure_mirx():
    if not os.path.exists(MIRX):
        subprocess.check_call(['cargo', '+nightly', 'build', '--release', '--offline'],
                              cwd=os.path.join(VERIF, 'mirx'))


def sysroot():
    return subprocess.check_output(['rustc', '+nightly', '--print', 'sysroot'], text=True).strip()


def prune(keep):
    if not os.path.isdir(CACHE):
        return
    ds = [d for d in glob.glob(os.path.join(CACHE, 'facts-*')) if os.path.isdir(d)]
    ds.sort(key=lambda d: os.path.getmtime(d), reverse=True)
    for d in ds[2:]:
        if os.path.basename(d) != 'facts-' + keep:
            shutil.rmtree(d, ignore_errors=True)


def ensure_facts(configs, log=sys.stderr):
    """Return {config: path}.  Raises RuntimeError if a configuration does not compile
    (callers report that as a violation of the properties that need it)."""
    ensure_mirx()
    os.makedirs(CACHE, exist_ok=True)
    th = tree_hash()
    d = os.path.join(CACHE, 'facts-' + th)
    out = {}
    lockf = open(os.path.join(CACHE, 'lock'), 'w')
    fcntl.flock(lockf, fcntl.LOCK_EX)
    try:
        os.makedirs(d, exist_ok=True)
        os.utime(d)
        env = dict(os.environ)
        env['LD_LIBRARY_PATH'] = sysroot() + '/lib'
        env['RUSTFLAGS'] = '-Zmir-opt-level=0 -Awarnings'
        env['RUSTC_WORKSPACE_WRAPPER'] = MIRX
        env['CARGO_NET_OFFLINE'] = 'true'
        env['CARGO_TARGET_DIR'] = os.path.join(CACHE, 'target')
        for c in configs:
            p = os.path.join(d, c + '.json')
            errp = os.path.join(d, c + '.err')
            if os.path.exists(p):
                out[c] = p
                continue
            if os.path.exists(errp):
                raise RuntimeError('configuration %s does not compile:\n%s' % (c, open(errp).read()[-3000:]))
            for fp in glob.glob(os.path.join(CACHE, 'target', 'debug', '.fingerprint', 'encoding_rs-*')):
                shutil.rmtree(fp, ignore_errors=True)
            tmp = p + '.tmp'
            if os.path.exists(tmp):
                os.remove(tmp)
            env['MIRX_OUT'] = tmp
            t0 = time.time()
            r = subprocess.run(['cargo', '+nightly', 'check', '--offline', '--lib'] + CONFIGS[c],
                               cwd=REPO, env=env, stdout=subprocess.PIPE, stderr=subprocess.STDOUT, text=True)
            if r.returncode != 0 or not os.path.exists(tmp):
                with open(errp, 'w') as f:
                    f.write(r.stdout)
                raise RuntimeError('configuration %s does not compile (or mirx wrote no facts):\n%s' % (c, r.stdout[-3000:]))
            os.rename(tmp, p)
            log.write('[facts] %s built in %.1fs (%d bytes)\n' % (c, time.time() - t0, os.path.getsize(p)))
            out[c] = p
        prune(th)
    finally:
        fcntl.flock(lockf, fcntl.LOCK_UN)
        lockf.close()
    return out, th


if __name__ == '__main__':
    cfgs = sys.argv[1:] or ['default']
    print(ensure_facts(cfgs))
