"""R-ENDIAN — every UTF-16 code unit read from the unaligned byte source goes through the endianness adapter before it is used.

The UTF-16LE/BE decoders read code units with UnalignedU16Slice::at / simd_at (native byte order) and are generic over the
Endian parameter.  On every acyclic region path of a body that makes such a read, each occurrence of a raw read inside a value
that is used (a branch condition, an argument of any other call, a stored value, the result) must be
  - the direct argument of swap_if_opposite_endian::<E>, or
  - the direct argument of simd_byte_swap on a path that took the `E::OPPOSITE_ENDIAN == true` branch, or
  - unwrapped on a path that took the `E::OPPOSITE_ENDIAN == false` branch.
A unit (or one of two SIMD halves) that skips the swap is correct for one of UTF-16LE/UTF-16BE only.
"""
from mirlib import *
from paths import *

READS = ('handles::UnalignedU16Slice::at', 'handles::UnalignedU16Slice::simd_at')
SWAP_ALWAYS = ('handles::swap_if_opposite_endian',)
SWAP_COND = ('simd_funcs::simd_byte_swap', 'core::num::<impl u16>::swap_bytes')


def is_read(e):
    return isinstance(e, tuple) and e and e[0] == 'call' and e[1] in READS


def raw_uses(e, parent=None, out=None):
    """list of (read expr, parent callee or None) for every read occurrence inside e"""
    if out is None:
        out = []
    if not isinstance(e, tuple) or not e:
        return out
    if is_read(e):
        out.append((e, parent))
        return out          # the index arguments of the read are positions, not units
    p2 = e[1] if e[0] == 'call' else (parent if e[0] in ('ref', 'deref', 'cast') else None)
    if e[0] == 'call':
        for a in e[2]:
            raw_uses(a, e[1], out)
    else:
        for x in e[1:]:
            if isinstance(x, tuple):
                raw_uses(x, p2, out)
    return out


def run(rep, f, c, rule='R-ENDIAN'):
    n = nb = 0
    for name, b in sorted(f.bodies.items()):
        if not name.startswith('handles::'):
            continue
        if not any((b.callee(t) or '') in READS for _, t in b.calls()):
            continue
        if name in READS:
            continue
        nb += 1
        heads = set(loop_heads(b))
        seen = {}
        try:
            regions = [(h, region_paths(b, h, stop=heads)) for h in [0] + sorted(heads)]
        except OverflowError:
            rep.undecidable(rule, name, 'path bound exceeded', None, c)
            continue
        for h, paths in regions:
            for p in paths:
                opp = None
                for e in p.events:
                    if e[0] == 'cond' and isinstance(e[1], tuple) and e[1] and e[1][0] == 'cother' and 'OPPOSITE_ENDIAN' in str(e[1][1]) and isinstance(e[2], bool):
                        opp = e[2]
                uses = []
                for e in p.events:
                    if e[0] == 'cond':
                        uses += [(u, e[3]) for u in raw_uses(e[1])]
                    elif e[0] == 'store':
                        uses += [(u, e[3]) for u in raw_uses(e[2])]
                    elif e[0] == 'call' and e[1] not in READS:
                        for a in e[2]:
                            uses += [(u, e[3]) for u in raw_uses(a, e[1])]
                rv = p.env.get(0)
                if rv is not None and p.end[0] == 'return':
                    uses += [(u, p.blocks[-1]) for u in raw_uses(rv)]
                for (rd, parent), bb in uses:
                    if parent in SWAP_ALWAYS:
                        ok = True
                    elif parent in SWAP_COND:
                        ok = opp is True
                    else:
                        ok = opp is False
                    key = '%s:%s@bb%d' % (name, rd[1].rsplit('::', 1)[-1], rd[3])
                    if key in seen and (seen[key] is False or ok):
                        continue
                    seen[key] = ok
                    if not ok:
                        rep.ob(rule, re_key(key), False,
                               'a code unit read with %s is used %s on a path where E::OPPOSITE_ENDIAN is %s: it is byte-swapped for one of UTF-16LE / UTF-16BE only' %
                               (rd[1].rsplit('::', 1)[-1], 'through ' + parent.rsplit('::', 1)[-1] if parent in SWAP_COND else 'without the endianness adapter',
                                {True: 'true', False: 'false', None: 'not tested'}[opp]), sp_str(b.blocks[bb]['tsp']), None, c)
        for key, ok in sorted(seen.items()):
            n += 1
            if ok:
                rep.ob(rule, re_key(key), True, '', None, None, c)
    rep.count('endian.reads:%s' % c, n)
    rep.floor(rule, 'unaligned code-unit read sites checked', n, 6, c)
    return n


def re_key(k):
    import re
    return re.sub(r'@bb\d+', '', k)
