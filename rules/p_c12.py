"""C12 — encoder output is always valid target-encoding text (structural clauses: ISO-2022-JP state discipline)."""
import r_state, r_handle, r_account, r_singlebyte

MANIFEST = {
    'category': 'other',
    'text': 'Decided for all texts and call histories from MIR path summaries of both ISO-2022-JP encoder bodies (every path of one loop '
            'iteration and of the end-of-stream block): (D1) a change of the encoder state and its escape sequence always travel together '
            '— exactly one ESC ( B / ESC ( J / ESC $ B for Ascii / Roman / Jis0208, never one without the other; the character that '
            'triggered a transition is pushed back and re-encoded in the new state; every Unmappable reported from the two-byte state is '
            'preceded by the return to ASCII so that the caller\'s numeric character reference is legal; only single-byte output in the '
            'Ascii/Roman arms and only two-byte output in the Jis0208 arm; (D3) at end of stream the encoder returns to ASCII iff it is not '
            'there, reports OutputFull without changing state when the escape does not fit, has_pending_state() is exactly state != Ascii, '
            'and only ISO-2022-JP can have pending state; (D2) whole characters only: every byte goes through a linear handle obtained from '
            'a space test covering the whole character (R-HANDLE), and no fetched character is dropped (R-ACCOUNT). That the bytes decode back '
            'to the input (table contents, pointer arithmetic) is not decided. ' 
            '(R-SINGLEBYTE) a byte the single-byte encoder emits without a table look-up decodes back to the character it was emitted for: the run parameters of all 28 single-byte encodings mirror the decode tables entry by entry.',
    'note': 'Trusted: rustc MIR, mirx, rule library, the escape table of Encoding Standard §12.2.2 transcribed in rules/r_state.py.',
    'technique': 'typestate/pairing rules over bounded MIR path summaries + handle typestate + dataflow',
}
CONFIGS = {'quick': ['default'], 'thorough': ['default', 'noalloc', 'simd', 'fast', 'lessslow']}


def run(rep, facts, tier):
    for c, f in facts.items():
        r_state.pairing(rep, f, c, 'R-STATE')
        r_state.char_classes(rep, f, c, 'C12-classes')     # incl. pre-check/body agreement: no ESC $ B for a character that is then unmappable
        r_handle.run(rep, f, c)
        nb, ng = r_account.run(rep, f, c, 'R-ACCOUNT', lambda n: 'Encoder::' in n)
        rep.floor('R-ACCOUNT', 'encoder bodies with unit fetches', nb, 14, c)
        r_singlebyte.run(rep, f, c)
    return ('other', MANIFEST['text'], [])
