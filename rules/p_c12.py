"""C12 — encoder output is always valid target-encoding text (structural clauses: ISO-2022-JP state discipline)."""
import r_state, r_handle, r_account, r_singlebyte

MANIFEST = {
    'category': 'other',
    'text': 'Decided for all texts and call histories from MIR path summaries of both ISO-2022-JP encoder bodies (every path of one loop '
            'iteration and of the end-of-stream block): (D1) a change of the encoder state and its escape sequence always travel together '
            '— exactly one ESC ( B / ESC ( J / ESC $ B for Ascii / Roman / Jis0208, never one without the other; the character that '
            'triggered a transition is pushed back and re-encoded in the new state; every Unmappable reported from the two-byte state is '
            'preceded by the return to ASCII so that the caller\'s numeric character reference is legal; only single-byte output in the '
            'Ascii/Roman arms and only two-byte output in the Jis0208 arm; (D3) at end of stream the encoder returns to ASCII iff it is not '
            'there, reports OutputFull without changing state when the escape does not fit, has_pending_state() is exactly state != Ascii, '
            'and only ISO-2022-JP can have pending state; (D2) whole characters only: every byte goes through a linear handle obtained from '
            'a space test covering the whole character (R-HANDLE), and no fetched character is dropped (R-ACCOUNT). That the bytes decode back '
            'to the input (table contents, pointer arithmetic) is not decided. ' 
            '(R-SINGLEBYTE) a byte the single-byte encoder emits without a table look-up decodes back to the character it was emitted for: the run parameters of all 28 single-byte encodings mirror the decode tables entry by entry. Also run here (shared rules): R-UTF8ENC (UTF-8 output cut on a character boundary), R-SURR on the encoder side incl. utf_8::convert_utf16_to_utf8*, and C09-D2 write_ncr (an NCR is the decimal scalar value with every digit stored). C03-D5 (which characters each encoder routes to which table or formula, exact sets) is run here too: a mis-routed character does not decode back. R-INPUTEMPTY on the encoder side is run here too: InputEmpty is reported only where the source is exhausted, otherwise the unreported rest never reaches the output.',
    'note': 'Trusted: rustc MIR, mirx, rule library, the escape table of Encoding Standard §12.2.2 transcribed in rules/r_state.py.',
    'technique': 'typestate/pairing rules over bounded MIR path summaries + handle typestate + dataflow',
}
CONFIGS = {'quick': ['default'], 'thorough': ['default', 'noalloc', 'simd', 'fast', 'lessslow']}


def run(rep, facts, tier):
    for c, f in facts.items():
        r_state.pairing(rep, f, c, 'R-STATE')
        r_state.char_classes(rep, f, c, 'C12-classes')     # incl. pre-check/body agreement: no ESC $ B for a character that is then unmappable
        r_handle.run(rep, f, c)
        nb, ng = r_account.run(rep, f, c, 'R-ACCOUNT', lambda n: 'Encoder::' in n)
        rep.floor('R-ACCOUNT', 'encoder bodies with unit fetches', nb, 14, c)
        r_singlebyte.run(rep, f, c)
        import r_utf8enc, r_surr, p_c09
        r_utf8enc.run(rep, f, c)          # UTF-8 output is cut on a character boundary
        n = r_surr.run(rep, f, c, 'R-SURR', lambda nm: 'Encoder::' in nm or nm.startswith(('handles::Utf16Source', 'handles::Utf8Source', 'utf_8::convert_utf16_to_utf8')))
        rep.floor('R-SURR', 'surrogate tests on the encoder side', n, 10, c)
        p_c09.write_ncr(rep, f, c)        # the NCR an unmappable becomes is the decimal scalar value, every digit stored
        import r_inputempty
        n = r_inputempty.run(rep, f, c, 'R-INPUTEMPTY', lambda nm: 'Encoder::' in nm or nm.startswith(('handles::Utf16Source', 'handles::Utf8Source')))     # InputEmpty with input left over: the rest never reaches the output
        import r_encclass
        r_encclass.run(rep, f, c, 'C03-D5')     # which characters each encoder routes to which table/formula: a mis-routed character does not decode back
    return ('other', MANIFEST['text'], [])
