import os
"""R-STRSAFE — `unsafe` text-validity sites (DESIGN.md §5): &mut str scrubbing, set_len discipline,
from_utf8_unchecked behind the right validator."""
from mirlib import *
from paths import *
from shape import *
import r_effect

VEC_OK = ('alloc::vec::Vec::<T, A>::len', 'alloc::vec::Vec::<T, A>::capacity', 'alloc::vec::Vec::<T, A>::spare_capacity_mut',
          'alloc::string::String::as_mut_vec', 'alloc::vec::Vec::<T, A>::set_len', 'alloc::string::String::len',
          'alloc::string::String::capacity')


def static_of(e):
    e = strip_ref(e)
    if e[0] == 'cptr':
        import json
        return json.loads(e[1]).get('static')
    return None


# ------------------------------------------------------------------ (a) &mut str scrubbing
def scrub(rep, f, c, rule):
    eff = r_effect.callers_closure(f, set(r_effect.seeds(f)))
    rep.analysed['effectful_bodies:' + c] = len(eff)
    stride = f.consts.get('ascii::MAX_STRIDE_SIZE', {}).get('int')
    n = 0
    for name, b in sorted(f.bodies.items()):
        abm = [(bi, t) for bi, t in b.calls() if b.callee(t) == 'core::str::<impl str>::as_bytes_mut']
        if not abm:
            continue
        n += 1
        site = sp_str(b.raw['span'])
        r = Resolver(b)
        if len(abm) != 1:
            rep.undecidable(rule, name, 'more than one as_bytes_mut', site, c)
            continue
        bytes_e = r.local(abm[0][1]['dest']['l'])
        # converter call(s) receiving the bytes
        conv = []
        for bi, t in b.calls():
            for a in t['args']:
                if strip_ref(r.operand(a)) == strip_ref(bytes_e) and b.callee(t) != 'core::str::<impl str>::as_bytes_mut' and b.callee(t) not in LEN_FNS:
                    conv.append((bi, t))
        conv = [(bi, t) for bi, t in conv if f.body(b.callee(t) or '') is not None]
        if len(conv) != 1:
            rep.undecidable(rule, name, 'expected exactly one converter call on the str bytes, found %d' % len(conv), site, c)
            continue
        cbi, ct = conv[0]
        cfn = b.callee(ct)
        needs_stride = cfn in eff
        pdom = post_dominators(b)
        # loops after the converter
        heads = loop_heads(b)
        stride_loop = cont_loop = None
        stride_guard = None
        for H in heads:
            if H not in pdom.get(cbi, ()):
                # a guarded loop (e.g. `if self.encoding != UTF_8 { .. }`) is still examined below
                pass
            # loop condition(s) and the store inside the loop
            body_blocks = set()
            for (x, h) in b.back_edges():
                if h == H:
                    body_blocks |= positions_between(b, H, x)
            # the loop may be driven by an index (`while i < hi { bytes[i] = 0; i += 1 }`) or by an iterator over a part of the
            # bytes (`for byte in &mut bytes[lo..hi]`, `bytes.iter_mut().skip(lo)`): find what it walks and what it stores
            BY = strip_ref(bytes_e)

            def under_bytes(e):
                e = strip_ref(e)
                while e[0] in ('deref', 'ref'):
                    e = strip_ref(e[1])
                return e == BY or strip_ref(e) == BY

            def iter_part(e, depth=0):
                """iterator expression -> ('range', lo, hi) / ('from', lo) over the str bytes, or None"""
                e = strip_ref(e)
                while e[0] in ('deref', 'ref'):
                    e = strip_ref(e[1])
                if e[0] != 'call' or depth > 8:
                    return None
                sfn = (e[1] or '').rsplit('::', 1)[-1]
                if sfn in ('into_iter', 'iter_mut', 'by_ref') and e[2]:
                    inner = strip_ref(e[2][0])
                    while inner[0] in ('deref', 'ref'):
                        inner = strip_ref(inner[1])
                    if under_bytes(inner):
                        return ('from', ('c', 0, 'usize'))
                    return iter_part(inner, depth + 1)
                if sfn == 'skip' and len(e[2]) == 2:
                    sub = iter_part(e[2][0], depth + 1)
                    if sub == ('from', ('c', 0, 'usize')):
                        return ('from', e[2][1])
                    return None
                if sfn == 'index_mut' and len(e[2]) == 2 and under_bytes(e[2][0]):
                    rng = e[2][1]
                    if rng[0] == 'agg' and rng[1].endswith('RangeFrom::RangeFrom'):
                        return ('from', rng[2][0])
                    if rng[0] == 'agg' and rng[1].endswith('Range::Range'):
                        return ('range', rng[2][0], rng[2][1])
                return None
            zero_store = False
            walked = None
            for x in body_blocks:
                for st in b.blocks[x]['s']:
                    if 'assign' in st and st['assign']['p'] and st['assign']['p'][0] == 'deref' and is_c(Resolver(b).rvalue(st['rv']), 0):
                        root = strip_ref(Resolver(b).local(st['assign']['l']))
                        if root == strip_ref(bytes_e):
                            zero_store = True
                        elif root[0] == 'fld' and root[1][0] == 'as' and root[1][2] == 'Some' and root[1][1][0] == 'call' and \
                                (root[1][1][1] or '').endswith('::next') and root[1][1][3] in body_blocks | {H}:
                            part = iter_part(root[1][1][2][0])
                            if part is not None:
                                zero_store = True
                                walked = part
            if not zero_store:
                continue
            conds = []
            for x in sorted(body_blocks | {H}):
                t = b.blocks[x]['t']
                if 'switch' in t and t.get('sty') == 'bool':
                    conds.append(Resolver(b).operand(t['switch']))
            has_mask = any(e[0] == 'bin' and e[1] in ('Eq', 'Ne') and e[2][0] == 'bin' and e[2][1] == 'BitAnd' and is_c(e[2][3], 0xC0) and is_c(e[3], 0x80) for e in conds)
            lt_len = any(e[0] == 'bin' and e[1] == 'Lt' and e[3] == ('len', strip_ref(bytes_e)) and e[2][0] != 'bin' for e in conds) or (walked is not None and walked[0] == 'from')

            def min_bound(e):
                """e == min(len(bytes), x + K) — as a call of cmp::min or written as a branch -> K"""
                pair = None
                if e[0] == 'call' and e[1] in ('core::cmp::min', 'core::cmp::Ord::min'):
                    pair = e[2]
                elif e[0] == 'loc':
                    pair = min_select(b, e[1])
                if pair is None:
                    return None
                lens = [x for x in pair if x == ('len', strip_ref(bytes_e))]
                adds = [x for x in pair if x[0] == 'bin' and x[1] == 'Add' and is_c(x[3])]
                return adds[0][3][1] if lens and adds else None
            lt_min = None
            for e in conds:
                if e[0] == 'bin' and e[1] == 'Lt' and min_bound(e[3]) is not None:
                    lt_min = min_bound(e[3])
            if walked is not None and walked[0] == 'range' and not has_mask and min_bound(walked[2]) is not None:
                lt_min = min_bound(walked[2])
            if os.environ.get('STRSAFE_DEBUG') and has_mask:
                import sys
                sys.stderr.write('STRSAFE %s H=%s lt_len=%s walked=%r conds=%r\n' % (name, H, lt_len, walked, conds))
            if has_mask and lt_len:
                cont_loop = H
            elif lt_min is not None:
                stride_loop = (H, lt_min)
                # is the loop guarded?
                guards = []
                for S, label in controlling_edges(b, H):
                    tt = b.blocks[S]['t']
                    if S in b.reach_from([cbi]) and tt.get('sty') == 'bool':
                        guards.append((Resolver(b).operand(tt['switch']), bool_truth(b, S, label)))
                # entering the loop only when its range is not empty skips nothing
                if walked is not None and walked[0] == 'range':
                    guards = [(g, tr) for g, tr in guards if not (tr is True and g == ('bin', 'Lt', walked[1], walked[2]))]
                stride_guard = guards
        ok_cont = cont_loop is not None and cont_loop in pdom.get(cbi, ())
        rep.ob(rule + '.continuation', name, ok_cont,
               'after the conversion the bytes following `written` that are UTF-8 continuation bytes are not zeroed on every path '
               '(a partially overwritten old character would leave the str invalid)', site, {'converter': cfn}, c)
        if needs_stride:
            ok = stride_loop is not None and stride is not None and stride_loop[1] >= stride
            why = 'the converter %s can store up to MAX_STRIDE_SIZE units beyond `written` in this configuration (R-EFFECT), but no loop zeroes ' \
                  'bytes[written .. min(len, written + MAX_STRIDE_SIZE)] afterwards: a safe function can leave an invalid str' % cfn
            if ok and stride_guard:
                # accepted guard: `self.encoding != UTF_8`, and only if the UTF-8 decoder's own bodies lack the effect
                for g, truth in stride_guard:
                    is_ne_utf8 = g[0] == 'call' and (g[1] or '').endswith('::ne') and static_of(g[2][1]) == 'UTF_8' and truth is True
                    if not is_ne_utf8:
                        ok = False
                        why = 'the MAX_STRIDE_SIZE scrub is skipped under a condition other than `encoding != UTF_8`'
                    elif any(x in eff for x in ('utf_8::Utf8Decoder::decode_to_utf8_raw',)):
                        ok = False
                        why = 'the MAX_STRIDE_SIZE scrub is skipped for UTF-8 although the UTF-8 decoder can store beyond `written` in this configuration'
            elif ok and stride_loop[0] not in pdom.get(cbi, ()):
                ok = False
                why = 'the MAX_STRIDE_SIZE scrub is not executed on every path'
            rep.ob(rule + '.stride', name, ok, why, site, {'converter': cfn, 'converter_has_effect': True, 'MAX_STRIDE_SIZE': stride}, c)
        else:
            rep.ob(rule + '.stride', name, True, '', site, {'converter': cfn, 'converter_has_effect': False}, c)
    rep.floor(rule, 'as_bytes_mut callers', n, 4, c)


# ------------------------------------------------------------------ (b) set_len
def set_len(rep, f, c, rule):
    n = 0
    for name, b in sorted(f.bodies.items()):
        sl = [(bi, t) for bi, t in b.calls() if b.callee(t) == 'alloc::vec::Vec::<T, A>::set_len']
        if not sl:
            continue
        site = sp_str(b.raw['span'])
        for sbi, st in sl:
            n += 1
            r = Resolver(b)
            vec = strip_ref(r.operand(st['args'][0]))
            nexpr = r.operand(st['args'][1])
            ok = True
            why = []
            # n = old_len + written
            if not (nexpr[0] == 'bin' and nexpr[1] == 'Add'):
                ok = False
                why.append('new length is not old_len + written')
                written = None
            else:
                a, w = nexpr[2], nexpr[3]
                if not (a[0] == 'len' and strip_ref(a[1]) == vec) and (w[0] == 'len' and strip_ref(w[1]) == vec):
                    a, w = w, a
                if not (a[0] == 'len' and strip_ref(a[1]) == vec):
                    ok = False
                    why.append('old length is not vec.len()')
                written = w
            conv = None
            if written is not None:
                # written derives from a converter call that received minimally_init(vec.spare_capacity_mut())
                call = None
                for s_ in walk(written):
                    if s_[0] == 'call' and f.body(s_[1] or '') is not None:
                        call = s_
                        break
                if call is None:
                    ok = False
                    why.append('written does not come from a converter call')
                else:
                    conv = call
                    spare = False
                    for a_ in call[2]:
                        x = strip_ref(a_)
                        if x[0] == 'call' and (x[1] or '').endswith('minimally_init'):
                            y = strip_ref(x[2][0])
                            if y[0] == 'call' and y[1] == 'alloc::vec::Vec::<T, A>::spare_capacity_mut' and strip_ref(y[2][0]) == vec:
                                spare = True
                    if not spare:
                        ok = False
                        why.append('the converter did not write into minimally_init(vec.spare_capacity_mut())')
                    # written must be the converter's `written` component: last usize of the tuple, or the plain result
                    rb = f.body(call[1])
                    ret = rb.raw['ret']
                    if written != call:
                        if not (written[0] == 'fld' and written[1] == call):
                            ok = False
                            why.append('written is not a component of the converter result')
                        else:
                            comps = [x.strip() for x in ret.strip('()').split(',')]
                            idx = int(written[2])
                            # (Result, read, written[, bool]) -> index 2 ; (read, written) -> index 1
                            want = 2 if len(comps) >= 3 else 1
                            if idx != want:
                                ok = False
                                why.append('set_len uses component %d of %s (the written count is component %d)' % (idx, ret, want))
            # dominated by assert!(n <= capacity)
            conds = block_conditions(b, sbi, r)
            okc = any(k == 'bool' and v is True and e[0] == 'bin' and e[1] == 'Le' and e[2] == nexpr and
                      e[3][0] == 'call' and e[3][1] == 'alloc::vec::Vec::<T, A>::capacity' and strip_ref(e[3][2][0]) == vec for k, e, v, S in conds) or \
                any(k == 'bool' and v is False and e[0] == 'bin' and e[1] == 'Gt' and e[2] == nexpr and
                    e[3][0] == 'call' and e[3][1] == 'alloc::vec::Vec::<T, A>::capacity' for k, e, v, S in conds)
            if not okc:
                ok = False
                why.append('set_len is not dominated by assert!(new_len <= vec.capacity())')
            # nothing that can reallocate between the spare-capacity borrow and set_len; nothing at all on the vec afterwards
            if conv is not None:
                conv_bb = conv[3]
                between = positions_between(b, conv_bb, sbi)
                for x in between:
                    t = b.blocks[x]['t']
                    if 'call' in t and x not in (conv_bb, sbi):
                        fn = b.callee(t) or ''
                        touches = any(strip_ref(Resolver(b).operand(a)) == vec for a in t['args'])
                        if touches and fn not in VEC_OK:
                            ok = False
                            why.append('%s is called on the vector between the conversion and set_len' % fn)
            after = b.reach_from(b.succ[sbi])
            for x in after:
                t = b.blocks[x]['t']
                if 'call' in t and not b.blocks[x].get('cleanup'):
                    fn = b.callee(t) or ''
                    if f.body(fn) is not None and fn != 'minimally_init':
                        ok = False
                        why.append('crate code (%s) runs after set_len: a panic there would expose the new length early' % fn)
            rep.ob(rule, name, ok, '; '.join(why), sp_str(b.blocks[sbi]['tsp']) or site,
                   {'new_len': expr_str(nexpr, b)[:100], 'converter': conv[1] if conv else None}, c)
    rep.floor(rule, 'set_len sites', n, 6 if c != 'noalloc' else 0, c)


# ------------------------------------------------------------------ (c) from_utf8_unchecked
VALIDATORS = {'utf_8::utf8_valid_up_to': 'utf8', 'ascii::ascii_valid_up_to': 'ascii', 'ascii::iso_2022_jp_ascii_valid_up_to': 'iso2022jp'}


def unchecked_str(rep, f, c, rule, check_class=False, only=None):
    """str::from_utf8_unchecked(x): dominated by validator(x) == len(x) (or >=).  With check_class (C11) the validator must
    also be the one of the encoding's class and the site must be limited to potentially borrowable encodings."""
    n = 0
    for name, b in sorted(f.bodies.items()):
        if only is not None and not only(name):
            continue
        sites = [(bi, t) for bi, t in b.calls() if b.callee(t) == 'core::str::from_utf8_unchecked']
        for k_, (sbi, st) in enumerate(sites):
            n += 1
            r = Resolver(b)
            x = strip_ref(r.operand(st['args'][0]))
            conds = block_conditions(b, sbi, r, through_joins=True)
            vals = None
            for k, e, v, S in conds:
                if k == 'bool' and v is True and e[0] == 'bin' and e[1] in ('Eq', 'Ge') and e[3] == ('len', x):
                    ve = e[2]
                    if ve[0] == 'call' and ve[1] in VALIDATORS and strip_ref(ve[2][0]) == x:
                        vals = {(ve[3], VALIDATORS[ve[1]])}
                    elif ve[0] == 'loc':
                        vals = set()
                        for bi2, si2, k2, node in b.defs.get(ve[1], []):
                            if k2 == 'call' and b.callee(node) in VALIDATORS and strip_ref(Resolver(b).operand(node['args'][0])) == x:
                                vals.add((bi2, VALIDATORS[b.callee(node)]))
                            else:
                                vals.add((bi2, None))
            key = '%s:from_utf8_unchecked#%d' % (name, k_)
            at = sp_str(b.blocks[sbi]['tsp'])
            if not vals or any(v is None for _, v in vals):
                rep.ob(rule, key, False, 'from_utf8_unchecked(x) is not dominated by `validator(x) == x.len()` with a UTF-8-implying validator', at, None, c)
                continue
            if not check_class:
                rep.ob(rule, key, True, '', at, {'validators': sorted(v for _, v in vals)}, c)
                continue
            good = True
            why = ''
            for bi2, v in vals:
                cc = block_conditions(b, bi2, Resolver(b))
                encs = [(static_of(e[2][1]), t) for k, e, t, S in cc if k == 'bool' and e[0] == 'call' and (e[1] or '').endswith('::eq') and strip_ref(e[2][0]) == ('loc', 1)]
                pb = any(k == 'bool' and e[0] == 'call' and e[1] == 'Encoding::is_potentially_borrowable' and t is True for k, e, t, S in cc)
                if v == 'utf8':
                    ok1 = ('UTF_8', True) in encs
                elif v == 'iso2022jp':
                    ok1 = ('ISO_2022_JP', True) in encs and pb
                else:
                    ok1 = ('UTF_8', False) in encs and ('ISO_2022_JP', False) in encs and pb
                if not ok1:
                    good = False
                    why = 'validator %s is applied under encoding conditions %r%s' % (v, encs, '' if pb or v == 'utf8' else ' without is_potentially_borrowable()')
            rep.ob(rule, key, good,
                   'a borrow is returned under the wrong validator for the encoding class (UTF-8 -> utf8_valid_up_to, ISO-2022-JP -> '
                   'iso_2022_jp_ascii_valid_up_to, other potentially borrowable -> ascii_valid_up_to, never otherwise): ' + why,
                   at, {'validators': sorted(v for _, v in vals)}, c)
    rep.floor(rule, 'str::from_utf8_unchecked sites', n, (3 if only else 4) if c != 'noalloc' else 0, c)
