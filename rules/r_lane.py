"""R-LANE — the SIMD vector predicates of simd_funcs.rs decided lane-wise (simd-accel builds).

A portable-SIMD comparison mask is a function of one lane's value: simd_lt/gt/le/ge/eq/ne against splat constants, lane-wise
wrapping sub and `&` with splat constants, and `|`, `&`, `!` on masks.  For every mask expression the set of lane values
that set the mask is computed exactly (interval sets; the scalar comparison goes through the R-RANGE evaluator), and every
reduction over a mask (`all`, `any`, `first_set`, `movemask(..) == 0`, `reduce_max() < c`) becomes a quantified fact:

    all(S) true / any(S) false / first_set(S) None  ->  every lane is in S resp. outside S
    all(S) false / any(S) true / first_set(S) Some  ->  some lane is outside S resp. in S

Each predicate function is then decided per return path against its definition: a boolean predicate with target T
("true iff every lane is in T" / "true iff some lane is in T") and a validator with flagged set F ("None iff no lane is in
F, otherwise the first flagged position").  No lane arithmetic is executed; the vendor intrinsics (movemask = one bit per
byte's MSB, packus, deinterleave) and core::simd semantics are trusted.
"""
from mirlib import *
from paths import *
from shape import variant_name
from ranges import ISet, _mk
import r_kernel

RTL_UNIT = ISet.of((0x0590, 0x08FF), 0x200F, 0x202B, 0x202E, 0x2067, (0xFB1D, 0xFDFF), (0xFE70, 0xFEFE),
                   (0xD802, 0xD803), (0xD83A, 0xD83B))
SURR = ISet.of((0xD800, 0xDFFF))
# function -> (quantifier, lane bits, target set)
PRED = {
    'simd_funcs::simd_is_ascii': ('all', 8, ISet.of((0, 0x7F))),
    'simd_funcs::simd_is_str_latin1': ('all', 8, ISet.of((0, 0xC3))),
    'simd_funcs::simd_is_basic_latin': ('all', 16, ISet.of((0, 0x7F))),
    'simd_funcs::simd_is_latin1': ('all', 16, ISet.of((0, 0xFF))),
    'simd_funcs::is_u16x8_bidi': ('any', 16, RTL_UNIT),
    'simd_funcs::contains_surrogates': ('any', 16, SURR),
}
# function -> (lane bits, flagged set)
VALIDATE = {
    'simd_funcs::validate_ascii_simd': (8, ISet.of((0x80, 0xFF))),
    'simd_funcs::validate_basic_latin_simd': (16, ISet.of((0x80, 0xFFFF))),
    'simd_funcs::validate_bmp_simd': (16, SURR),
    'simd_funcs::validate_latin1_str_simd': (8, ISet.of((0xC4, 0xFF))),
}
CMP = {'simd_lt': 'Lt', 'simd_gt': 'Gt', 'simd_le': 'Le', 'simd_ge': 'Ge', 'simd_eq': 'Eq', 'simd_ne': 'Ne'}


def short(fn):
    return (fn or '').rsplit('::', 1)[-1]


class Lane:
    def __init__(self, f, b, bits):
        self.f, self.b, self.bits = f, b, bits
        self.res = Resolver(b)
        self.full = ISet.of((0, (1 << bits) - 1))
        self.ty = 'u8' if bits == 8 else 'u16'

    def is_vec(self, e):
        return e[0] == 'loc' and 'Simd<' in self.b.locals[e[1]]['ty']

    def value(self, e):
        """vector expression -> scalar expression over the lane leaf ('loc', n), or None"""
        if self.is_vec(e):
            return e
        if e[0] == 'call':
            s = short(e[1])
            fn = e[1] or ''
            if s == 'splat' and len(e[2]) == 1:
                c = r_kernel.fold(e[2][0])
                return ('c', c[1] & ((1 << self.bits) - 1), self.ty) if c[0] == 'c' else None
            if 'ops::Sub for' in fn and 'Simd' in fn and len(e[2]) == 2:
                a, c = self.value(e[2][0]), self.value(e[2][1])
                return ('call', 'core::num::<impl %s>::wrapping_sub' % self.ty, (a, c), 0) if a and c else None
            if 'ops::Add for' in fn and 'Simd' in fn and len(e[2]) == 2:
                a, c = self.value(e[2][0]), self.value(e[2][1])
                return ('call', 'core::num::<impl %s>::wrapping_add' % self.ty, (a, c), 0) if a and c else None
            if 'ops::BitAnd for' in fn and 'Simd' in fn and len(e[2]) == 2:
                a, c = self.value(e[2][0]), self.value(e[2][1])
                return ('bin', 'BitAnd', a, c) if a and c else None
        return None

    def leaf_of(self, e):
        ls = {x for x in walk(e) if isinstance(x, tuple) and x and x[0] == 'loc'}
        return ls.pop() if len(ls) == 1 else None

    def mask(self, e):
        """mask expression -> (vector leaf, ISet of lane values that set the mask) or None"""
        if e[0] != 'call':
            return None
        s = short(e[1])
        fn = e[1] or ''
        if s in CMP and len(e[2]) == 2:
            a, c = self.value(e[2][0]), self.value(e[2][1])
            if a is None or c is None:
                return None
            cond = ('bin', CMP[s], a, c)
            leaf = self.leaf_of(cond)
            if leaf is None:
                return None
            ra = _mk(self.f, self.b, self.res, leaf, self.bits, 1 << self.bits)
            ts, fs, us = ra.ev(cond).truth_set()
            if us:
                return None
            return leaf, ts
        if 'Mask<' in fn and s in ('bitor', 'bitand') and len(e[2]) == 2:
            a, c = self.mask(e[2][0]), self.mask(e[2][1])
            if a is None or c is None or a[0] != c[0]:
                return None
            return a[0], (a[1] | c[1]) if s == 'bitor' else (a[1] & c[1])
        if 'Mask<' in fn and s == 'not' and len(e[2]) == 1:
            a = self.mask(e[2][0])
            return (a[0], self.full - a[1]) if a else None
        if s == 'mask_to_vendor' and len(e[2]) == 1:
            return self.mask(e[2][0])
        return None

    def fact(self, e, truth):
        """boolean expression over reductions -> list of (leaf, 'forall'|'exists', set) or None if not a reduction"""
        if e[0] == 'un' and e[1] == 'Not':
            return self.fact(e[2], not truth)
        if e[0] == 'call':
            s = short(e[1])
            fn = e[1] or ''
            if s.startswith('all_mask') or (s == 'all' and 'Mask' in fn):
                m = self.mask(e[2][0])
                if m is None:
                    return None
                return [(m[0], 'forall', m[1])] if truth else [(m[0], 'exists', self.full - m[1])]
            if s.startswith('any_mask') or (s == 'any' and 'Mask' in fn):
                m = self.mask(e[2][0])
                if m is None:
                    return None
                return [(m[0], 'exists', m[1])] if truth else [(m[0], 'forall', self.full - m[1])]
            if fn in PRED and len(e[2]) == 1 and self.is_vec(e[2][0]):
                q, bits, T = PRED[fn]
                if q == 'all':
                    return [(e[2][0], 'forall', T)] if truth else [(e[2][0], 'exists', self.full - T)]
                return [(e[2][0], 'exists', T)] if truth else [(e[2][0], 'forall', self.full - T)]
        if e[0] == 'bin' and e[1] in ('Lt', 'Le', 'Gt', 'Ge') and e[2][0] == 'call' and short(e[2][1]) == 'reduce_max' and e[3][0] == 'c' and self.is_vec(e[2][2][0]):
            c = e[3][1]
            below = {'Lt': ISet.of((0, c - 1)) if c > 0 else ISet(), 'Le': ISet.of((0, c))}.get(e[1])
            if below is not None:
                return [(e[2][2][0], 'forall', below)] if truth else [(e[2][2][0], 'exists', self.full - below)]
        if e[0] == 'bin' and e[1] in ('Eq', 'Ne') and e[3] == ('c', 0, 'u32'):
            # movemask(..) == 0, possibly several masks combined with shifts and |
            parts = self.movemasks(e[2])
            if parts is None:
                return None
            none_set = (e[1] == 'Eq') == truth
            out = []
            for leaf, S in parts:
                if none_set:
                    out.append((leaf, 'forall', self.full - S))
                else:
                    out.append((leaf, 'exists-any', S))
            return out
        return None

    def movemasks(self, e):
        if e[0] == 'bin' and e[1] == 'BitOr':
            a, c = self.movemasks(e[2]), self.movemasks(e[3])
            return None if a is None or c is None else a + c
        if e[0] == 'bin' and e[1] == 'Shl' and e[3][0] == 'c':
            return self.movemasks(e[2])
        if e[0] == 'call' and e[1] == 'simd_funcs::movemask' and len(e[2]) == 1:
            x = e[2][0]
            if x[0] == 'call' and short(x[1]) == 'into' and len(x[2]) == 1 and self.is_vec(x[2][0]) and self.bits == 8:
                return [(x[2][0], ISet.of((0x80, 0xFF)))]        # one bit per byte: its most significant bit
            m = self.mask(x)
            return [m] if m is not None else None
        return None


def feasible(p):
    return r_kernel.feasible_consts(p)


def predicate(rep, f, c, rule, fn):
    b = f.body(fn)
    if b is None:
        return 0          # not compiled for this target (cfg alternative)
    q, bits, T = PRED[fn]
    L = Lane(f, b, bits)
    site = sp_str(b.raw['span'])
    n = 0
    for p in region_paths(b, 0):
        if p.end[0] != 'return' or not feasible(p):
            continue
        rv = p.env.get(0)
        if rv is None:
            continue
        W = L.full            # every lane is known to lie in W
        ex = []               # some lane lies in one of these
        und = False
        for e in p.events:
            if e[0] != 'cond' or not isinstance(e[2], bool):
                continue
            ce = e[1]
            if isinstance(ce, tuple) and ce and ce[0] == 'c':
                continue
            fs = L.fact(ce, e[2])
            if fs is None:
                und = True
                continue
            for leaf, kind, S in fs:
                if kind == 'forall':
                    W = W & S
                else:
                    ex.append(S)
        n += 1
        key = '%s:%s' % (fn, 'const-%s' % rv[1] if rv[0] == 'c' else 'reduction')
        if und:
            rep.ob(rule, key, False, 'undecidable: a branch condition of the predicate is not a recognised mask reduction', site, None, c)
            continue
        if rv[0] == 'c':
            val = bool(rv[1])
            if q == 'any':
                ok = any(not (S - T) for S in ex) if val else not (W & T)
                why = ('returns true without a lane proven to be in the target set' if val else
                       'returns false although lanes in %r are not excluded on this path' % ISet((W & T).iv[:3]))
            else:
                ok = not (W - T) if val else any(not (S & T) for S in ex)
                why = ('returns true although lanes in %r are not excluded on this path' % ISet((W - T).iv[:3]) if val else
                       'returns false without a lane proven to be outside the target set')
            rep.ob(rule, key, ok, why, site, {'known_lane_set': repr(W)}, c)
            continue
        # the return value is itself a reduction: it must agree with the definition on the lanes that can still occur
        ft = L.fact(rv, True)
        if ft is None or len(ft) != 1:
            rep.ob(rule, key, False, 'undecidable: returned expression is not a single mask reduction: %s' % expr_str(rv, b)[:100], site, None, c)
            continue
        leaf, kind, S = ft[0]
        if q == 'any':
            ok = kind in ('exists', 'exists-any') and (S & W) == (T & W)
            why = 'true is returned iff some lane is in %r, but the definition is %r (differences %r)' % (ISet((S & W).iv[:4]), ISet((T & W).iv[:4]), ISet((((S & W) - T) | ((T & W) - S)).iv[:4]))
        else:
            ok = kind == 'forall' and (S & W) == (T & W)
            why = 'true is returned iff every lane is in %r, but the definition is %r' % (S & W, T & W)
        rep.ob(rule, key, ok, why, site, {'lane_set': repr(S), 'known_lane_set': repr(W)}, c)
    return n


def validator(rep, f, c, rule, fn):
    b = f.body(fn)
    if b is None:
        return 0
    bits, F = VALIDATE[fn]
    L = Lane(f, b, bits)
    site = sp_str(b.raw['span'])
    n = 0
    for p in region_paths(b, 0):
        if p.end[0] != 'return' or not feasible(p):
            continue
        rv = p.env.get(0)
        if rv is None:
            continue
        vn = variant_name(rv) if rv[0] == 'agg' else None
        Ws = {}
        und = False
        for e in p.events:
            if e[0] != 'cond':
                continue
            ce = e[1]
            if isinstance(ce, tuple) and ce and ce[0] == 'c':
                continue
            if isinstance(ce, tuple) and ce and ce[0] == 'variant':
                sc = ce[1]
                if sc[0] == 'call' and short(sc[1]) == 'first_set':
                    m = L.mask(sc[2][0])
                    if m is None:
                        und = True
                    elif e[2] == 'None':
                        Ws[m[0]] = Ws.get(m[0], L.full) & (L.full - m[1])
                continue
            if not isinstance(e[2], bool):
                continue
            fs = L.fact(ce, e[2])
            if fs is None:
                und = True
                continue
            for leaf, kind, S in fs:
                if kind == 'forall':
                    Ws[leaf] = Ws.get(leaf, L.full) & S
        vecs = [('loc', i) for i in range(1, b.arg_count + 1)]
        if vn == 'None':
            n += 1
            bad = [v for v in vecs if Ws.get(v, L.full) & F]
            rep.ob(rule, '%s:None' % fn, not bad and not und,
                   'answers None although lanes in %r of argument %s are not excluded on this path' % (ISet((Ws.get(bad[0], L.full) & F).iv[:3]) if bad else '', bad[:1]),
                   site, None, c)
        elif rv[0] == 'call' and short(rv[1]) == 'first_set':
            n += 1
            m = L.mask(rv[2][0])
            W = Ws.get(m[0], L.full) if m else L.full
            rep.ob(rule, '%s:first_set' % fn, m is not None and (m[1] & W) == (F & W),
                   'the position is the first lane in %r, the definition flags %r' % (m[1] if m else None, F), site, None, c)
        elif vn == 'Some':
            # positions computed from masks: every mask that feeds the position must flag exactly F
            n += 1
            masks = []
            for sub in walk(rv):
                if isinstance(sub, tuple) and sub and sub[0] == 'call' and (short(sub[1]) in CMP):
                    m = L.mask(sub)
                    if m is not None:
                        masks.append(m)
            for e in p.events:
                if e[0] == 'cond' and isinstance(e[1], tuple) and e[1] and e[1][0] == 'variant' and e[2] == 'Some':
                    sc = e[1][1]
                    if sc[0] == 'call' and short(sc[1]) == 'first_set':
                        m = L.mask(sc[2][0])
                        if m is not None:
                            masks.append(m)
            ok = bool(masks) and all(m[1] == F for m in masks)
            rep.ob(rule, '%s:Some' % fn, ok,
                   'the reported position is derived from masks flagging %s, the definition flags %r' % ([repr(m[1]) for m in masks][:2], F), site, None, c)
    return n


def run(rep, f, c, rule='R-LANE'):
    n = 0
    for fn in sorted(PRED):
        n += predicate(rep, f, c, rule, fn)
    for fn in sorted(VALIDATE):
        n += validator(rep, f, c, rule, fn)
    rep.count('lane.obligations:%s' % c, n)
    rep.floor(rule, 'lane-predicate obligations', n, 16, c)
    return n
