"""Helper normalisation: functions that are not in the confirmed function inventory are analysed as part of their callers.

Every rule in this directory is anchored on functions that were read and confirmed on the pinned tree (rules/fn_inventory.json:
the body names of all feature configurations).  An "extract helper" refactoring moves part of an anchored function into a new
private function; judged on its own that helper has lost its context (its parameters are no longer known to be `src.len()`, a
unit of the buffer, ...), and the caller has lost the code that the rule wants to see.  Both are restored by splicing the MIR of
every *new* crate-local function into its call sites (ordinary MIR inlining: callee locals and blocks are appended and renumbered,
arguments become assignments, `return` becomes an assignment of the destination followed by a jump to the call's target).  The
spliced helper is then dropped from the body table unless it is public, exported, still called, or used as a function value.

On the pinned tree no function is new, so nothing is rewritten there.  Nothing is executed: this is a CFG splice.
"""
import copy, json, os

INVENTORY = os.path.join(os.path.dirname(os.path.abspath(__file__)), 'fn_inventory.json')
_known = None
MAX_ROUNDS = 4
MAX_BLOCKS = 400


def known():
    global _known
    if _known is None:
        try:
            _known = json.load(open(INVENTORY))          # {name: {'api': bool}}
        except Exception:
            _known = None
            raise
    return _known


def _map_place(p, ml):
    p['l'] = ml(p['l'])
    for pe in p['p']:
        if isinstance(pe, dict) and 'index' in pe:
            pe['index'] = ml(pe['index'])


def _walk_places(x, ml):
    if isinstance(x, dict):
        if set(x.keys()) == {'l', 'p'} and isinstance(x['l'], int) and isinstance(x['p'], list):
            _map_place(x, ml)
            return
        for k, v in x.items():
            if k in ('sp', 'tsp', 'fsp', 'call'):
                continue
            _walk_places(v, ml)
    elif isinstance(x, list):
        for v in x:
            _walk_places(v, ml)


def _map_term_blocks(t, mb, unwind_to):
    if 'goto' in t:
        t['goto'] = mb(t['goto'])
    if 'switch' in t:
        t['targets'] = [[v, mb(b)] for v, b in t['targets']]
        t['otherwise'] = mb(t['otherwise'])
    if 'target' in t and isinstance(t['target'], int):
        t['target'] = mb(t['target'])
    if isinstance(t.get('unwind'), int):
        t['unwind'] = mb(t['unwind'])
    elif 'unwind' in t and t['unwind'] == 'continue' and unwind_to is not None:
        t['unwind'] = unwind_to


def splice(caller, bi, callee):
    """Inline the call that terminates block bi of raw body `caller`; `callee` is the raw body of the called function."""
    t = caller['blocks'][bi]['t']
    nl, nb = len(caller['locals']), len(caller['blocks'])
    ml = lambda l: nl + l
    cont = nb + len(callee['blocks'])          # continuation block: dest = move ret; goto target
    mb = lambda b: nb + b
    sp = t.get('fsp') or caller['blocks'][bi]['tsp']
    unwind_to = t['unwind'] if isinstance(t.get('unwind'), int) else None
    for l in callee['locals']:
        caller['locals'].append(dict(l))
    for blk in callee['blocks']:
        nbk = copy.deepcopy(blk)
        for st in nbk['s']:
            _walk_places(st, ml)
        tt = nbk['t']
        _walk_places({k: v for k, v in tt.items() if k != 'call'}, ml)
        if 'return' in tt:
            nbk['t'] = {'goto': cont}
        elif 'resume' in tt and unwind_to is not None:
            nbk['t'] = {'goto': unwind_to}
        else:
            _map_term_blocks(tt, mb, unwind_to)
        caller['blocks'].append(nbk)
    # continuation
    if t.get('target') is None:
        cont_t = {'unreachable': None}
    else:
        cont_t = {'goto': t['target']}
    caller['blocks'].append({'s': [{'assign': copy.deepcopy(t['dest']), 'rv': {'use': {'move': {'l': ml(0), 'p': []}}}, 'sp': sp}],
                             't': cont_t, 'tsp': caller['blocks'][bi]['tsp'], 'cleanup': False})
    # the call block: bind the arguments, jump to the callee's entry
    blk = caller['blocks'][bi]
    if callee.get('kind') == 'closure' and len(t['args']) == 2 and callee['arg_count'] >= 1:
        # rust-call ABI: (closure reference, tuple of the arguments); the closure body takes the arguments spread out
        blk['s'].append({'assign': {'l': ml(1), 'p': []}, 'rv': {'use': copy.deepcopy(t['args'][0])}, 'sp': sp})
        tup = t['args'][1].get('move') or t['args'][1].get('copy')
        for k in range(callee['arg_count'] - 1):
            blk['s'].append({'assign': {'l': ml(k + 2), 'p': []},
                             'rv': {'use': {'move': {'l': tup['l'], 'p': list(tup['p']) + [{'field': str(k), 'idx': k}]}}}, 'sp': sp})
    else:
        for k, a in enumerate(t['args']):
            blk['s'].append({'assign': {'l': ml(k + 1), 'p': []}, 'rv': {'use': copy.deepcopy(a)}, 'sp': sp})
    blk['t'] = {'goto': mb(0)}
    caller.setdefault('inlined', []).append(t['call'].get('fn'))


def _calls(raw):
    for bi, blk in enumerate(raw['blocks']):
        t = blk['t']
        if 'call' in t and t['call'].get('fn'):
            yield bi, t['call']['fn']


def _fn_values(raw, names):
    """new functions mentioned as values (fn pointers, closures' captured fns): keep those"""
    s = json.dumps(raw['blocks'])
    return {n for n in names if ('"fn": %s' % json.dumps(n)) in s}


def normalise(d, log=None):
    """d: the loaded fact dict; rewrites d['bodies'] in place.  Returns the list of (caller, helper) splices."""
    try:
        K = known()
    except Exception:
        return []
    bodies = d['bodies']
    new = {n for n, b in bodies.items() if n not in K and b.get('kind') in ('fn', 'assoc_fn') and '{closure' not in n and '{constant' not in n}
    # closures used as local helpers (`let f = |x| ..; f(a); f(b)`): a direct call of a crate-local closure (Fn::call / FnMut::call_mut
    # resolved to the closure body) is spliced like a new helper, whatever the closure is called - the pinned tree has no such call in
    # any configuration, closures there are only handed to iterator adapters
    done = []
    for name, raw in list(bodies.items()):
        for bi, blk in list(enumerate(raw['blocks'])):
            t = blk['t']
            if 'call' not in t:
                continue
            cl = t['call']
            fn = cl.get('fn') or ''
            if '{closure' in fn and (cl.get('decl') or '') in ('core::ops::Fn::call', 'core::ops::FnMut::call_mut', 'std::ops::Fn::call', 'std::ops::FnMut::call_mut') \
                    and fn in bodies and fn != name and bodies[fn].get('kind') == 'closure' and len(t['args']) == 2 and len(bodies[fn]['blocks']) <= MAX_BLOCKS:
                tup = t['args'][1].get('move') or t['args'][1].get('copy')
                if not isinstance(tup, dict) or len(raw['blocks']) > 4 * MAX_BLOCKS:
                    continue
                splice(raw, bi, bodies[fn])
                done.append((name, fn))
    if not new:
        if done:
            d['inlined_helpers'] = sorted({fn for _, fn in done})
        return done
    for _ in range(MAX_ROUNDS):
        progress = False
        for name, raw in bodies.items():
            for bi, fn in list(_calls(raw)):
                if fn not in new or fn == name:
                    continue
                callee = bodies[fn]
                if len(callee['blocks']) > MAX_BLOCKS or any(f2 == fn for _, f2 in _calls(callee)):
                    continue
                if len(callee['locals']) <= callee['arg_count'] or len(raw['blocks'][bi]['t']['args']) != callee['arg_count']:
                    continue
                splice(raw, bi, callee)
                done.append((name, fn))
                progress = True
        if not progress:
            break
    # drop helpers that are now fully absorbed
    still_called = set()
    for name, raw in bodies.items():
        for bi, fn in _calls(raw):
            if fn in new and fn != name:
                still_called.add(fn)
        still_called |= {n for n in new if n != name and ('"fn": %s' % json.dumps(n)) in json.dumps([s for blk in raw['blocks'] for s in blk['s']])}
    absorbed = {fn for _, fn in done}
    for fn in sorted(absorbed):
        b = bodies[fn]
        if fn in still_called or b.get('exported') or b.get('reachable') or b.get('kind') == 'closure':
            continue
        del bodies[fn]
    d['inlined_helpers'] = sorted(absorbed)
    return done
